//! C13 — drives the real `samply_symbols::FileContentsWithChunkedCaching` (public, behind the public
//! `FileContentsWrapper`) over an in-memory `FileByteSource` whose bytes are defined by a compact generator
//! line, so that the Lean model and the judge compute the same file without it ever being printed.
//!
//! ops:  `file <len> <seed> <pat> <period> <badLo> <badHi>`  then
//!       `read <offset> <size>` | `until <lo> <hi> <delim>` | `into <offset> <size>` | `t <k> <op…>`
//!       (a maximal run of consecutive `t` lines = one section of concurrently running threads)
//!       shared.rs layer: `entire` | `wread <o> <n>` | `wuntil <lo> <hi> <d>` (through `<&FileContentsWrapper as
//!       ReadRef>`) | `vread <base> <k> <s1> <z1> … <o> <n>` | `vuntil <base> <k> <s1> <z1> … <lo> <hi> <d>` (through a
//!       `RangeReadRef`: `<base>` = `full` or `r:<start>:<size>`, then `k` nested `make_subrange(s_i, z_i)`)
//!       `sync` (after a section): prints `sync overlap=<0|1>` — whether two threads of the section were ever
//!       inside this cache's byte source at the same time (see `Gate`)
//! out:  per op `ok <len> <hex>` (len ≤ 40) | `ok <len> h:<fnv1a-64>` | `err:<kind>` | `panic` (ends the case)
use samply_symbols::object::ReadRef;
use samply_symbols::{
    FileAndPathHelperResult, FileByteSource, FileContentsWithChunkedCaching, FileContentsWrapper,
};
use std::panic::{catch_unwind, AssertUnwindSafe};
use std::cell::Cell;
use std::sync::atomic::{AtomicBool, AtomicI64, AtomicU64, Ordering};
use std::sync::{Arc, Barrier};
use std::time::Instant;
use verif_harness::common::*;

const CH: u64 = 32 * 1024;
const LIMIT: u64 = 4096;

#[derive(Clone, Copy, Debug)]
struct Gen {
    len: u64,
    seed: u64,
    pat: u64,
    period: u64,
    bad_lo: u64,
    bad_hi: u64,
}

fn mix(seed: u64, i: u64) -> u64 {
    let mut z = seed.wrapping_add(i.wrapping_mul(0x9E3779B97F4A7C15));
    z = (z ^ (z >> 30)).wrapping_mul(0xBF58476D1CE4E5B9);
    z = (z ^ (z >> 27)).wrapping_mul(0x94D049BB133111EB);
    z ^ (z >> 31)
}

/// byte `i` of the file (same function as `C13.genByte` in lean/SamplyModel/Iface/C13.lean)
fn gen_byte(g: &Gen, i: u64) -> u8 {
    let h = mix(g.seed, i);
    let nz = (1 + ((h >> 8) % 255)) as u8;
    let p = g.period.max(1);
    match g.pat {
        0 => (h >> 56) as u8,
        1 => {
            if i % p == g.seed % p {
                0
            } else {
                nz
            }
        }
        2 => {
            if (h >> 24) % p == 0 {
                0
            } else {
                nz
            }
        }
        _ => (i % 251) as u8,
    }
}

impl Gen {
    fn line(&self) -> String {
        format!("file {} {} {} {} {} {}", self.len, self.seed, self.pat, self.period, self.bad_lo, self.bad_hi)
    }
    fn parse(l: &str) -> Option<Gen> {
        let w: Vec<&str> = l.split_whitespace().collect();
        if w.len() != 7 || w[0] != "file" {
            return None;
        }
        let n = |k: usize| w[k].parse::<u64>().ok();
        Some(Gen { len: n(1)?, seed: n(2)?, pat: n(3)?, period: n(4)?, bad_lo: n(5)?, bad_hi: n(6)? })
    }
    /// files up to this size are materialised (the "plain copy"); larger ones are virtual
    fn materialise(&self) -> Option<Vec<u8>> {
        if self.len <= (1 << 24) {
            Some((0..self.len).map(|i| gen_byte(self, i)).collect())
        } else {
            None
        }
    }
    /// distance from `lo` to the first `d` at or after `lo` (searching at most `max` bytes)
    fn first_delim(&self, data: &[u8], lo: u64, d: u8, max: u64) -> Option<u64> {
        let end = (lo.saturating_add(max)).min(self.len);
        (lo..end).position(|i| data[i as usize] == d).map(|p| p as u64)
    }
}

/// Rendezvous inside the byte source, armed during concurrent sections. The cache holds its buffer-manager
/// mutex from planning a read until the new buffer is registered (cache.rs:55-75), so on the unchanged code
/// at most one thread of a section is ever inside the source: it waits out its (short) deadline alone. If
/// the lock is not held across the source read, the threads of a section meet here, `overlapped` is set
/// (reported by the `sync` op) and all of them are released at the same instant, which makes the
/// registration race behind the read (handle allocation vs. push) as likely as it can be made.
struct Gate {
    armed: AtomicBool,
    inside: AtomicU64,
    /// nanoseconds since `base` at which the threads currently inside are released
    deadline: AtomicU64,
    overlapped: AtomicBool,
    base: Instant,
}

const GATE_WAIT_NS: u64 = 250_000;

thread_local! {
    /// set while the current thread executes an `into` op: `read_bytes_into` goes straight to the source
    /// without any lock, overlapping there is legitimate
    static BYPASS_GATE: Cell<bool> = const { Cell::new(false) };
}

impl Gate {
    fn new() -> Gate {
        Gate { armed: AtomicBool::new(false), inside: AtomicU64::new(0), deadline: AtomicU64::new(0), overlapped: AtomicBool::new(false), base: Instant::now() }
    }
    fn now(&self) -> u64 {
        self.base.elapsed().as_nanos() as u64
    }
    fn enter(&self) -> bool {
        if !self.armed.load(Ordering::SeqCst) || BYPASS_GATE.with(|b| b.get()) {
            return false;
        }
        if self.inside.fetch_add(1, Ordering::SeqCst) == 0 {
            self.deadline.store(self.now() + GATE_WAIT_NS, Ordering::SeqCst);
        } else {
            self.overlapped.store(true, Ordering::SeqCst);
        }
        // busy-wait (the waits are short and the release must be simultaneous)
        while self.now() < self.deadline.load(Ordering::SeqCst) {
            std::hint::spin_loop();
        }
        if self.inside.load(Ordering::SeqCst) > 1 {
            self.overlapped.store(true, Ordering::SeqCst);
        }
        true
    }
    fn leave(&self) {
        self.inside.fetch_sub(1, Ordering::SeqCst);
    }
}

/// The byte source: in-memory bytes (or generated on the fly for a virtual file); fails out of bounds and
/// on every request touching `[bad_lo, bad_hi)`; counts its calls.
struct MemSource {
    g: Gen,
    data: Option<Arc<Vec<u8>>>,
    calls: Arc<AtomicU64>,
    unaligned_calls: Arc<AtomicU64>,
    gate: Arc<Gate>,
    /// `srcmode <k>`: a request ending exactly at EOF is answered with success but `k` bytes too few (`k > 0`) or
    /// `-k` zero bytes too many (`k < 0`) — the excluded point of the theorems' hypothesis `Faithful`
    mode: Arc<AtomicI64>,
}

impl FileByteSource for MemSource {
    fn read_bytes_into(&self, buffer: &mut Vec<u8>, offset: u64, size: usize) -> FileAndPathHelperResult<()> {
        let gated = self.gate.enter();
        let r = self.read_inner(buffer, offset, size);
        if gated {
            self.gate.leave();
        }
        r
    }
}

impl MemSource {
    fn read_inner(&self, buffer: &mut Vec<u8>, offset: u64, size: usize) -> FileAndPathHelperResult<()> {
        self.calls.fetch_add(1, Ordering::SeqCst);
        if offset % CH != 0 {
            self.unaligned_calls.fetch_add(1, Ordering::SeqCst);
        }
        let end = match offset.checked_add(size as u64) {
            Some(e) if e <= self.g.len => e,
            _ => return Err("source: request out of range".into()),
        };
        if size > 0 && offset < self.g.bad_hi && self.g.bad_lo < end {
            return Err("source: unreadable sector".into());
        }
        match &self.data {
            Some(d) => buffer.extend_from_slice(&d[offset as usize..end as usize]),
            None => buffer.extend((offset..end).map(|i| gen_byte(&self.g, i))),
        }
        let k = self.mode.load(Ordering::SeqCst);
        if k != 0 && end == self.g.len && size > 0 {
            if k > 0 {
                let cut = (k as u64).min(size as u64) as usize;
                buffer.truncate(buffer.len() - cut);
            } else {
                buffer.extend(std::iter::repeat(0u8).take(k.unsigned_abs() as usize));
            }
        }
        Ok(())
    }
}

type Cache = FileContentsWrapper<FileContentsWithChunkedCaching<MemSource>>;

fn fnv_bytes(bytes: &[u8]) -> u64 {
    let mut h: u64 = 0xcbf29ce484222325;
    for b in bytes {
        h ^= *b as u64;
        h = h.wrapping_mul(0x100000001b3);
    }
    h
}

fn show_bytes(b: &[u8]) -> String {
    if b.len() <= 40 {
        format!("ok {} {}", b.len(), hex(b))
    } else {
        format!("ok {} h:{:016x}", b.len(), fnv_bytes(b))
    }
}

fn show_err(e: &(dyn std::error::Error + Send + Sync)) -> String {
    let m = e.to_string();
    let kind = if m.contains("overflowing") {
        "overflow"
    } else if m.contains("out-of-bounds") {
        "oob"
    } else if m.contains("range.end < range.start") {
        "badrange"
    } else if m.contains("Could not find delimiter") {
        "nodelim"
    } else if m.starts_with("source:") {
        "source"
    } else {
        "other"
    };
    format!("err:{kind}")
}

/// a `RangeReadRef`: `full_range()` / `range(start, size)` and up to three nested `make_subrange` calls
#[derive(Clone, Copy, Debug, PartialEq)]
struct ViewSpec {
    base: Option<(u64, u64)>,
    subs: [(u64, u64); 3],
    k: usize,
}

impl ViewSpec {
    fn text(&self) -> String {
        let mut t = match self.base {
            None => "full".to_string(),
            Some((s, z)) => format!("r:{s}:{z}"),
        };
        t.push_str(&format!(" {}", self.k));
        for &(s, z) in &self.subs[..self.k] {
            t.push_str(&format!(" {s} {z}"));
        }
        t
    }
    /// parses `<base> <k> <s1> <z1> …` and returns the remaining words
    fn parse<'a>(w: &'a [&'a str]) -> Option<(ViewSpec, &'a [&'a str])> {
        let base = match *w.first()? {
            "full" => None,
            b => {
                let p: Vec<&str> = b.split(':').collect();
                if p.len() != 3 || p[0] != "r" {
                    return None;
                }
                Some((p[1].parse().ok()?, p[2].parse().ok()?))
            }
        };
        let k: usize = w.get(1)?.parse().ok()?;
        if k > 3 || w.len() < 2 + 2 * k {
            return None;
        }
        let mut subs = [(0u64, 0u64); 3];
        for i in 0..k {
            subs[i] = (w[2 + 2 * i].parse().ok()?, w[3 + 2 * i].parse().ok()?);
        }
        Some((ViewSpec { base, subs, k }, &w[2 + 2 * k..]))
    }
    /// where the view starts in the file (`None`: the starts add up to 2^64 or more; since 989a9c95
    /// `make_subrange` saturates, such a view starts at `u64::MAX`)
    fn start(&self) -> Option<u64> {
        let mut s = self.base.map_or(0, |b| b.0);
        for &(a, _) in &self.subs[..self.k] {
            s = s.checked_add(a)?;
        }
        Some(s)
    }
}

#[derive(Clone, Copy, Debug)]
enum Op {
    Read(u64, u64),
    Until(u64, u64, u8),
    Into(u64, u64),
    // the shared.rs layer
    Entire,
    WRead(u64, u64),
    WUntil(u64, u64, u8),
    VRead(ViewSpec, u64, u64),
    VUntil(ViewSpec, u64, u64, u8),
}

impl Op {
    fn line(&self) -> String {
        match *self {
            Op::Read(o, n) => format!("read {o} {n}"),
            Op::Until(a, b, d) => format!("until {a} {b} {d}"),
            Op::Into(o, n) => format!("into {o} {n}"),
            Op::Entire => "entire".to_string(),
            Op::WRead(o, n) => format!("wread {o} {n}"),
            Op::WUntil(a, b, d) => format!("wuntil {a} {b} {d}"),
            Op::VRead(v, o, n) => format!("vread {} {o} {n}", v.text()),
            Op::VUntil(v, a, b, d) => format!("vuntil {} {a} {b} {d}", v.text()),
        }
    }
    fn parse(w: &[&str]) -> Option<Op> {
        let n = |k: usize| w.get(k).and_then(|s| s.parse::<u64>().ok());
        match *w.first()? {
            "read" if w.len() == 3 => Some(Op::Read(n(1)?, n(2)?)),
            "until" if w.len() == 4 => Some(Op::Until(n(1)?, n(2)?, n(3)? as u8)),
            "into" if w.len() == 3 => Some(Op::Into(n(1)?, n(2)?)),
            "entire" if w.len() == 1 => Some(Op::Entire),
            "wread" if w.len() == 3 => Some(Op::WRead(n(1)?, n(2)?)),
            "wuntil" if w.len() == 4 => Some(Op::WUntil(n(1)?, n(2)?, n(3)? as u8)),
            "vread" => {
                let (v, rest) = ViewSpec::parse(&w[1..])?;
                let m = |k: usize| rest.get(k).and_then(|s| s.parse::<u64>().ok());
                if rest.len() != 2 {
                    return None;
                }
                Some(Op::VRead(v, m(0)?, m(1)?))
            }
            "vuntil" => {
                let (v, rest) = ViewSpec::parse(&w[1..])?;
                let m = |k: usize| rest.get(k).and_then(|s| s.parse::<u64>().ok());
                if rest.len() != 3 {
                    return None;
                }
                Some(Op::VUntil(v, m(0)?, m(1)?, m(2)? as u8))
            }
            _ => None,
        }
    }
    /// the cache-level request behind a call of the shared.rs layer (saturating; only used to shape later
    /// requests and for statistics)
    fn under(&self, len: u64) -> Op {
        match *self {
            Op::Entire => Op::Read(0, len),
            Op::WRead(o, n) => Op::Read(o, n),
            Op::WUntil(a, b, d) => Op::Until(a, b, d),
            Op::VRead(v, o, n) => Op::Read(v.start().unwrap_or(u64::MAX).saturating_add(o), n),
            Op::VUntil(v, a, b, d) => {
                let s = v.start().unwrap_or(u64::MAX);
                Op::Until(s.saturating_add(a), s.saturating_add(b), d)
            }
            o => o,
        }
    }
}

fn build_view<'a>(cache: &'a Cache, v: &ViewSpec) -> impl ReadRef<'a> {
    let mut view = match v.base {
        None => cache.full_range(),
        Some((s, z)) => cache.range(s, z),
    };
    for &(s, z) in &v.subs[..v.k] {
        view = view.make_subrange(s, z);
    }
    view
}

/// one call into the real code; `None` = it panicked
fn run_op(cache: &Cache, op: Op) -> Option<String> {
    // in-bounds requests of more than 16 MiB are not executed (never generated; guards replays)
    let big = |o: u128, n: u64| n > (1 << 24) && o + n as u128 <= cache.len() as u128;
    let skip = match op {
        Op::Read(o, n) | Op::Into(o, n) | Op::WRead(o, n) => big(o as u128, n),
        Op::VRead(v, o, n) => {
            let s: u128 = v.base.map_or(0, |b| b.0 as u128) + v.subs[..v.k].iter().map(|p| p.0 as u128).sum::<u128>();
            big(s + o as u128, n)
        }
        Op::Entire => cache.len() > (1 << 24),
        _ => false,
    };
    if skip {
        return Some("skip:too-large".to_string());
    }
    let unit = |r: Result<&[u8], ()>| match r {
        Ok(b) => show_bytes(b),
        Err(()) => "err:readref".to_string(),
    };
    catch_unwind(AssertUnwindSafe(|| match op {
        Op::Read(o, n) => match cache.read_bytes_at(o, n) {
            Ok(b) => show_bytes(b),
            Err(e) => show_err(&*e),
        },
        Op::Until(a, b, d) => match cache.read_bytes_at_until(a..b, d) {
            Ok(bytes) => show_bytes(bytes),
            Err(e) => show_err(&*e),
        },
        Op::Into(o, n) => {
            // the destination already holds bytes: the contract is to APPEND `size` bytes (callers gather
            // several ranges into one buffer)
            const PREFIX: [u8; 5] = [0xAA, 0x55, 0x00, 0xFF, 0x42];
            let mut v = PREFIX.to_vec();
            BYPASS_GATE.with(|b| b.set(true));
            let r = cache.read_bytes_into(&mut v, o, n as usize);
            BYPASS_GATE.with(|b| b.set(false));
            match r {
                Ok(()) if v.len() >= PREFIX.len() && v[..PREFIX.len()] == PREFIX => show_bytes(&v[PREFIX.len()..]),
                Ok(()) => format!("clobbered {}", v.len()),
                Err(e) => show_err(&*e),
            }
        }
        Op::Entire => match cache.read_entire_data() {
            Ok(b) => show_bytes(b),
            Err(e) => show_err(&*e),
        },
        // `impl ReadRef for &FileContentsWrapper` (what `object` / `gimli` call)
        Op::WRead(o, n) => unit(ReadRef::read_bytes_at(cache, o, n)),
        Op::WUntil(a, b, d) => unit(ReadRef::read_bytes_at_until(cache, a..b, d)),
        // `RangeReadRef`
        Op::VRead(v, o, n) => unit(build_view(cache, &v).read_bytes_at(o, n)),
        Op::VUntil(v, a, b, d) => unit(build_view(cache, &v).read_bytes_at_until(a..b, d)),
    }))
    .ok()
}

// ---------------------------------------------------------------------------------------------------
// generators

const LENS: [u64; 14] = [0, 1, 2, 100, 4095, 4097, CH - 1, CH, CH + 1, 2 * CH - 1, 2 * CH, 2 * CH + 1, 3 * CH - 1, 3 * CH + 1];

fn gen_file(rng: &mut Rng) -> Gen {
    let len = match rng.below(10) {
        0..=5 => *rng.pick(&LENS),
        6 => rng.range(3, 300),
        7 => rng.range(1, 4) * CH + rng.range(0, 40) - 20,
        _ => rng.range(0, 4 * CH),
    };
    let pat = *rng.pick(&[0u64, 0, 1, 1, 1, 2, 2, 3]);
    let period = match rng.below(8) {
        0 => rng.range(1, 8),
        1 => rng.range(9, 300),
        2 => LIMIT - 1,
        3 => LIMIT,
        4 => LIMIT + 1,
        5 => rng.range(LIMIT - 40, LIMIT + 40),
        6 => rng.range(300, 3 * LIMIT),
        _ => CH + rng.range(0, 20) - 10,
    };
    let (bad_lo, bad_hi) = if len > 0 && rng.chance(1, 6) {
        let a = rng.below(len);
        (a, (a + 1 + rng.below(3) * rng.below(200)).min(len))
    } else {
        (0, 0)
    };
    Gen { len, seed: rng.next_u64() >> rng.below(60), pat, period, bad_lo, bad_hi }
}

/// an offset close to an interesting position (chunk boundary, EOF, 0, an earlier request)
fn near(rng: &mut Rng, g: &Gen, prev: &[Op]) -> u64 {
    let base = match rng.below(8) {
        0 => 0,
        1 | 2 => rng.range(0, g.len / CH + 1) * CH,
        3 => g.len,
        4 => rng.below(g.len + 1),
        5 | 6 if !prev.is_empty() => match *rng.pick(prev) {
            Op::Read(o, n) => o.saturating_add(rng.below(n + 1)),
            Op::Until(a, b, _) => a.saturating_add(rng.below(b.saturating_sub(a).min(LIMIT) + 1)),
            Op::Into(o, _) => o,
            _ => 0, // `prev` holds cache-level requests only
        },
        _ => rng.below(g.len + 1),
    };
    let delta = match rng.below(4) {
        0 => 0,
        1 => rng.below(3),
        _ => rng.below(40),
    };
    if rng.chance(1, 2) {
        base.saturating_sub(delta)
    } else {
        base.saturating_add(delta)
    }
}

fn gen_read(rng: &mut Rng, g: &Gen, prev: &[Op]) -> Op {
    match rng.below(20) {
        // overflow / far out of bounds
        0 => Op::Read(u64::MAX - rng.below(3), rng.range(0, 5)),
        1 => Op::Read(near(rng, g, prev), u64::MAX - rng.below(CH * 2)),
        2 => Op::Read(rng.next_u64(), rng.next_u64() >> rng.below(64)),
        // empty
        3 => Op::Read(near(rng, g, prev), 0),
        // ends exactly at / just past EOF
        4 | 5 => {
            let o = near(rng, g, prev).min(g.len);
            Op::Read(o, g.len - o + rng.below(2) * rng.below(3))
        }
        // extends an earlier read beyond the end of its chunk (start already cached)
        6..=9 if !prev.is_empty() => {
            let (o, n) = match *rng.pick(prev) {
                Op::Read(o, n) => (o, n.min(4 * CH)),
                Op::Until(a, b, _) => (a, b.saturating_sub(a).min(LIMIT)),
                Op::Into(o, n) => (o, n.min(4 * CH)),
                _ => (0, 1),
            };
            let start = o.saturating_add(rng.below(n + 1));
            let chunk_end = (o.saturating_add(n) / CH + 1).saturating_mul(CH);
            let end = chunk_end.saturating_add(rng.below(CH + 2)).saturating_sub(rng.below(3));
            Op::Read(start, end.saturating_sub(start))
        }
        // large
        10 | 11 => Op::Read(near(rng, g, prev), rng.range(1, 5 * CH / 2)),
        // small
        _ => Op::Read(near(rng, g, prev), rng.range(1, 80)),
    }
}

fn gen_until(rng: &mut Rng, g: &Gen, data: &[u8], prev: &[Op]) -> Op {
    // same start as an earlier delimited read, other end / other delimiter
    let prev_until: Vec<(u64, u64, u8)> =
        prev.iter().filter_map(|o| if let Op::Until(a, b, d) = *o { Some((a, b, d)) } else { None }).collect();
    let lo = if !prev_until.is_empty() && rng.chance(2, 5) { rng.pick(&prev_until).0 } else { near(rng, g, prev) };
    // a delimiter that occurs soon after lo (or 0 for the zero-delimited patterns, or anything)
    let d: u8 = match rng.below(6) {
        0 | 1 if lo < g.len => data[(lo + rng.below((g.len - lo).min(300))) as usize],
        2 if lo < g.len => data[(lo + rng.below((g.len - lo).min(2 * LIMIT))) as usize],
        3 => rng.below(256) as u8,
        _ => 0,
    };
    let hi = match g.first_delim(data, lo.min(g.len), d, 3 * LIMIT) {
        Some(k) if rng.chance(4, 5) => {
            let p = lo + k; // position of the delimiter
            match rng.below(8) {
                0 => p,                                  // range ends at the delimiter (excluded)
                1 => p + 1,                              // just includes it
                2 => p.saturating_sub(rng.below(k + 1)), // before it
                3 => lo,                                 // empty
                4 => g.len,
                5 => (p + 1 + rng.below(LIMIT)).min(g.len),
                6 => (lo + LIMIT + rng.below(3)).saturating_sub(1).min(g.len), // around the 4096 limit
                _ => p + rng.below(3),
            }
        }
        _ => match rng.below(6) {
            0 => lo,
            1 => lo.saturating_sub(1 + rng.below(3)), // end < start
            2 => g.len + 1 + rng.below(3),            // out of bounds
            3 => g.len,
            _ => near(rng, g, prev),
        },
    };
    Op::Until(lo, hi, d)
}

/// start positions whose distance to the next zero byte is close to the 4096 limit (pattern 1)
fn gen_until_limit(rng: &mut Rng, g: &Gen) -> Option<Op> {
    if g.pat != 1 || g.len == 0 {
        return None;
    }
    let p = g.period.max(1);
    let first = g.seed % p;
    if first >= g.len {
        return None;
    }
    let k = rng.below((g.len - first).div_ceil(p));
    let pos = first + k * p;
    let dist = *rng.pick(&[0u64, 1, 2, LIMIT - 2, LIMIT - 1, LIMIT, LIMIT + 1]);
    let lo = pos.checked_sub(dist)?;
    let hi = match rng.below(5) {
        0 => pos,
        1 => pos + 1,
        2 => g.len,
        3 => (lo + LIMIT).min(g.len),
        _ => (pos + 1 + rng.below(10)).min(g.len),
    };
    Some(Op::Until(lo, hi, 0))
}

/// keep the share of trivially failing requests moderate: most out-of-bounds reads / inverted ranges are
/// pulled back into the file (the dedicated out-of-bounds / overflow families are left alone)
fn tame(rng: &mut Rng, g: &Gen, op: Op) -> Op {
    if g.len == 0 || rng.chance(1, 4) {
        return op;
    }
    match op {
        Op::Read(o, n) if n > 0 && n < 8 * CH && o < u64::MAX / 2 => {
            let o2 = if o >= g.len { rng.below(g.len) } else { o };
            let n2 = if o2 + n > g.len + 1 { rng.range(1, g.len - o2) } else { n };
            Op::Read(o2, n2)
        }
        Op::Until(a, b, d) if b < a => Op::Until(b, a, d),
        Op::Until(a, b, d) if b > g.len && a <= g.len => Op::Until(a, g.len - rng.below(g.len - a + 1), d),
        _ => op,
    }
}

fn gen_op(rng: &mut Rng, g: &Gen, data: &[u8], prev: &[Op]) -> Op {
    let op = gen_op_raw(rng, g, data, prev);
    let op = tame(rng, g, op);
    // about one call in six goes through the shared.rs layer instead
    if rng.chance(1, 6) {
        to_view_op(rng, g, op)
    } else {
        op
    }
}

/// a `RangeReadRef` whose start is at or below `target` (mostly), built from a base and 0..3 nested
/// sub-ranges with arbitrary sizes (shared.rs never consults them), and the remaining distance to `target`
fn gen_view(rng: &mut Rng, g: &Gen, target: u64) -> (ViewSpec, u64) {
    let mut budget = match rng.below(6) {
        0 => 0,
        1 => target,
        2 => target.min(rng.below(CH + 1)),
        3 => (target / CH) * CH,
        _ => rng.below(target.saturating_add(1)),
    };
    let k = rng.below(4) as usize;
    fn size(rng: &mut Rng, g: &Gen) -> u64 {
        match rng.below(6) {
            0 => 0,
            1 => 1,
            2 => g.len,
            3 => u64::MAX,
            _ => rng.below(g.len.saturating_add(2)),
        }
    }
    let mut parts: Vec<u64> = Vec::new();
    for _ in 0..k {
        let a = if rng.chance(1, 3) { 0 } else { rng.below(budget.saturating_add(1)) };
        budget -= a;
        parts.push(a);
    }
    // what is left of the budget is the base's start, unless the base is `full_range()`
    let full = rng.chance(1, 3);
    let mut subs = [(0u64, 0u64); 3];
    for (i, a) in parts.iter().enumerate() {
        subs[i] = (*a, size(rng, g));
    }
    let base = if full { None } else { Some((budget, size(rng, g))) };
    let v = ViewSpec { base, subs, k };
    let s = v.start().unwrap_or(0);
    (v, target.saturating_sub(s))
}

/// the same request issued through the shared.rs layer
fn to_view_op(rng: &mut Rng, g: &Gen, op: Op) -> Op {
    match op {
        Op::Read(o, n) => match rng.below(10) {
            0 if g.len <= 4 * CH && rng.chance(1, 3) => Op::Entire,
            1 | 2 => Op::WRead(o, n),
            3 => {
                // shifted offset overflows u64: `checked_add` must turn it into a clean error
                let s = u64::MAX - rng.below(50);
                let v = ViewSpec { base: Some((s, rng.below(100))), subs: [(0, 0); 3], k: 0 };
                Op::VRead(v, rng.range(u64::MAX - s, u64::MAX - s + 60), n.min(100))
            }
            4 => gen_subrange_overflow(rng, g),
            _ => {
                let (v, rest) = gen_view(rng, g, o);
                Op::VRead(v, rest, n)
            }
        },
        Op::Until(a, b, d) => match rng.below(4) {
            0 => Op::WUntil(a, b, d),
            _ => {
                let (v, rest) = gen_view(rng, g, a.min(b));
                let s = a.min(b) - rest;
                Op::VUntil(v, a - s, b - s, d)
            }
        },
        o => o,
    }
}

/// the starts of a `make_subrange` chain reach 2^64 (the defect repaired by 989a9c95: the pre-fix code added
/// unchecked — panic with overflow checks, wrapped offset in release; the repaired code saturates, the view
/// starts at `u64::MAX` and every non-empty read through it must fail cleanly). The wrapped offset
/// `a + b - 2^64` is made to fall inside the file, so that a wrapping build would return bytes.
fn gen_subrange_overflow(rng: &mut Rng, g: &Gen) -> Op {
    let a = u64::MAX - rng.below(3 * CH);
    let b = u64::MAX - a + 1 + rng.below(g.len.min(1 << 40) + 2); // a + b wraps to `below(len + 2)`
    let mut subs = [(0u64, 0u64); 3];
    let (base, k) = match rng.below(4) {
        0 => {
            subs[0] = (b, rng.below(100));
            (Some((a, 10)), 1)
        }
        1 => {
            subs[0] = (a, 5);
            subs[1] = (b, 5);
            (None, 2)
        }
        2 => {
            // lands exactly on 2^64
            subs[0] = (u64::MAX - a + 1, g.len);
            subs[1] = (rng.below(3), 1);
            (Some((a, u64::MAX)), 2)
        }
        _ => {
            subs[0] = (1, 5);
            subs[1] = (a - 1, 5);
            subs[2] = (b, u64::MAX);
            (Some((0, g.len)), 3)
        }
    };
    let v = ViewSpec { base, subs, k };
    match rng.below(6) {
        0 => Op::VRead(v, 0, 0),
        1 => Op::VRead(v, rng.below(3), 0),
        2 => Op::VUntil(v, rng.below(3), rng.below(5000), 0),
        3 => Op::VRead(v, 0, rng.range(1, 9)),
        _ => Op::VRead(v, rng.below(4), rng.range(1, 9)),
    }
}

fn gen_op_raw(rng: &mut Rng, g: &Gen, data: &[u8], prev: &[Op]) -> Op {
    match rng.below(20) {
        0..=9 => gen_read(rng, g, prev),
        10..=13 => gen_until(rng, g, data, prev),
        14 | 15 => gen_until_limit(rng, g).unwrap_or_else(|| gen_until(rng, g, data, prev)),
        // an earlier request again
        16 | 17 if !prev.is_empty() => *rng.pick(prev),
        18 => Op::Into(near(rng, g, prev), rng.below(200)),
        _ => {
            if rng.chance(1, 4) {
                Op::Into(rng.next_u64() >> rng.below(64), rng.next_u64() >> rng.range(20, 63))
            } else {
                gen_read(rng, g, prev)
            }
        }
    }
}

fn boundary_case(len: u64, pat: u64) -> Case {
    let g = Gen { len, seed: 50, pat, period: 1000, bad_lo: 0, bad_hi: 0 };
    let mut ops = vec![g.line()];
    let mut p = |o: Op| ops.push(o.line());
    // whole file, EOF, one past, empty reads, overflow
    p(Op::Read(0, len));
    p(Op::Read(0, len + 1));
    p(Op::Read(len.saturating_sub(1), 1));
    p(Op::Read(len, 1));
    p(Op::Read(len, 0));
    p(Op::Read(len + 1, 0));
    p(Op::Read(u64::MAX, 1));
    p(Op::Read(u64::MAX - 1, 2));
    p(Op::Read(1, u64::MAX));
    p(Op::Read(u64::MAX, 0));
    // every chunk boundary: just before, straddling, just after
    for k in 0..=(len / CH + 1) {
        let b = k * CH;
        p(Op::Read(b.saturating_sub(1), 1));
        p(Op::Read(b.saturating_sub(1), 2));
        p(Op::Read(b, 1));
        p(Op::Read(b.saturating_sub(7), 14));
    }
    // delimited reads: empty ranges, end before / at / after the delimiter (zero bytes at 50 + 1000 j)
    p(Op::Until(0, 0, 0));
    p(Op::Until(len / 2, len / 2, 0));
    p(Op::Until(len, len, 0));
    p(Op::Until(len, len + 1, 0));
    p(Op::Until(5, 4, 0));
    p(Op::Until(10, 100, 0));
    p(Op::Until(10, 20, 0));
    p(Op::Until(10, 50, 0));
    p(Op::Until(10, 51, 0));
    p(Op::Until(10, len, 0));
    p(Op::Until(10, 100, 1));
    p(Op::Until(51, len, 0));
    p(Op::Until(51, 51 + LIMIT, 0));
    p(Op::Into(0, len));
    p(Op::Into(0, len + 1));
    p(Op::Into(len, 0));
    Case { name: format!("boundary-{len}-p{pat}"), ops }
}

/// files whose length is within a few chunks of 2^64 (only possible with a synthetic source; here a virtual
/// one): reads in the last chunks, at EOF, overflowing. Before 9c4312ce an in-bounds read ending in the last
/// 32 KiB of a file with `len >= 2^64 - 32768` panicked (round_up_to_multiple overflow).
fn huge_case(len: u64, pat: u64) -> Case {
    let g = Gen { len, seed: 5, pat, period: 300, bad_lo: 0, bad_hi: 0 };
    let mut ops = vec![g.line()];
    let mut p = |o: Op| ops.push(o.line());
    p(Op::Read(len - 47, 5));
    p(Op::Read(len - 7, 7));
    p(Op::Read(len - 7, 8));
    p(Op::Read(len - CH - 3, 6)); // straddles a chunk boundary (or not, depending on len)
    p(Op::Read(len - CH - 3, CH)); // start cached, extends towards EOF
    p(Op::Read(len - 2 * CH - 100, 2 * CH + 100)); // to EOF over three chunks
    p(Op::Read(len - 1, 1));
    p(Op::Read(len, 0));
    p(Op::Read(len, 1));
    p(Op::Read(len - 1, CH + 2)); // offset + size overflows (or is out of bounds)
    p(Op::Until(len - 900, len, 0));
    p(Op::Until(len - 900, len - 890, 0));
    p(Op::Until(len, len, 0));
    p(Op::Until(len - 1, len, 0));
    p(Op::Read(0, 9));
    p(Op::Read(1 << 40, 9));
    p(Op::Into(len - 5, 5));
    p(Op::Into(len - 5, 6));
    Case { name: format!("huge-{len}-p{pat}"), ops }
}

fn gen_huge_case(rng: &mut Rng) -> Vec<String> {
    let len = match rng.below(4) {
        0 => u64::MAX,
        1 => u64::MAX - CH + rng.below(3), // 2^64 - 32769 + {0,1,2}
        _ => u64::MAX - rng.below(3 * CH),
    };
    let g = Gen { len, seed: rng.next_u64(), pat: *rng.pick(&[0u64, 1, 2]), period: rng.range(2, 600), bad_lo: 0, bad_hi: 0 };
    let mut ops = vec![g.line()];
    let mut prev: Vec<(u64, u64)> = Vec::new();
    for _ in 0..rng.range(3, 25) {
        let o = match rng.below(6) {
            0 if !prev.is_empty() => {
                let (o, n) = *rng.pick(&prev);
                o.saturating_add(rng.below(n + 1))
            }
            1 => (len / CH).saturating_sub(rng.below(3)).saturating_mul(CH).saturating_sub(rng.below(20)),
            2 => rng.below(1 << 20),
            _ => len - rng.below(3 * CH),
        };
        let n = match rng.below(5) {
            0 => len.saturating_sub(o),
            1 => rng.range(1, 2 * CH),
            2 => len.saturating_sub(o).saturating_add(rng.below(3)),
            _ => rng.range(1, 100),
        };
        let n = if rng.chance(3, 4) { n.min(len.saturating_sub(o)).max(1) } else { n };
        // an in-bounds request must stay executable (the model and the judge build the bytes as lists)
        let n = if o.checked_add(n).map_or(false, |e| e <= len) && n > 3 * CH { rng.range(1, 2 * CH) } else { n };
        match rng.below(5) {
            0 => {
                let hi = *rng.pick(&[len, o.saturating_add(n).min(len), o]);
                ops.push(Op::Until(o, hi, if g.pat == 0 { rng.below(256) as u8 } else { 0 }).line())
            }
            1 if n < 4 * CH => ops.push(Op::Into(o, n).line()),
            _ => ops.push(Op::Read(o, n).line()),
        }
        prev.push((o, n.min(4 * CH)));
    }
    ops
}

/// a source that fails on one byte range: reads around it, and the one benign history dependence (a
/// delimited read answered from the string cache although a fresh cache would have to read a buffer the
/// source refuses)
fn failing_source_case() -> Case {
    let lo = CH - 100;
    let g = Gen { len: 2 * CH + 100, seed: CH - 50, pat: 1, period: 1 << 40, bad_lo: CH + 10, bad_hi: CH + 11 };
    let ops = vec![
        g.line(),
        Op::Until(lo, lo + LIMIT, 0).line(), // needs [0, 2 CH): source fails
        Op::Until(lo, lo + 60, 0).line(),    // needs [0, CH): ok, 50 bytes, cached
        Op::Until(lo, lo + LIMIT, 0).line(), // string-cache hit: ok
        Op::Read(CH - 5, 5).line(),
        Op::Read(CH - 5, 6).line(),   // straddles into the chunk with the bad byte
        Op::Read(CH + 11, 5).line(),  // same chunk as the bad byte
        Op::Read(2 * CH, 100).line(), // last (partial) chunk is fine
        Op::Read(2 * CH - 1, 2).line(),
        Op::Into(CH + 11, 5).line(), // uncached: only the request itself matters
        Op::Into(CH + 5, 6).line(),
    ];
    Case { name: "failing-source".to_string(), ops }
}

/// the repo's unit-test scenarios of the range planner, scaled to the real chunk size, on real bytes
fn planner_cases() -> Vec<Case> {
    let g = Gen { len: 5 * CH + CH / 2, seed: 7, pat: 0, period: 1, bad_lo: 0, bad_hi: 0 };
    let s = |x: u64| x * CH / 10; // unit test uses chunk size 10
    let mk = |name: &str, rs: &[(u64, u64)]| Case {
        name: name.to_string(),
        ops: std::iter::once(g.line()).chain(rs.iter().map(|&(a, b)| Op::Read(s(a), s(b) - s(a)).line())).collect(),
    };
    vec![
        mk("planner-rounds-out", &[(3, 5), (27, 28), (27, 30), (20, 28), (27, 31), (19, 28), (15, 33), (48, 53)]),
        mk("planner-finds-existing", &[(3, 5), (3, 8), (24, 26), (23, 29)]),
        mk("planner-last-buffer-wins", &[(13, 15), (10, 28), (13, 15), (10, 20), (19, 21)]),
        mk("planner-start-straddles", &[(13, 18), (18, 23), (18, 20), (17, 20), (17, 23), (29, 31)]),
    ]
}

fn thread_section(rng: &mut Rng, g: &Gen, data: &[u8], prev: &mut Vec<Op>, ops: &mut Vec<String>, threads: u64, per: u64) {
    // ops of all threads interleaved in the listing (the listing order is what the model executes)
    let mut remaining: Vec<u64> = vec![per; threads as usize];
    let mut total = threads * per;
    // a few hot requests shared by several threads, so that they race for the same chunk
    let hot: Vec<Op> = (0..3).map(|_| gen_op(rng, g, data, prev)).collect();
    while total > 0 {
        let k = rng.below(threads) as usize;
        if remaining[k] == 0 {
            continue;
        }
        remaining[k] -= 1;
        total -= 1;
        let op = if rng.chance(1, 3) { *rng.pick(&hot) } else { gen_op(rng, g, data, prev) };
        prev.push(op.under(g.len));
        ops.push(format!("t {k} {}", op.line()));
    }
    ops.push("sync".to_string());
}

/// "first touch" race: a fresh cache, `threads` threads released together, each reading inside a chunk of
/// its own that nobody has read yet (so every thread has to plan a read, fetch and register a new buffer),
/// then the same ranges and their neighbours again sequentially (now served through the registered buffers:
/// a buffer registered under another chunk's range shows up as wrong bytes here at the latest)
fn first_touch_case(rng: &mut Rng, threads: u64, rounds: u64) -> Vec<String> {
    let chunks = threads * rounds;
    let len = chunks * CH + rng.below(3 * CH);
    let g = Gen { len, seed: rng.next_u64() % 1000, pat: *rng.pick(&[0u64, 1, 3]), period: rng.range(50, 3000), bad_lo: 0, bad_hi: 0 };
    let mut ops = vec![g.line()];
    let mut reads: Vec<Op> = Vec::new();
    let mut order: Vec<u64> = (0..threads * rounds).collect();
    // a random assignment of chunks to (thread, round)
    for i in (1..order.len()).rev() {
        let j = rng.below(i as u64 + 1) as usize;
        order.swap(i, j);
    }
    for r in 0..rounds {
        for k in 0..threads {
            let c = order[(r * threads + k) as usize];
            let off = c * CH + rng.below(CH - 64);
            let n = rng.range(1, 64).min(len - off);
            let op = if rng.chance(1, 5) { Op::Until(off, (off + 4096).min(len), 0) } else { Op::Read(off, n) };
            reads.push(op);
            ops.push(format!("t {k} {}", op.line()));
        }
    }
    ops.push("sync".to_string());
    for op in &reads {
        ops.push(op.line());
    }
    for c in 0..chunks {
        let off = c * CH + rng.below(CH - 8);
        ops.push(Op::Read(off, rng.range(1, 8).min(len - off)).line());
    }
    ops
}

/// the shared.rs layer at the boundaries: `read_entire_data` on a fresh cache and after partial reads, the
/// `ReadRef` impl of the wrapper, views starting at / straddling chunk boundaries and EOF, nested sub-ranges
/// (sizes 0 / tiny / huge: never consulted), shifted offsets overflowing u64
fn shared_layer_case(len: u64, entire_first: bool) -> Case {
    let g = Gen { len, seed: 50, pat: 1, period: 1000, bad_lo: 0, bad_hi: 0 };
    let mut ops = vec![g.line()];
    let mut p = |o: Op| ops.push(o.line());
    let v = |base: Option<(u64, u64)>, subs: &[(u64, u64)]| {
        let mut a = [(0u64, 0u64); 3];
        a[..subs.len()].copy_from_slice(subs);
        ViewSpec { base, subs: a, k: subs.len() }
    };
    if entire_first {
        p(Op::Entire);
    }
    p(Op::WRead(0, len.min(7)));
    p(Op::WRead(len.saturating_sub(3), 3));
    p(Op::WRead(len.saturating_sub(3), 4));
    p(Op::WRead(u64::MAX, 2));
    p(Op::WRead(len, 0));
    p(Op::WUntil(10, 100.min(len), 0));
    p(Op::WUntil(10, 50.min(len), 0));
    p(Op::WUntil(5, 4, 0));
    p(Op::WUntil(0, len + 1, 0));
    p(Op::VRead(v(None, &[]), 0, len.min(9)));
    p(Op::VRead(v(None, &[]), len.saturating_sub(1), 1));
    p(Op::VRead(v(None, &[]), len, 1));
    p(Op::VUntil(v(None, &[]), 10, len, 0));
    for k in 0..=(len / CH) {
        let b = k * CH;
        // a view that starts just before a chunk boundary; reads inside it, across the boundary, past its size
        p(Op::VRead(v(Some((b.saturating_sub(5), 10)), &[]), 0, 10));
        p(Op::VRead(v(Some((b.saturating_sub(5), 10)), &[]), 3, 20));
        p(Op::VRead(v(Some((b.saturating_sub(5), 10)), &[(2, 0), (3, 1)]), 0, 1));
        p(Op::VRead(v(Some((0, 0)), &[(b, u64::MAX), (0, 0), (1, 1)]), 0, 2));
        p(Op::VUntil(v(Some((b.saturating_sub(60), 4)), &[(7, 2)]), 0, 2000, 0));
    }
    p(Op::VRead(v(Some((len, 5)), &[]), 0, 0));
    p(Op::VRead(v(Some((len, 5)), &[]), 0, 1));
    p(Op::VRead(v(Some((len.saturating_sub(2), 5)), &[(1, 1)]), 0, 1));
    p(Op::VRead(v(Some((len.saturating_sub(2), 5)), &[(1, 1)]), 0, 2));
    // shifted offsets at the top of u64
    p(Op::VRead(v(Some((u64::MAX, 5)), &[]), 0, 1));
    p(Op::VRead(v(Some((u64::MAX, 5)), &[]), 1, 1));
    p(Op::VRead(v(Some((u64::MAX, 5)), &[]), 1, 0));
    p(Op::VRead(v(Some((u64::MAX - 9, 5)), &[(4, 1), (5, 1)]), 0, 1));
    p(Op::VRead(v(Some((u64::MAX - 9, 5)), &[(4, 1), (5, 1)]), 1, 1));
    p(Op::VUntil(v(Some((u64::MAX - 9, 5)), &[]), 5, 20, 0));
    p(Op::VUntil(v(Some((u64::MAX - 9, 5)), &[]), 20, 5, 0));
    p(Op::VUntil(v(Some((3, 5)), &[]), 20, 5, 0));
    // make_subrange chains whose starts reach 2^64 (989a9c95: saturate, every non-empty read fails cleanly; a
    // wrapping build would answer from offset 10 / 0 / 4 of the file)
    p(Op::VRead(v(Some((u64::MAX - 9, 5)), &[(20, 1)]), 0, 1));
    p(Op::VRead(v(Some((u64::MAX - 9, 5)), &[(20, 1)]), 0, 0));
    p(Op::VRead(v(Some((u64::MAX - 9, 5)), &[(20, 1)]), 1, 0));
    p(Op::VRead(v(None, &[(u64::MAX, 7), (1, 1)]), 0, 1));
    p(Op::VRead(v(None, &[(u64::MAX, 7), (1, 1), (4, 2)]), 0, 3));
    p(Op::VUntil(v(Some((u64::MAX - 9, 5)), &[(20, 1)]), 0, 2000, 0));
    p(Op::VUntil(v(Some((1, 1)), &[(u64::MAX - 1, 1), (u64::MAX, 1)]), 0, 0, 0));
    p(Op::VRead(v(Some((u64::MAX - 9, 5)), &[(9, 1)]), 0, 1)); // exactly u64::MAX: no saturation needed
    if !entire_first {
        p(Op::Entire);
    }
    p(Op::Read(0, len));
    Case { name: format!("shared-layer-{len}-{}", if entire_first { "entire-first" } else { "entire-last" }), ops }
}

/// many buffers: `chunks` distinct chunks are touched once each, in a scrambled order, by small reads,
/// delimited reads and reads straddling into the next chunk (so that hundreds of buffers, range-map entries
/// and string-cache entries exist); then the earliest requests, a sample of all of them and their neighbours
/// are issued again, the delimited ones also with another end. A cache that keeps only the most recent N
/// buffer ranges / strings, or whose range-map values stop matching the positions in `buffer_ranges`, shows
/// up here.
fn many_chunks_case(rng: &mut Rng, chunks: u64) -> Case {
    let len = chunks * CH + 777;
    let g = Gen { len, seed: rng.below(2000), pat: 1, period: 2003, bad_lo: 0, bad_hi: 0 };
    let mut ops = vec![g.line()];
    let mut order: Vec<u64> = (0..chunks).collect();
    for i in (1..order.len()).rev() {
        let j = rng.below(i as u64 + 1) as usize;
        order.swap(i, j);
    }
    let mut first: Vec<Op> = Vec::new();
    for &c in &order {
        let off = c * CH + rng.below(CH - 100);
        let op = match rng.below(6) {
            0 | 1 => Op::Until(off, (off + 4096).min(len), 0),
            2 => Op::Read(c * CH + CH - 10, 30), // straddles into chunk c+1
            _ => Op::Read(off, rng.range(1, 90)),
        };
        first.push(op);
        ops.push(op.line());
    }
    let again = |op: Op, rng: &mut Rng| -> Vec<Op> {
        match op {
            Op::Until(a, b, d) => vec![op, Op::Until(a, a + rng.range(1, 2100), d), Op::Until(a, b, 1)],
            Op::Read(o, n) => vec![op, Op::Read(o.saturating_sub(rng.below(50)), n + rng.below(50))],
            o => vec![o],
        }
    };
    for i in 0..first.len().min(48) {
        for o in again(first[i], rng) {
            ops.push(o.line());
        }
    }
    for _ in 0..64 {
        let op = *rng.pick(&first);
        for o in again(op, rng) {
            ops.push(o.line());
        }
    }
    Case { name: format!("many-chunks-{chunks}"), ops }
}

/// a delimited read whose 4096-byte window starts inside an existing buffer and ends in an unread chunk (the
/// new buffer starts mid-chunk, the string is cached with that buffer's handle and offset 0); then a long
/// chunk-aligned read re-covers the whole region in the range map; then the string is asked for again (other
/// end: string-cache hit, must still be served from the mid-chunk buffer), with another delimiter (miss:
/// served from the newest buffer) and as plain reads. `dist` = distance from the window start to the zero byte.
fn until_midchunk_case(start_back: u64, dist: u64) -> Case {
    let lo = 5 * CH - start_back;
    let g = Gen { len: 8 * CH + 5, seed: lo + dist, pat: 1, period: 1 << 40, bad_lo: 0, bad_hi: 0 };
    let ops = vec![
        g.line(),
        Op::Read(5 * CH - 3000, 50).line(),          // buffer 0 = [4 CH, 5 CH)
        Op::Until(lo, lo + 4096, 0).line(),          // start cached, window ends in chunk 5: buffer 1 = [lo, 6 CH)
        Op::Read(5 * CH + 5, 10).line(),             // served from buffer 1
        Op::Read(4 * CH - 5, 2 * CH + 10).line(),    // start not cached: buffer 2 = [3 CH, 7 CH) re-covers everything
        Op::Until(lo, lo + dist + 1, 0).line(),      // string-cache hit, delimiter is the last byte of the range
        Op::Until(lo, lo + dist, 0).line(),          // hit, delimiter just outside: must fail
        Op::Until(lo, 8 * CH, 0).line(),             // hit
        Op::Until(lo, lo + 4096, 7).line(),          // other delimiter: miss, served from buffer 2
        Op::Until(lo + 1, lo + 4096, 0).line(),      // other start: miss
        Op::Read(lo, dist + 2).line(),
        Op::Read(6 * CH - 4, 8).line(),              // straddles the end of buffer 1, inside buffer 2
        Op::WUntil(lo, lo + 4096, 0).line(),
        Op::Read(7 * CH - 2, 4).line(),              // start cached in buffer 2, extends: buffer 3 mid-chunk
        Op::Until(7 * CH - 1, 8 * CH, 0).line(),
    ];
    Case { name: format!("until-midchunk-{start_back}-{dist}"), ops }
}

/// a string that straddles a chunk boundary, cached from an aligned two-chunk buffer; then a buffer that ends
/// exactly at that boundary is registered over the string's start (range map: last insert wins); then the
/// string is asked for again (string-cache hit). The cached location `(buffer, offset)` must be used as it is: a
/// location re-derived from the range map points into the newer, shorter buffer.
fn until_straddle_rebuffered_case(back: u64) -> Case {
    let g = Gen { len: 4 * CH + 9, seed: 77, pat: 0, period: 1, bad_lo: 0, bad_hi: 0 };
    let lo = 2 * CH - back;
    // a delimiter whose first occurrence at or after `lo` lies beyond the chunk boundary
    let mut p = 2 * CH + 20;
    while p < 2 * CH + 300 && (lo..p).any(|i| gen_byte(&g, i) == gen_byte(&g, p)) {
        p += 1;
    }
    let d = gen_byte(&g, p);
    let ops = vec![
        g.line(),
        Op::Until(lo, lo + 4096, d).line(),       // fresh: buffer 0 = [CH, 3 CH), string [lo, p) cached
        Op::Read(CH - 5, 10).line(),              // chunk 0 not cached: buffer 1 = [0, 2 CH) now answers for `lo`
        Op::Until(lo, p + 1, d).line(),           // hit; the string ends beyond buffer 1
        Op::Until(lo, 4 * CH, d).line(),
        Op::Until(lo, p, d).line(),               // delimiter just outside
        Op::Read(lo, p - lo + 3).line(),          // start in buffer 1, end beyond it: buffer 2 starts mid-chunk at `lo`
        Op::Until(lo, lo + 4096, d).line(),
        Op::VUntil(ViewSpec { base: Some((lo - 3, 1)), subs: [(3, 0), (0, 0), (0, 0)], k: 1 }, 0, 4096, d).line(),
        Op::Until(lo + 1, lo + 4096, d).line(),   // other start: miss, served from buffer 2
    ];
    Case { name: format!("until-straddle-rebuffered-{back}"), ops }
}

/// the excluded point of `Faithful`: the source reports success with a buffer of the wrong length for a
/// request ending at EOF (file truncated / grown after its length was taken). With the last chunk cached
/// beforehand nothing is fetched again and every answer stays right; otherwise the cache's `assert!`
/// (cache.rs:67) fires: outcome `panic`, which ends the case.
fn unfaithful_source_case(k: i64, cached_before: bool) -> Case {
    let len = 2 * CH + 100;
    let g = Gen { len, seed: 9, pat: 0, period: 1, bad_lo: 0, bad_hi: 0 };
    let mut ops = vec![g.line(), Op::Read(10, 5).line()];
    if cached_before {
        ops.push(Op::Read(2 * CH + 10, 5).line());
    }
    ops.push(format!("srcmode {k}"));
    ops.push(Op::Read(CH + 5, 10).line()); // buffer [CH, 2 CH): does not end at EOF
    ops.push(Op::Into(len - 20, 10).line());
    ops.push(Op::Into(len - 10, 10).line()); // handed through with the wrong size
    ops.push(Op::Read(2 * CH - 5, 4).line());
    ops.push(Op::Read(len - 50, 10).line()); // cached: right bytes; not cached: plans [2 CH, len) => assert
    ops.push(Op::Until(len - 90, len, 3).line());
    ops.push(Op::Entire.line());
    ops.push("srcmode 0".to_string());
    ops.push(Op::Read(len - 1, 1).line());
    Case { name: format!("unfaithful-source-{k}-{}", if cached_before { "cached" } else { "fresh" }), ops }
}

pub struct C13;

impl Prop for C13 {
    fn id(&self) -> &'static str {
        "C13"
    }
    fn case_count(&self, tier: Tier) -> u64 {
        match tier {
            Tier::Quick => 1400,
            Tier::Thorough => 12000,
        }
    }
    fn fixed_cases(&self, _tier: Tier) -> Vec<Case> {
        let mut v = Vec::new();
        for &len in &[0, 1, CH - 1, CH, CH + 1, 2 * CH - 1, 2 * CH, 2 * CH + 1, 3 * CH - 1, 3 * CH, 3 * CH + 1] {
            v.push(boundary_case(len, 1));
            v.push(boundary_case(len, 0));
        }
        v.extend(planner_cases());
        v.push(failing_source_case());
        for &len in &[0, 1, CH + 1, 3 * CH - 1] {
            v.push(shared_layer_case(len, true));
            v.push(shared_layer_case(len, false));
        }
        for &(back, dist) in &[(10, 500), (1, 4095), (2000, 2500), (4095, 4094), (300, 0)] {
            v.push(until_midchunk_case(back, dist));
        }
        for &k in &[1i64, -2, 1000] {
            v.push(unfaithful_source_case(k, true));
            v.push(unfaithful_source_case(k, false));
        }
        for &back in &[10, 1, 40] {
            v.push(until_straddle_rebuffered_case(back));
        }
        let mut r = Rng::new(0xC13);
        v.push(many_chunks_case(&mut r, if _tier == Tier::Quick { 400 } else { 1500 }));
        for &len in &[u64::MAX, u64::MAX - CH + 1, u64::MAX - CH, u64::MAX - 3 * CH + 17] {
            v.push(huge_case(len, 0));
            v.push(huge_case(len, 1));
        }
        v
    }
    fn generate(&self, rng: &mut Rng, tier: Tier, _index: u64) -> Vec<String> {
        if rng.chance(1, 30) {
            return gen_huge_case(rng);
        }
        // thorough only (each costs the model a few seconds): another many-buffers history with its own order
        if tier == Tier::Thorough && rng.chance(1, 1000) {
            let chunks = rng.range(260, 460);
            return many_chunks_case(rng, chunks).ops;
        }
        // quick: ~1 in 8 cases is a first-touch race; thorough: 1 in 6
        if rng.chance(1, if tier == Tier::Quick { 8 } else { 6 }) {
            let threads = *rng.pick(&[2u64, 2, 3, 4, 8]);
            let rounds = rng.range(1, 4);
            return first_touch_case(rng, threads, rounds);
        }
        let g = gen_file(rng);
        let data = g.materialise().unwrap_or_default();
        let mut ops = vec![g.line()];
        let mut prev: Vec<Op> = Vec::new();
        let with_threads = match tier {
            Tier::Quick => rng.chance(1, 25),
            Tier::Thorough => rng.chance(1, 8),
        };
        let n = if rng.chance(1, 8) { rng.range(60, 150) } else { rng.range(2, 40) };
        // 1 case in 40: from some point on the source answers requests ending at EOF with the wrong length
        let unfaithful_at = if g.len > 0 && rng.chance(1, 40) { Some(rng.below(n)) } else { None };
        for i in 0..n {
            if unfaithful_at == Some(i) {
                ops.push(format!("srcmode {}", *rng.pick(&[1i64, 2, 7, -1, -5, 100000])));
            }
            let op = gen_op(rng, &g, &data, &prev);
            prev.push(op.under(g.len));
            ops.push(op.line());
        }
        if with_threads {
            // thread sections always run with the faithful source (a panic inside a section cannot be
            // attributed to one listed call)
            if unfaithful_at.is_some() {
                ops.push("srcmode 0".to_string());
            }
            let per = rng.range(4, 16);
            thread_section(rng, &g, &data, &mut prev, &mut ops, 8, per);
            for _ in 0..rng.range(0, 6) {
                let op = gen_op(rng, &g, &data, &prev);
                prev.push(op.under(g.len));
                ops.push(op.line());
            }
        }
        ops
    }
    fn execute(&self, ops: &[String], stats: &mut Stats) -> Vec<String> {
        let mut out = Vec::new();
        let g = match ops.first().and_then(|l| Gen::parse(l)) {
            Some(g) => g,
            None => return vec!["bad-op".to_string()],
        };
        stats.bump(&format!(
            "file_len_{}",
            match g.len {
                0 => "0".to_string(),
                1 => "1".to_string(),
                l if l > u64::MAX - 4 * CH => "near-2^64".to_string(),
                l if l % CH == 0 => "k*chunk".to_string(),
                l if l % CH == 1 => "k*chunk+1".to_string(),
                l if l % CH == CH - 1 => "k*chunk-1".to_string(),
                l if l < CH => "<chunk".to_string(),
                _ => "other".to_string(),
            }
        ));
        stats.bump(&format!("file_pattern_{}", g.pat));
        if g.bad_lo < g.bad_hi {
            stats.bump("file_with_failing_source_range");
        }
        // the wrapper owns the cache which owns the source; its call counters are shared handles
        let calls = Arc::new(AtomicU64::new(0));
        let unaligned = Arc::new(AtomicU64::new(0));
        let gate = Arc::new(Gate::new());
        let mode = Arc::new(AtomicI64::new(0));
        let source = MemSource { g, data: g.materialise().map(Arc::new), calls: calls.clone(), unaligned_calls: unaligned.clone(), gate: gate.clone(), mode: mode.clone() };
        let cache: Cache = FileContentsWrapper::new(FileContentsWithChunkedCaching::new(g.len, source));
        let parsed: Vec<(Option<u64>, Option<Op>)> = ops[1..]
            .iter()
            .map(|l| {
                let w: Vec<&str> = l.split_whitespace().collect();
                if w.first() == Some(&"t") {
                    (w.get(1).and_then(|s| s.parse().ok()), Op::parse(&w[2.min(w.len())..]))
                } else {
                    (None, Op::parse(&w))
                }
            })
            .collect();
        let mut i = 0;
        while i < parsed.len() {
            if ops[1 + i].trim() == "sync" {
                let o = gate.overlapped.swap(false, Ordering::SeqCst);
                if o {
                    stats.bump("sections_with_overlapping_source_reads");
                }
                out.push(format!("sync overlap={}", o as u8));
                i += 1;
                continue;
            }
            if let Some(k) = ops[1 + i].trim().strip_prefix("srcmode ") {
                match k.trim().parse::<i64>() {
                    Ok(k) if k.unsigned_abs() <= 1 << 20 => {
                        mode.store(k, Ordering::SeqCst);
                        stats.bump("srcmode_lines(unfaithful_source)");
                        out.push("srcmode".to_string());
                        i += 1;
                        continue;
                    }
                    _ => {
                        out.push("bad-op".to_string());
                        return out;
                    }
                }
            }
            match parsed[i] {
                (_, None) => {
                    out.push("bad-op".to_string());
                    return out;
                }
                (None, Some(op)) => {
                    let (c0, u0) = (calls.load(Ordering::SeqCst), unaligned.load(Ordering::SeqCst));
                    match run_op(&cache, op) {
                        Some(line) => {
                            if !matches!(op, Op::Into(..) | Op::Entire) && line.starts_with("ok ") && !line.starts_with("ok 0 ") {
                                if calls.load(Ordering::SeqCst) == c0 {
                                    stats.bump("served_from_cache");
                                } else if unaligned.load(Ordering::SeqCst) != u0 {
                                    stats.bump("new_buffer_starting_mid_chunk(start_is_cached)");
                                } else {
                                    stats.bump("new_buffer_chunk_aligned");
                                }
                            }
                            count_outcome(stats, op, &line, &g);
                            out.push(line);
                        }
                        None => {
                            stats.bump(if mode.load(Ordering::SeqCst) != 0 { "panics_under_unfaithful_source" } else { "panics" });
                            out.push("panic".to_string());
                            return out;
                        }
                    }
                    i += 1;
                }
                (Some(_), Some(_)) => {
                    // concurrent section: consecutive `t` lines
                    let mut j = i;
                    while j < parsed.len() && parsed[j].0.is_some() && parsed[j].1.is_some() {
                        j += 1;
                    }
                    let section: Vec<(usize, u64, Op)> =
                        (i..j).map(|x| (x - i, parsed[x].0.unwrap(), parsed[x].1.unwrap())).collect();
                    let mut ids: Vec<u64> = section.iter().map(|s| s.1).collect();
                    ids.sort();
                    ids.dedup();
                    let barrier = Barrier::new(ids.len());
                    let mut results: Vec<Option<String>> = vec![None; j - i];
                    let mut panicked = false;
                    gate.armed.store(true, Ordering::SeqCst);
                    std::thread::scope(|s| {
                        let handles: Vec<_> = ids
                            .iter()
                            .map(|&id| {
                                let mine: Vec<(usize, Op)> =
                                    section.iter().filter(|x| x.1 == id).map(|x| (x.0, x.2)).collect();
                                let cache = &cache;
                                let barrier = &barrier;
                                s.spawn(move || {
                                    barrier.wait();
                                    mine.into_iter().map(|(slot, op)| (slot, run_op(cache, op))).collect::<Vec<_>>()
                                })
                            })
                            .collect();
                        for h in handles {
                            match h.join() {
                                Ok(rs) => {
                                    for (slot, r) in rs {
                                        match r {
                                            Some(l) => results[slot] = Some(l),
                                            None => panicked = true,
                                        }
                                    }
                                }
                                Err(_) => panicked = true,
                            }
                        }
                    });
                    gate.armed.store(false, Ordering::SeqCst);
                    stats.bump("concurrent_sections");
                    stats.add("concurrent_ops", (j - i) as u64);
                    if panicked {
                        stats.bump("panics");
                        out.push("panic".to_string());
                        return out;
                    }
                    for (k, r) in results.into_iter().enumerate() {
                        let line = r.unwrap_or_else(|| "panic".to_string());
                        count_outcome(stats, section[k].2, &line, &g);
                        out.push(line);
                    }
                    i = j;
                }
            }
        }
        out
    }
    fn nontrivial(&self, ops: &[String], out: &[String]) -> bool {
        // at least two calls, one of which returned bytes of the file
        ops.len() >= 3 && out.iter().any(|l| l.starts_with("ok ") && !l.starts_with("ok 0 "))
    }
}

fn count_outcome(stats: &mut Stats, op: Op, line: &str, g: &Gen) {
    let kind = match op {
        Op::Read(..) => "read",
        Op::Until(..) => "until",
        Op::Into(..) => "into",
        Op::Entire => "entire",
        Op::WRead(..) => "wread",
        Op::WUntil(..) => "wuntil",
        Op::VRead(..) => "vread",
        Op::VUntil(..) => "vuntil",
    };
    let res = if line.starts_with("ok") { "ok" } else { line };
    stats.bump(&format!("{kind}_{res}"));
    if let Op::VRead(v, o, _) | Op::VUntil(v, o, _, _) = op {
        stats.bump(&format!("view_with_{}_nested_subranges", v.k));
        match v.start() {
            None => stats.bump("view_make_subrange_start_overflows_u64"),
            Some(s) if s.checked_add(o).is_none() => stats.bump("view_shifted_offset_overflows_u64"),
            Some(s) => {
                // does the request reach beyond the view's own size (shared.rs does not restrict it)?
                let size = if v.k > 0 { v.subs[v.k - 1].1 } else { v.base.map_or(g.len, |b| b.1) };
                if let Op::VRead(_, o, n) = op {
                    if o.saturating_add(n) > size && s.saturating_add(o).saturating_add(n) <= g.len && n > 0 {
                        stats.bump("view_read_beyond_view_size_inside_file");
                    }
                }
            }
        }
    }
    match op.under(g.len) {
        Op::Read(o, n) if n > 0 => {
            if let Some(e) = o.checked_add(n) {
                if e <= g.len {
                    if o / CH != (e - 1) / CH {
                        stats.bump("read_in_bounds_straddling_chunks");
                    }
                    if e == g.len {
                        stats.bump("read_ending_at_eof");
                    }
                } else if Some(e) == g.len.checked_add(1) {
                    stats.bump("read_one_past_eof");
                }
            } else {
                stats.bump("read_offset_plus_size_overflows_u64");
            }
        }
        Op::Read(..) => stats.bump("read_empty"),
        Op::Until(a, b, _) => {
            if a == b {
                stats.bump("until_empty_range");
            }
            if line.starts_with("ok") {
                let len: u64 = line.split_whitespace().nth(1).and_then(|s| s.parse().ok()).unwrap_or(0);
                if len + 1 == b.saturating_sub(a) {
                    stats.bump("until_delimiter_is_last_byte_of_range");
                }
                if len == LIMIT - 1 {
                    stats.bump("until_string_of_4095_bytes");
                }
            }
        }
        _ => {}
    }
}

fn main() {
    verif_harness::runner::run_main(&C13);
}
