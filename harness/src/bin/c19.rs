//! C19 — a saved profile carries enough library identity for the server to symbolicate it.
//!
//! Three kinds of cases (first op line `kind …`):
//!
//! * `kind fld` — in-process, field level: generated `fxprof_processed_profile::LibraryInfo`s are serialized by
//!   the real writer, placed into a profile-shaped JSON document (`libs`, `threads[i].libs`, `processes[j]…`),
//!   written as `.json` and `.json.gz`, and read back by the real reader
//!   (`samply/src/profile_json_preparse.rs`, compiled into this binary).
//!     op   `lib <slot> <name> <path> <debugName> <debugPath> <id> <code> <arch>`
//!     out  `ser <slot> name=… path=… debugName=… debugPath=… breakpadId=… codeId=… arch=…` (the writer's JSON object)
//!          `rd <json|gz> <debugName>/<id> name=… path=… dpath=… code=… arch=…` (the reader's map, sorted) or `rd <fmt> err`
//! * `kind raw` — in-process, reader only: hand-made library objects with absent / null / wrongly typed / repeated
//!   fields and arbitrary `breakpadId` / `codeId` strings.
//!     op   `obj <slot> <name> <path> <debugName> <debugPath> <breakpadId> <codeId> <arch> <dup>`, fields `absent|null|bad|s:<hex>`
//!     out  `rd …` as above
//! * `kind e2e` — end to end through the `samply` binary: ELF files (generated, copies, real fixtures; some absent)
//!   are mapped by a generated perf.data recording → `samply import … -o out.json` and `out.json.gz` →
//!   `samply load … --no-open --port N+` → `POST /<token>/symbolicate/v5` naming each `libs[]` entry by
//!   (debugName, breakpadId) with every frame address the profile has in it → compared with the direct lookup in the
//!   recorded binary (wholesym / samply-symbols in-process).
//!     ops  `file <i> gen|fix|copy …`, `map <i> <addr> <len> <pgoff>`, `hit <i> <rel> <expected function>`
//!     out  `ser <path> …` per `libs[]` entry (sorted by path), `gz same|differs`, `rd <fmt> …`,
//!          `known <fmt> <path> found|missing`, `addr <fmt> <path> <rel> same:<fn>|differs:<got>:<want>|not-found|none|nofile`
//!
//! All strings are hex-encoded UTF-8 (`-` = empty); the per-case temporary directory is printed as `$D`.
use std::collections::{BTreeMap, BTreeSet};
use std::io::{BufRead, BufReader, Read, Write};
use std::path::{Path, PathBuf};
use std::process::{Child, Command, Stdio};
use std::sync::atomic::{AtomicU64, Ordering};
use std::sync::OnceLock;

use debugid::DebugId;
use serde_json::{json, Value};
use verif_harness::common::*;
use verif_harness::gen::elf_c19::*;
use verif_harness::gen::perfdata::*;
use verif_harness::gen::perfdata_bid::*;

#[allow(dead_code)]
mod preparse {
    include!("../../../repo-link/samply/src/profile_json_preparse.rs");
}

pub struct C19;

const KEYS: [&str; 7] = ["name", "path", "debugName", "debugPath", "breakpadId", "codeId", "arch"];

// ------------------------------------------------------------------------------------------------
// printing

fn show_json_field(v: &Value) -> String {
    match v {
        Value::Null => "null".to_string(),
        Value::String(s) => format!("s:{}", hex(s.as_bytes())),
        _ => "bad".to_string(),
    }
}

/// the JSON object of a library as written: the seven known keys in the writer's order (absent ones are left
/// out), then any other key, sorted
fn ser_line(tag: &str, obj: &Value, dir: &str) -> String {
    let mut s = format!("ser {tag}");
    let Some(map) = obj.as_object() else {
        return format!("ser {tag} not-an-object");
    };
    let fix = |k: &str, v: &Value| -> Value {
        match v {
            Value::String(t) if (k == "path" || k == "debugPath") && !dir.is_empty() => Value::String(t.replace(dir, "$D")),
            _ => v.clone(),
        }
    };
    for k in KEYS {
        if let Some(v) = map.get(k) {
            s.push_str(&format!(" {k}={}", show_json_field(&fix(k, v))));
        }
    }
    let mut extra: Vec<&String> = map.keys().filter(|k| !KEYS.contains(&k.as_str())).collect();
    extra.sort();
    for k in extra {
        s.push_str(&format!(" {k}={}", show_json_field(&map[k])));
    }
    s
}

fn show_debug_id(d: &DebugId) -> String {
    let b = d.uuid();
    let b = b.as_bytes();
    if d.is_pdb20() {
        format!("p:{}:{}", u32::from_be_bytes([b[0], b[1], b[2], b[3]]), d.appendix())
    } else {
        format!("u:{}:{}", hex(b), d.appendix())
    }
}

fn show_code_id(c: &Option<wholesym::CodeId>) -> String {
    match c {
        None => "none".to_string(),
        Some(wholesym::CodeId::PeCodeId(pe)) => format!("pe:{}:{}", pe.timestamp, pe.image_size),
        Some(wholesym::CodeId::MachoUuid(u)) => format!("macho:{}", hex(u.as_bytes())),
        Some(wholesym::CodeId::ElfBuildId(b)) => format!("elf:{}", hex(&b.0)),
    }
}

fn show_opt(s: &Option<String>, dir: &str) -> String {
    match s {
        None => "none".to_string(),
        Some(s) => {
            let t = if dir.is_empty() { s.clone() } else { s.replace(dir, "$D") };
            format!("s:{}", hex(t.as_bytes()))
        }
    }
}

fn rd_lines(fmt: &str, path: &Path, dir: &str) -> Vec<String> {
    let file = match std::fs::File::open(path) {
        Ok(f) => f,
        Err(_) => return vec![format!("rd {fmt} err")],
    };
    let r = std::panic::catch_unwind(|| preparse::parse_libinfo_map_from_profile_file(file, path));
    match r {
        Err(_) => vec![format!("rd {fmt} panic")],
        Ok(Err(_)) => vec![format!("rd {fmt} err")],
        Ok(Ok(map)) => {
            let mut v: Vec<String> = map
                .iter()
                .map(|((dn, id), info)| {
                    // the key and the value's own identity fields must agree; print both so that a reader keying the
                    // map differently is visible
                    let own = format!(
                        "{}/{}",
                        info.debug_name.as_ref().map(|s| hex(s.as_bytes())).unwrap_or("none".into()),
                        info.debug_id.as_ref().map(show_debug_id).unwrap_or("none".into())
                    );
                    let key = format!("{}/{}", hex(dn.as_bytes()), show_debug_id(id));
                    format!(
                        "rd {fmt} {}{} name={} path={} dpath={} code={} arch={}",
                        key,
                        if own == key { String::new() } else { format!(" own={own}") },
                        show_opt(&info.name, dir),
                        show_opt(&info.path, dir),
                        show_opt(&info.debug_path, dir),
                        show_code_id(&info.code_id),
                        show_opt(&info.arch, ""),
                    )
                })
                .collect();
            v.sort();
            v
        }
    }
}

fn write_gz(path: &Path, bytes: &[u8]) {
    let f = std::fs::File::create(path).unwrap();
    let mut gz = flate2::GzBuilder::new().write(f, flate2::Compression::new(2));
    gz.write_all(bytes).unwrap();
    gz.finish().unwrap();
}

fn case_dir(ops: &[String]) -> PathBuf {
    static N: AtomicU64 = AtomicU64::new(0);
    let n = N.fetch_add(1, Ordering::SeqCst);
    let d = work_tmp("C19").join(format!("c{:016x}-{}-{}", fnv1a(ops), std::process::id(), n));
    std::fs::create_dir_all(&d).unwrap();
    d
}

// ------------------------------------------------------------------------------------------------
// slots: where a library object sits in the document

/// `top` or a dotted path `p0.p2.t1` (`t<i>` only as last element)
fn place(doc: &mut Value, slot: &str, lib: Value) {
    let mut cur = doc;
    if slot != "top" {
        for seg in slot.split('.') {
            let (kind, idx) = seg.split_at(1);
            let idx: usize = idx.parse().unwrap_or(0);
            let key = if kind == "t" { "threads" } else { "processes" };
            let obj = cur.as_object_mut().unwrap();
            let arr = obj.entry(key).or_insert_with(|| json!([])).as_array_mut().unwrap();
            while arr.len() <= idx {
                arr.push(json!({}));
            }
            cur = &mut arr[idx];
        }
    }
    let obj = cur.as_object_mut().unwrap();
    obj.entry("libs").or_insert_with(|| json!([])).as_array_mut().unwrap().push(lib);
}

// ------------------------------------------------------------------------------------------------
// field-level cases

fn parse_id(s: &str) -> Option<DebugId> {
    let w: Vec<&str> = s.split(':').collect();
    match w.as_slice() {
        ["u", h, age] => {
            let b = unhex(h);
            let b: [u8; 16] = b.try_into().ok()?;
            Some(DebugId::from_parts(uuid::Uuid::from_bytes(b), age.parse().ok()?))
        }
        ["p", ts, age] => Some(DebugId::from_pdb20(ts.parse().ok()?, age.parse().ok()?)),
        _ => None,
    }
}

/// the text the recording side would store for a typed code id: the real `Display` of `CodeId`
fn code_text(s: &str) -> Option<Option<String>> {
    if s == "none" {
        return Some(None);
    }
    let (kind, rest) = s.split_once(':')?;
    Some(Some(match kind {
        "elf" => wholesym::CodeId::ElfBuildId(wholesym::ElfBuildId::from_bytes(&unhex(rest))).to_string(),
        "macho" => {
            let b: [u8; 16] = unhex(rest).try_into().ok()?;
            wholesym::CodeId::MachoUuid(uuid::Uuid::from_bytes(b)).to_string()
        }
        "pe" => {
            let (ts, size) = rest.split_once(':')?;
            wholesym::CodeId::PeCodeId(wholesym::PeCodeId { timestamp: ts.parse().ok()?, image_size: size.parse().ok()? }).to_string()
        }
        "raw" => String::from_utf8(unhex(rest)).ok()?,
        _ => return None,
    }))
}

fn utf8(h: &str) -> Option<String> {
    String::from_utf8(unhex(h)).ok()
}

fn exec_fld(ops: &[String], stats: &mut Stats) -> Vec<String> {
    let mut out = Vec::new();
    let mut doc = json!({"meta": {"version": 24}, "threads": []});
    for l in &ops[1..] {
        let w: Vec<&str> = l.split_whitespace().collect();
        if w.len() != 9 || w[0] != "lib" {
            return vec!["bad-op".to_string()];
        }
        let (Some(name), Some(path), Some(dname), Some(dpath), Some(id), Some(code)) =
            (utf8(w[2]), utf8(w[3]), utf8(w[4]), utf8(w[5]), parse_id(w[6]), code_text(w[7]))
        else {
            return vec!["bad-op".to_string()];
        };
        let arch = match w[8] {
            "none" => None,
            s => s.strip_prefix("s:").and_then(utf8),
        };
        stats.bump(&format!("fld_slot_{}", if w[1] == "top" { "top" } else if w[1].contains('t') { "thread" } else { "process" }));
        stats.bump(&format!("fld_code_{}", w[7].split(':').next().unwrap_or("?")));
        if id.is_pdb20() {
            stats.bump("fld_id_pdb20");
        }
        let lib = fxprof_processed_profile::LibraryInfo { name, debug_name: dname, path, debug_path: dpath, debug_id: id, code_id: code, arch };
        // the real writer; through text, as the profile file is
        let text = serde_json::to_string(&lib).unwrap();
        let v: Value = serde_json::from_str(&text).unwrap();
        out.push(ser_line(w[1], &v, ""));
        place(&mut doc, w[1], v);
    }
    let dir = case_dir(ops);
    let bytes = serde_json::to_vec(&doc).unwrap();
    let pj = dir.join("p.json");
    let pg = dir.join("p.json.gz");
    std::fs::write(&pj, &bytes).unwrap();
    write_gz(&pg, &bytes);
    out.extend(rd_lines("json", &pj, ""));
    out.extend(rd_lines("gz", &pg, ""));
    let _ = std::fs::remove_dir_all(&dir);
    out
}

fn raw_field(s: &str) -> Option<Option<Value>> {
    Some(match s {
        "absent" => None,
        "null" => Some(Value::Null),
        "bad" => Some(json!(17)),
        _ => Some(Value::String(utf8(s.strip_prefix("s:")?)?)),
    })
}

fn exec_raw(ops: &[String], stats: &mut Stats) -> Vec<String> {
    // built as text so that a repeated key can be expressed
    let mut doc = json!({"meta": {"version": 24}});
    let mut dups: Vec<(String, String)> = Vec::new();
    let mut objks: Vec<(String, String)> = Vec::new();
    for (n, l) in ops[1..].iter().enumerate() {
        let w: Vec<&str> = l.split_whitespace().collect();
        if w.len() >= 2 && w[0] == "objk" {
            // a library object whose members are given as (key text, value) pairs, in order, duplicates allowed:
            // written as text in place of a marker member
            let mut members: Vec<String> = Vec::new();
            for m in &w[2..] {
                let Some((k, v)) = m.split_once('=') else {
                    return vec!["bad-op".to_string()];
                };
                let (Some(k), Some(Some(v))) = (k.strip_prefix("k:").and_then(utf8), raw_field(v)) else {
                    return vec!["bad-op".to_string()];
                };
                members.push(format!("{}:{}", serde_json::to_string(&k).unwrap(), serde_json::to_string(&v).unwrap()));
                stats.bump(if KEYS.contains(&k.as_str()) { "objk_exact_key" } else { "objk_other_key" });
            }
            let marker = format!("zzObjk{n}");
            let mut obj = serde_json::Map::new();
            obj.insert(marker.clone(), Value::Null);
            objks.push((marker, members.join(",")));
            place(&mut doc, w[1], Value::Object(obj));
            continue;
        }
        if w.len() != 10 || w[0] != "obj" {
            return vec!["bad-op".to_string()];
        }
        let mut obj = serde_json::Map::new();
        // an unknown key must be ignored by the reader
        obj.insert("zzUnknown".to_string(), json!([1, {"a": null}]));
        for (k, f) in ["name", "path", "debugName", "debugPath", "breakpadId", "codeId", "arch"].iter().zip(&w[2..9]) {
            let Some(v) = raw_field(f) else {
                return vec!["bad-op".to_string()];
            };
            stats.bump(&format!("raw_{}", f.split(':').next().unwrap_or("?")));
            if let Some(v) = v {
                obj.insert(k.to_string(), v);
            }
        }
        if w[9] != "-" {
            // marker replaced in the text below by a second occurrence of the key
            let marker = format!("zzDup{n}");
            obj.insert(marker.clone(), Value::Null);
            dups.push((marker, w[9].to_string()));
            stats.bump("raw_dup");
        }
        place(&mut doc, w[1], Value::Object(obj));
    }
    let mut text = serde_json::to_string(&doc).unwrap();
    for (marker, key) in dups {
        text = text.replace(&format!("\"{marker}\":null"), &format!("\"{key}\":null"));
    }
    for (marker, members) in objks {
        text = text.replace(&format!("\"{marker}\":null"), &members);
    }
    let dir = case_dir(ops);
    let pj = dir.join("p.json");
    let pg = dir.join("p.json.gz");
    std::fs::write(&pj, text.as_bytes()).unwrap();
    write_gz(&pg, text.as_bytes());
    let mut out = rd_lines("json", &pj, "");
    out.extend(rd_lines("gz", &pg, ""));
    let _ = std::fs::remove_dir_all(&dir);
    out
}

// ------------------------------------------------------------------------------------------------
// end-to-end cases

#[derive(Clone, Debug)]
enum FileKind {
    Gen(ElfSpec),
    Fix(String),
    Copy(usize),
}

#[derive(Clone, Debug)]
struct FileOp {
    name: String,
    present: bool,
    kind: FileKind,
}

fn parse_syms(s: &str) -> Option<Vec<Sym>> {
    if s == "-" {
        return Some(vec![]);
    }
    s.split(',')
        .map(|t| {
            let w: Vec<&str> = t.split(':').collect();
            Some(Sym { name: utf8(w.first()?)?, off: w.get(1)?.parse().ok()?, size: w.get(2)?.parse().ok()? })
        })
        .collect()
}

fn show_syms(v: &[Sym]) -> String {
    if v.is_empty() {
        return "-".into();
    }
    v.iter().map(|s| format!("{}:{}:{}", hex(s.name.as_bytes()), s.off, s.size)).collect::<Vec<_>>().join(",")
}

fn repo_dir() -> PathBuf {
    if let Ok(r) = std::env::var("VERIF_REPO") {
        return PathBuf::from(r);
    }
    let root = std::env::var("VERIF_ROOT").unwrap_or_else(|_| "/verif".to_string());
    PathBuf::from(root).join("repo-link")
}

struct Server {
    child: Child,
    host: String,
    prefix: String,
}

impl Drop for Server {
    fn drop(&mut self) {
        let _ = self.child.kill();
        let _ = self.child.wait();
    }
}

fn percent_decode(s: &str) -> String {
    let b = s.as_bytes();
    let mut out = Vec::new();
    let mut i = 0;
    while i < b.len() {
        if b[i] == b'%' && i + 3 <= b.len() && s.is_char_boundary(i + 1) && s.is_char_boundary(i + 3) {
            if let Ok(v) = u8::from_str_radix(&s[i + 1..i + 3], 16) {
                out.push(v);
                i += 3;
                continue;
            }
        }
        out.push(b[i]);
        i += 1;
    }
    String::from_utf8_lossy(&out).to_string()
}

fn samply_cmd(home: &Path) -> Command {
    let mut cmd = Command::new(samply_bin());
    cmd.env("HOME", home)
        .env("XDG_CACHE_HOME", home.join(".cache"))
        .env("XDG_CONFIG_HOME", home.join(".config"))
        .env_remove("_NT_SYMBOL_PATH")
        .env_remove("SAMPLY_USE_DEBUGINFOD")
        .env_remove("PROFILER_URL")
        .env_remove("RUST_LOG");
    cmd
}

fn start_server(profile: &Path, home: &Path, other_cwd: bool) -> Result<Server, String> {
    static PORT: AtomicU64 = AtomicU64::new(0);
    for _attempt in 0..5 {
        let k = PORT.fetch_add(1, Ordering::SeqCst);
        let base = 20000 + ((std::process::id() as u64 * 37 + k * 101) % 400) * 100;
        let mut cmd = samply_cmd(home);
        cmd.arg("load").arg(profile).arg("--no-open").arg("--port").arg(format!("{base}+"));
        if other_cwd {
            cmd.current_dir(home);
        }
        cmd.stdin(Stdio::null()).stdout(Stdio::piped()).stderr(Stdio::piped());
        let mut child = cmd.spawn().map_err(|e| format!("err:spawn:{e}"))?;
        let stdout = child.stdout.take().unwrap();
        // the URL line appears once the listener is bound; give up after 60 s instead of hanging
        let (tx, rx) = std::sync::mpsc::channel();
        std::thread::spawn(move || {
            let mut line = String::new();
            let _ = BufReader::new(stdout).read_line(&mut line);
            let _ = tx.send(line);
        });
        let line = match rx.recv_timeout(std::time::Duration::from_secs(60)) {
            Ok(l) => l,
            Err(_) => {
                let _ = child.kill();
                let _ = child.wait();
                return Err("err:timeout".to_string());
            }
        };
        if let Some(rest) = line.trim().split("symbolServer=").nth(1) {
            let url = percent_decode(rest);
            // http://127.0.0.1:PORT/TOKEN
            if let Some(hp) = url.strip_prefix("http://") {
                if let Some((host, token)) = hp.split_once('/') {
                    return Ok(Server { child, host: host.to_string(), prefix: format!("/{token}") });
                }
            }
        }
        let _ = child.kill();
        let mut err = String::new();
        if let Some(mut e) = child.stderr.take() {
            let _ = e.read_to_string(&mut err);
        }
        let _ = child.wait();
        if err.contains("panicked") {
            return Err("panic".to_string());
        }
        if !err.contains("Could not bind") {
            return Err("err:load".to_string());
        }
    }
    Err("err:ports".to_string())
}

fn http_post(host: &str, path: &str, body: &str) -> Result<String, String> {
    let mut conn = None;
    for attempt in 0..5 {
        match std::net::TcpStream::connect(host) {
            Ok(c) => {
                conn = Some(c);
                break;
            }
            Err(_) => std::thread::sleep(std::time::Duration::from_millis(100 << attempt)),
        }
    }
    let mut s = conn.ok_or("err:connect".to_string())?;
    s.set_read_timeout(Some(std::time::Duration::from_secs(60))).ok();
    let req = format!(
        "POST {path} HTTP/1.1\r\nHost: {host}\r\nContent-Type: application/json\r\nContent-Length: {}\r\nConnection: close\r\n\r\n{body}",
        body.len()
    );
    s.write_all(req.as_bytes()).map_err(|_| "err:write".to_string())?;
    let mut resp = Vec::new();
    s.read_to_end(&mut resp).map_err(|_| "err:read".to_string())?;
    let text = String::from_utf8_lossy(&resp).to_string();
    let (head, body) = text.split_once("\r\n\r\n").ok_or("err:http")?;
    if !head.starts_with("HTTP/1.1 200") {
        return Err("err:status".to_string());
    }
    if head.to_ascii_lowercase().contains("transfer-encoding: chunked") {
        let mut out = String::new();
        let mut rest = body;
        loop {
            let Some((len, tail)) = rest.split_once("\r\n") else { break };
            let n = usize::from_str_radix(len.trim(), 16).unwrap_or(0);
            if n == 0 || tail.len() < n {
                break;
            }
            out.push_str(&tail[..n]);
            rest = tail[n..].trim_start_matches("\r\n");
        }
        return Ok(out);
    }
    Ok(body.to_string())
}

/// direct lookup in a binary: relative address -> (function name, function start)
fn direct_lookup(rt: &tokio::runtime::Runtime, path: &Path, addrs: &[u32]) -> Option<Vec<Option<(String, u32)>>> {
    let mgr = wholesym::SymbolManager::with_config(wholesym::SymbolManagerConfig::default());
    let map = rt.block_on(mgr.load_symbol_map_for_binary_at_path(path, None)).ok()?;
    Some(
        addrs
            .iter()
            .map(|a| map.lookup_sync(wholesym::LookupAddress::Relative(*a)).map(|i| (i.symbol.name, i.symbol.address)))
            .collect(),
    )
}

struct E2e {
    files: Vec<FileOp>,
    maps: Vec<(usize, u64, u64, u64)>,
    hits: Vec<(usize, u64)>,
    /// build id the recording carries for a file: (file, `m` = in the MMAP2 records / `h` = header entry with the
    /// length stored / `hz` = header entry without, id bytes as written)
    recs: Vec<(usize, String, Vec<u8>)>,
    /// `<path>.dbg` companions: (file, `same` = byte-identical copy / `stale` = other build id, other symbol names)
    dbgs: Vec<(usize, String)>,
    /// import with a relative perf.data path from the case directory, load from another working directory
    relcwd: bool,
    /// `--unstable-presymbolicate`: a `.syms.json` sidecar is written next to the profile and loaded by `samply load`
    presym: bool,
    /// names of the two profile files (default `out.json`, `out.json.gz`)
    names: Option<(String, String)>,
}

fn parse_e2e(ops: &[String]) -> Option<E2e> {
    let mut e = E2e { files: vec![], maps: vec![], hits: vec![], recs: vec![], dbgs: vec![], relcwd: false, presym: false, names: None };
    for l in &ops[1..] {
        let w: Vec<&str> = l.split_whitespace().collect();
        match w.first().copied()? {
            "file" => {
                let i: usize = w.get(1)?.parse().ok()?;
                if i != e.files.len() {
                    return None;
                }
                let name = utf8(w.get(3)?)?;
                let present = *w.get(4)? == "1";
                let kind = match *w.get(2)? {
                    "gen" => {
                        let n = |k: usize| -> Option<u64> { w.get(k)?.parse().ok() };
                        let bid = match *w.get(11)? {
                            "none" => None,
                            s => Some(unhex(s.strip_prefix("b:")?)),
                        };
                        FileKind::Gen(ElfSpec {
                            base: n(5)?,
                            text_off: n(6)?,
                            text_size: n(7)?,
                            delta: n(8)?,
                            fill_mul: n(9)? as u8,
                            fill_add: n(10)? as u8,
                            build_id: bid,
                            syms: parse_syms(w.get(13)?)?,
                        })
                    }
                    "fix" => FileKind::Fix(utf8(w.get(5)?)?),
                    "copy" => FileKind::Copy(w.get(5)?.parse().ok()?),
                    _ => return None,
                };
                e.files.push(FileOp { name, present, kind });
            }
            "map" => e.maps.push((w.get(1)?.parse().ok()?, w.get(2)?.parse().ok()?, w.get(3)?.parse().ok()?, w.get(4)?.parse().ok()?)),
            "hit" => e.hits.push((w.get(1)?.parse().ok()?, w.get(2)?.parse().ok()?)),
            "rec" => {
                let how = *w.get(2)?;
                let id = unhex(w.get(3)?);
                if !["m", "h", "hz"].contains(&how) || id.len() > 20 || w.len() != 4 {
                    return None;
                }
                e.recs.push((w.get(1)?.parse().ok()?, how.to_string(), id));
            }
            "dbg" => {
                let how = *w.get(2)?;
                if !["same", "stale"].contains(&how) || w.len() != 3 {
                    return None;
                }
                e.dbgs.push((w.get(1)?.parse().ok()?, how.to_string()));
            }
            "opt" => match *w.get(1)? {
                "relcwd" => e.relcwd = true,
                "presym" => e.presym = true,
                "names" => {
                    let (a, b) = (utf8(w.get(2)?)?, utf8(w.get(3)?)?);
                    let ok = |n: &str| !n.is_empty() && !n.contains('/') && n != "." && n != ".." && n != "perf.data" && !n.contains("syms.json");
                    if !ok(&a) || !ok(&b) || a == b {
                        return None;
                    }
                    e.names = Some((a, b));
                }
                _ => return None,
            },
            _ => return None,
        }
    }
    Some(e)
}

fn file_bytes(files: &[FileOp], i: usize) -> Option<Vec<u8>> {
    match &files[i].kind {
        FileKind::Gen(spec) => Some(write_elf(spec)),
        FileKind::Fix(rel) => std::fs::read(repo_dir().join("fixtures").join(rel)).ok(),
        FileKind::Copy(j) if *j < i => file_bytes(files, *j),
        FileKind::Copy(_) => None,
    }
}

/// avma of relative address `rel` of file `i` under mapping `(addr, len, pgoff)`; `None` when outside
fn avma_of(files: &[FileOp], facts: &[Option<ElfFacts>], i: usize, m: (u64, u64, u64), rel: u64) -> Option<u64> {
    let (addr, len, pgoff) = m;
    let file_off = if files[i].present {
        let f = facts[i].as_ref()?;
        let svma = f.base_svma + rel;
        let (off, vaddr, _) = *f.segments.iter().find(|(_, vaddr, size)| *vaddr <= svma && svma < vaddr + size)?;
        off + (svma - vaddr)
    } else {
        // converter case 4: relative address = file offset
        rel
    };
    if file_off >= pgoff && file_off - pgoff < len {
        Some(addr + (file_off - pgoff))
    } else {
        None
    }
}

fn exec_e2e(ops: &[String], stats: &mut Stats) -> Vec<String> {
    let Some(e) = parse_e2e(ops) else {
        return vec!["bad-op".to_string()];
    };
    // a shrunk case may have lost the `file` / `map` line a later line refers to
    let n = e.files.len();
    if e.maps.iter().any(|m| m.0 >= n) || e.hits.iter().any(|h| h.0 >= n) || e.files.is_empty() || e.recs.iter().any(|r| r.0 >= n) || e.dbgs.iter().any(|d| d.0 >= n) {
        return vec!["bad-op".to_string()];
    }
    let dir = case_dir(ops);
    let dir_s = dir.to_string_lossy().to_string();
    let home = dir.join("home");
    std::fs::create_dir_all(&home).unwrap();
    let mut facts: Vec<Option<ElfFacts>> = Vec::new();
    for (i, f) in e.files.iter().enumerate() {
        let Some(bytes) = file_bytes(&e.files, i) else {
            let _ = std::fs::remove_dir_all(&dir);
            return vec!["bad-op".to_string()];
        };
        facts.push(elf_facts(&bytes));
        stats.bump(match (&f.kind, f.present) {
            (_, false) => "e2e_file_absent",
            (FileKind::Gen(s), _) if s.build_id.is_none() => "e2e_file_gen_nobuildid",
            (FileKind::Gen(s), _) if s.delta != 0 => "e2e_file_gen_two_segments",
            (FileKind::Gen(_), _) => "e2e_file_gen",
            (FileKind::Fix(_), _) => "e2e_file_fixture",
            (FileKind::Copy(_), _) => "e2e_file_copy",
        });
        if let FileKind::Gen(s) = &f.kind {
            stats.bump(&format!("e2e_buildid_len_{}", s.build_id.as_ref().map(|b| b.len().to_string()).unwrap_or("none".into())));
        }
        if f.present {
            // a name `reloc/<base>` stands for a binary that was moved together with the recording: the
            // MMAP2 record names `$D/reloc/<base>` (which does not exist), the file sits next to perf.data,
            // where `samply import` looks by itself (utils.rs open_file_with_fallback)
            let p = dir.join(f.name.strip_prefix("reloc/").unwrap_or(&f.name));
            let ok = p.parent().map(|d| std::fs::create_dir_all(d).is_ok()).unwrap_or(false) && std::fs::write(&p, &bytes).is_ok();
            if !ok {
                let _ = std::fs::remove_dir_all(&dir);
                return vec!["bad-op".to_string()];
            }
        }
    }
    // `<path>.dbg` companions (helper.rs:509-515 tries them before the binary when the debug path ends in `.so`)
    for (i, how) in &e.dbgs {
        let f = &e.files[*i];
        let (FileKind::Gen(spec), true) = (&f.kind, f.present) else { continue };
        let bytes = if how == "same" {
            write_elf(spec)
        } else {
            let mut stale = spec.clone();
            stale.build_id = Some(match &spec.build_id {
                Some(b) if !b.is_empty() => {
                    let mut b = b.clone();
                    b[0] ^= 0xff;
                    b
                }
                _ => vec![0x5a; 20],
            });
            for sym in &mut stale.syms {
                sym.name = format!("stale_{}", sym.name);
            }
            write_elf(&stale)
        };
        let p = dir.join(format!("{}.dbg", f.name.strip_prefix("reloc/").unwrap_or(&f.name)));
        if std::fs::write(&p, &bytes).is_err() {
            let _ = std::fs::remove_dir_all(&dir);
            return vec!["bad-op".to_string()];
        }
        stats.bump(&format!("e2e_dbg_{how}"));
    }
    // the recording: one process, one MMAP2 per `map`, one sample per `hit` (leaf frame only, so that the
    // recorded relative address is the hit itself)
    let mut recs = vec![Rec::Comm { pid: 100, tid: 100, name: "app".to_string(), exec: false, t: 1_000_000 }];
    let mut t = 2_000_000u64;
    for &(i, addr, len, pgoff) in &e.maps {
        let path = format!("{}/{}", dir_s, e.files.get(i).map(|f| f.name.as_str()).unwrap_or("?"));
        recs.push(Rec::Mmap2 { pid: 100, tid: 100, addr, len, pgoff, exec: true, path, t });
        t += 1000;
    }
    for &(i, rel) in &e.hits {
        let avma = e.maps.iter().filter(|m| m.0 == i).find_map(|m| avma_of(&e.files, &facts, i, (m.1, m.2, m.3), rel));
        let Some(avma) = avma else {
            let _ = std::fs::remove_dir_all(&dir);
            return vec!["bad-op".to_string()];
        };
        t += 1_000_000;
        recs.push(Rec::Sample { pid: 100, tid: 100, t, kernel: false, period: 1_000_000, ip: avma, chain: vec![CTX_USER, avma] });
        stats.bump("e2e_hits");
    }
    let data = dir.join("perf.data");
    if e.recs.is_empty() {
        let h = History { recs, ..Default::default() };
        write_perf_data(&h, &data, &mut Rng::new(fnv1a(ops)));
    } else {
        // the recording carries build ids: in the MMAP2 records of a file and / or as header entries for its path
        let mut header: Vec<BuildIdDecl> = Vec::new();
        for (i, how, id) in &e.recs {
            stats.bump(&format!("e2e_rec_{how}"));
            let relation = match (&facts[*i], e.files[*i].present) {
                (_, false) => "file_absent",
                (Some(f), _) => match &f.build_id {
                    None => "file_without_note",
                    Some(b) if b == id => "equal",
                    Some(b) if b.len() == id.len() && b[..b.len().min(16)] == id[..id.len().min(16)] => "differs_after_byte_16",
                    Some(b) if b.len() > id.len() && b[..id.len()] == id[..] => "truncated",
                    Some(_) => "differs",
                },
                (None, _) => "unparsed",
            };
            stats.bump(&format!("e2e_rec_vs_file_{relation}"));
            if how != "m" {
                header.push(BuildIdDecl { path: format!("{}/{}", dir_s, e.files[*i].name), id: id.clone(), sized: how == "h" });
            }
        }
        let mut brecs: Vec<BidRec> = Vec::new();
        let mut k = 0usize; // index into e.maps, in the order the MMAP2 records were pushed
        for r in recs {
            match r {
                Rec::Mmap2 { pid, tid, addr, len, pgoff, path, t, .. } => {
                    let i = e.maps[k].0;
                    k += 1;
                    match e.recs.iter().rev().find(|x| x.0 == i && x.1 == "m") {
                        Some((_, _, id)) => brecs.push(BidRec::Mmap2Bid { pid, tid, addr, len, pgoff, path, t, build_id: id.clone() }),
                        None => brecs.push(BidRec::Plain(Rec::Mmap2 { pid, tid, addr, len, pgoff, exec: true, path, t })),
                    }
                }
                other => brecs.push(BidRec::Plain(other)),
            }
        }
        write_perf_data_bid(&brecs, &header, &data);
    }
    let mut out = Vec::new();
    let mut profiles: Vec<(&str, PathBuf)> = Vec::new();
    let (name_a, name_b) = e.names.clone().unwrap_or(("out.json".to_string(), "out.json.gz".to_string()));
    for (fmt, fname) in [("json", name_a.as_str()), ("gz", name_b.as_str())] {
        let p = dir.join(fname);
        let mut cmd = samply_cmd(&home);
        cmd.arg("import");
        if e.relcwd {
            // relative input and output paths, resolved against the case directory
            cmd.current_dir(&dir).arg("perf.data").arg("--save-only").arg("-o").arg(fname);
            stats.bump("e2e_opt_relcwd");
        } else {
            cmd.arg(&data).arg("--save-only").arg("-o").arg(&p);
        }
        if e.presym {
            cmd.arg("--unstable-presymbolicate");
            stats.bump("e2e_opt_presym");
            // repaired defect C19-presym-badcodeid: a used library whose code id text `CodeId::from_str` rejects
            if e.files.iter().any(|f| matches!(&f.kind, FileKind::Gen(s) if f.present && s.build_id.as_ref().is_some_and(|b| b.len() <= 4))) {
                stats.bump("e2e_opt_presym_unparsable_codeid");
            }
        }
        if e.names.is_some() {
            stats.bump("e2e_opt_names");
        }
        let res = cmd.output();
        match res {
            Ok(r) if r.status.success() => profiles.push((fmt, p)),
            Ok(r) => {
                let err = String::from_utf8_lossy(&r.stderr);
                out.push(format!("import {fmt} {}", if err.contains("panicked") { "panic" } else { "err" }));
            }
            Err(_) => out.push(format!("import {fmt} err:spawn")),
        }
    }
    if profiles.len() != 2 {
        let _ = std::fs::remove_dir_all(&dir);
        return out;
    }
    let read_profile = |_fmt: &str, p: &Path| -> Option<Value> {
        let bytes = std::fs::read(p).ok()?;
        // by content, not by name: which names are compressed is samply's decision (three places must agree)
        let bytes = if bytes.starts_with(&[0x1f, 0x8b]) {
            let mut d = flate2::read::GzDecoder::new(&bytes[..]);
            let mut v = Vec::new();
            d.read_to_end(&mut v).ok()?;
            v
        } else {
            bytes
        };
        serde_json::from_slice(&bytes).ok()
    };
    let pj = read_profile("json", &profiles[0].1);
    let pg = read_profile("gz", &profiles[1].1);
    let pj_ok = pj.is_some();
    let (Some(pj), Some(pg)) = (pj, pg) else {
        let _ = std::fs::remove_dir_all(&dir);
        return vec![format!("import {} err:unreadable", if pj_ok { "gz" } else { "json" })];
    };
    let libs: Vec<Value> = pj["libs"].as_array().cloned().unwrap_or_default();
    let mut sers: Vec<String> = libs
        .iter()
        .map(|l| {
            let tag = hex(l["path"].as_str().unwrap_or("?").replace(&dir_s, "$D").as_bytes());
            // the typed reading of the written breakpadId by the real `debugid` (what the judge keys on)
            let typed = l["breakpadId"].as_str().and_then(|b| DebugId::from_breakpad(b).ok()).map(|d| show_debug_id(&d)).unwrap_or("bad".to_string());
            format!("{} id={typed}", ser_line(&tag, l, &dir_s))
        })
        .collect();
    sers.sort();
    out.extend(sers);
    out.push(format!("gz {}", if pj == pg { "same" } else { "differs" }));
    for (fmt, p) in &profiles {
        out.extend(rd_lines(fmt, p, &dir_s));
    }
    // frame addresses per libs[] index, from the profile itself
    let mut per_lib: BTreeMap<usize, BTreeSet<u32>> = BTreeMap::new();
    for t in pj["threads"].as_array().cloned().unwrap_or_default() {
        let ft = &t["frameTable"];
        let n = ft["length"].as_u64().unwrap_or(0) as usize;
        for f in 0..n {
            let func = ft["func"][f].as_u64().unwrap_or(0) as usize;
            let res = t["funcTable"]["resource"][func].as_i64().unwrap_or(-1);
            let addr = ft["address"][f].as_i64().unwrap_or(-1);
            if res >= 0 && addr >= 0 {
                if let Some(lib) = t["resourceTable"]["lib"][res as usize].as_u64() {
                    per_lib.entry(lib as usize).or_default().insert(addr as u32);
                }
            }
        }
    }
    let rt = tokio::runtime::Builder::new_current_thread().enable_all().build().unwrap();
    // direct lookups in the recorded binaries
    let mut direct: BTreeMap<usize, Option<Vec<Option<(String, u32)>>>> = BTreeMap::new();
    for (i, l) in libs.iter().enumerate() {
        let addrs: Vec<u32> = per_lib.get(&i).map(|s| s.iter().copied().collect()).unwrap_or_default();
        let path = l["path"].as_str().unwrap_or("");
        direct.insert(i, if Path::new(path).is_file() { direct_lookup(&rt, Path::new(path), &addrs) } else { None });
    }
    for (fmt, p) in &profiles {
        let server = match start_server(p, &home, e.relcwd) {
            Ok(s) => s,
            Err(e) => {
                out.push(format!("load {fmt} {e}"));
                continue;
            }
        };
        let mut lines = Vec::new();
        for (i, l) in libs.iter().enumerate() {
            let tag = hex(l["path"].as_str().unwrap_or("?").replace(&dir_s, "$D").as_bytes());
            let addrs: Vec<u32> = per_lib.get(&i).map(|s| s.iter().copied().collect()).unwrap_or_default();
            let (Some(dn), Some(bp)) = (l["debugName"].as_str(), l["breakpadId"].as_str()) else {
                lines.push(format!("known {fmt} {tag} unnamed"));
                continue;
            };
            let req = json!({"memoryMap": [[dn, bp]], "stacks": [addrs.iter().map(|a| json!([0, a])).collect::<Vec<_>>()]});
            let resp = http_post(&server.host, &format!("{}/symbolicate/v5", server.prefix), &req.to_string());
            let resp: Value = match resp.and_then(|b| serde_json::from_str(&b).map_err(|_| "err:badjson".to_string())) {
                Ok(v) => v,
                Err(e) => {
                    lines.push(format!("known {fmt} {tag} {e}"));
                    continue;
                }
            };
            let r = &resp["results"][0];
            let found = r["found_modules"][format!("{dn}/{bp}")].as_bool().unwrap_or(false);
            lines.push(format!("known {fmt} {tag} {}", if found { "found" } else { "missing" }));
            stats.bump(if found { "e2e_known_found" } else { "e2e_known_missing" });
            for (k, a) in addrs.iter().enumerate() {
                let fr = &r["stacks"][0][k];
                let got = fr["function"].as_str().map(|f| {
                    let off = fr["function_offset"].as_str().and_then(|s| u32::from_str_radix(s.trim_start_matches("0x"), 16).ok()).unwrap_or(u32::MAX);
                    (f.to_string(), a.wrapping_sub(off))
                });
                let verdict = match direct.get(&i).and_then(|d| d.as_ref()) {
                    None => match got {
                        None => "nofile".to_string(),
                        Some((f, _)) => format!("differs:{}:nofile", hex(f.as_bytes())),
                    },
                    Some(d) => match (&got, &d[k]) {
                        (None, None) => "none".to_string(),
                        (None, Some(_)) => "not-found".to_string(),
                        (Some((f, s)), Some((wf, ws))) if f == wf && s == ws => format!("same:{}", hex(f.as_bytes())),
                        (Some((f, _)), Some((wf, _))) => format!("differs:{}:{}", hex(f.as_bytes()), hex(wf.as_bytes())),
                        (Some((f, _)), None) => format!("differs:{}:none", hex(f.as_bytes())),
                    },
                };
                stats.bump(&format!("e2e_addr_{}", verdict.split(':').next().unwrap_or("?")));
                lines.push(format!("addr {fmt} {tag} {a} {verdict}"));
            }
        }
        lines.sort();
        out.extend(lines);
        drop(server);
    }
    let _ = std::fs::remove_dir_all(&dir);
    out
}

// ------------------------------------------------------------------------------------------------
// generators

const ODD_NAMES: [&str; 14] = [
    "libfoo.so",
    "app",
    "lib with space.so",
    "quote\"d.so",
    "back\\slash.so",
    "tab\there",
    "unicode-é-日本-🦀.so",
    "ctl\u{1}x",
    "a",
    "libbar.so.1.2.3",
    "firefox.pdb",
    "x.so",
    "name'with'apostrophes",
    "[vdso]-like",
];

fn gen_name(rng: &mut Rng) -> String {
    if rng.chance(1, 3) {
        let n = rng.range(1, 12);
        (0..n).map(|_| *rng.pick(&['a', 'b', 'z', '0', '_', '.', '-', 'é', '"', '\\', ' ', 'L'])).collect()
    } else {
        rng.pick(&ODD_NAMES).to_string()
    }
}

fn gen_bytes(rng: &mut Rng, n: usize) -> Vec<u8> {
    (0..n).map(|_| rng.below(256) as u8).collect()
}

fn gen_decimal_bytes(rng: &mut Rng, n: usize) -> Vec<u8> {
    (0..n).map(|_| (rng.below(10) * 16 + rng.below(10)) as u8).collect()
}

fn gen_letter_bytes(rng: &mut Rng, n: usize) -> Vec<u8> {
    (0..n).map(|_| ((10 + rng.below(6)) * 16 + 10 + rng.below(6)) as u8).collect()
}

/// build ids around the dispatch of `CodeId::from_str`
fn gen_build_id(rng: &mut Rng) -> Vec<u8> {
    match rng.below(24) {
        0 => gen_bytes(rng, 20),
        1 => gen_bytes(rng, 16),
        2 => gen_decimal_bytes(rng, 16),
        3 => gen_bytes(rng, 8),
        4 => {
            let n = rng.range(1, 8) as usize;
            gen_bytes(rng, n)
        }
        5 => gen_bytes(rng, 9),
        6 => gen_letter_bytes(rng, 16),
        7 => {
            // 16 bytes, all decimal except one nibble
            let mut b = gen_decimal_bytes(rng, 16);
            let i = rng.below(16) as usize;
            b[i] = if rng.chance(1, 2) { (b[i] & 0x0f) | 0xa0 } else { (b[i] & 0xf0) | 0x0c };
            b
        }
        8 => gen_decimal_bytes(rng, 20),
        9 => {
            let n = rng.range(10, 40) as usize;
            gen_bytes(rng, n)
        }
        10 => gen_decimal_bytes(rng, 8),
        _ => gen_bytes(rng, 20),
    }
}

fn gen_code(rng: &mut Rng) -> String {
    match rng.below(10) {
        0 => "none".to_string(),
        1 => format!("pe:{}:{}", rng.next_u64() as u32, rng.next_u64() as u32),
        2 => format!("pe:{}:{}", rng.below(0x1000), rng.below(0x10)),
        3 => format!("macho:{}", hex(&gen_bytes(rng, 16))),
        4 => format!("macho:{}", hex(&gen_decimal_bytes(rng, 16))),
        _ => format!("elf:{}", hex(&gen_build_id(rng))),
    }
}

fn gen_id(rng: &mut Rng) -> String {
    let age = match rng.below(6) {
        0 => 0,
        1 => 1,
        2 => rng.below(16),
        3 => 0xffff_ffff,
        4 => rng.below(0x1_0000_0000),
        _ => 0x10 << (4 * rng.below(7)),
    };
    match rng.below(10) {
        0 => format!("p:{}:{}", rng.below(0x1_0000_0000), age),
        1 => format!("p:{}:{}", rng.below(0x100), age),
        2 => format!("u:{}:{}", hex(&[0u8; 16]), age),
        3 => format!("u:{}:{}", hex(&gen_decimal_bytes(rng, 16)), age),
        _ => format!("u:{}:{}", hex(&gen_bytes(rng, 16)), age),
    }
}

fn gen_slot(rng: &mut Rng) -> String {
    match rng.below(6) {
        0 | 1 => "top".to_string(),
        2 => format!("t{}", rng.below(3)),
        3 => format!("p{}", rng.below(3)),
        4 => format!("p{}.t{}", rng.below(2), rng.below(3)),
        _ => format!("p{}.p{}{}", rng.below(2), rng.below(2), if rng.chance(1, 2) { format!(".t{}", rng.below(2)) } else { String::new() }),
    }
}

fn fld_lib_line(slot: &str, name: &str, path: &str, dname: &str, dpath: &str, id: &str, code: &str, arch: Option<&str>) -> String {
    format!(
        "lib {slot} {} {} {} {} {id} {code} {}",
        hex(name.as_bytes()),
        hex(path.as_bytes()),
        hex(dname.as_bytes()),
        hex(dpath.as_bytes()),
        match arch {
            None => "none".to_string(),
            Some(a) => format!("s:{}", hex(a.as_bytes())),
        }
    )
}

fn gen_fld(rng: &mut Rng) -> Vec<String> {
    let mut ops = vec!["kind fld".to_string()];
    let n = rng.range(1, 6);
    let mut prev: Vec<(String, String)> = Vec::new();
    for _ in 0..n {
        let name = gen_name(rng);
        let dir = rng.pick(&["/usr/lib", "/home/u s/é", "", "/a\\b", "/opt/\"q\""]).to_string();
        let path = format!("{dir}/{name}");
        let (dname, dpath) = match rng.below(4) {
            0 => (format!("{name}.pdb"), format!("C:\\sym\\{name}.pdb")),
            1 => (gen_name(rng), format!("/dbg/{name}.debug")),
            _ => (name.clone(), path.clone()),
        };
        let mut id = gen_id(rng);
        let mut dname = dname;
        // sometimes repeat an earlier key: the later library wins in the reader's map
        if !prev.is_empty() && rng.chance(1, 6) {
            let (pn, pi) = rng.pick(&prev).clone();
            dname = pn;
            id = pi;
        }
        prev.push((dname.clone(), id.clone()));
        let code = gen_code(rng);
        let arch = match rng.below(4) {
            0 => Some("x86_64"),
            1 => Some("arm64e"),
            _ => None,
        };
        ops.push(fld_lib_line(&gen_slot(rng), &name, &path, &dname, &dpath, &id, &code, arch));
    }
    ops
}

fn gen_raw_str(rng: &mut Rng, what: &str) -> String {
    let s: String = match what {
        "bp" => match rng.below(14) {
            0 => String::new(),
            1 => "0".repeat(33),
            2 => format!("{}{:x}", hex(&gen_bytes(rng, 16)).to_uppercase(), rng.below(0x1_0000_0000)),
            3 => format!("{}{:x}", hex(&gen_bytes(rng, 16)), rng.below(50)), // lower-case uuid
            4 => hex(&gen_bytes(rng, 16)).to_uppercase(),                   // no appendix
            5 => format!("{}-{:x}", hex(&gen_bytes(rng, 16)).to_uppercase(), 1),
            6 => format!("{}+{:x}", hex(&gen_bytes(rng, 16)).to_uppercase(), rng.below(300)),
            7 => format!("{}{}", hex(&gen_bytes(rng, 16)).to_uppercase(), "123456789"), // appendix overflows u32
            8 => format!("{}{}", hex(&gen_bytes(rng, 16)).to_uppercase(), "000000001"), // leading zeros, 9 digits
            9 => format!("{:08X}{:x}", rng.next_u64() as u32, rng.below(0x1000)),       // pdb 2.0 form
            10 => format!("{:08X}-{:x}", rng.next_u64() as u32, 3),
            11 => format!("{}é", hex(&gen_bytes(rng, 16)).to_uppercase()),
            12 => format!("{}G{}1", hex(&gen_bytes(rng, 8)).to_uppercase(), hex(&gen_bytes(rng, 7)).to_uppercase()),
            _ => {
                let n = rng.below(45) as usize;
                (0..n).map(|_| *rng.pick(&['0', '1', '9', 'A', 'F', 'a', 'f', '-', '+', 'g', ' '])).collect()
            }
        },
        "code" => match rng.below(14) {
            0 => String::new(),
            1 => hex(&gen_build_id(rng)).replace('-', ""),
            2 => hex(&gen_bytes(rng, 20)).to_uppercase(),
            3 => hex(&gen_bytes(rng, 16)).to_uppercase(),
            4 => format!("{:08X}{:x}", rng.next_u64() as u32, rng.below(0x100000)),
            5 => format!("{}z", hex(&gen_bytes(rng, 9))),  // odd length: the last character is never looked at
            6 => format!("{}zz", hex(&gen_bytes(rng, 9))), // bad last pair
            7 => format!("+{}", &hex(&gen_bytes(rng, 10))[1..]), // `+f` pair
            8 => format!("{}é", hex(&gen_bytes(rng, 9))),
            9 => format!("1234567é{}", rng.below(10)),
            10 => format!("+{:07X}+{:x}", rng.below(0x1000_0000), rng.below(0x1000)),
            11 => hex(&gen_decimal_bytes(rng, 16)),
            12 => "0".repeat(17),
            _ => {
                let n = rng.below(45) as usize;
                (0..n).map(|_| *rng.pick(&['0', '1', '9', 'A', 'F', 'a', 'f', '-', '+', 'g'])).collect()
            }
        },
        _ => gen_name(rng),
    };
    format!("s:{}", hex(s.as_bytes()))
}

fn gen_raw(rng: &mut Rng) -> Vec<String> {
    let mut ops = vec!["kind raw".to_string()];
    let n = rng.range(1, 5);
    for _ in 0..n {
        let mut f: Vec<String> = Vec::new();
        for what in ["name", "path", "dname", "dpath", "bp", "code", "arch"] {
            let r = rng.below(20);
            f.push(if r == 0 {
                "absent".to_string()
            } else if r == 1 {
                "null".to_string()
            } else if r == 2 && rng.chance(1, 4) {
                "bad".to_string()
            } else if what == "bp" && rng.chance(1, 2) {
                // mostly well-formed ids so that entries exist
                format!("s:{}", hex(format!("{}{:x}", hex(&gen_bytes(rng, 16)).to_uppercase(), rng.below(40)).as_bytes()))
            } else {
                gen_raw_str(rng, what)
            });
        }
        let dup = if rng.chance(1, 25) { rng.pick(&KEYS).to_string() } else { "-".to_string() };
        ops.push(format!("obj {} {} {dup}", gen_slot(rng), f.join(" ")));
    }
    ops
}

/// mangled spellings of a key: each must be an unknown key to the reader
fn mangle_key(rng: &mut Rng, k: &str) -> String {
    let snake: String = k.chars().flat_map(|c| if c.is_ascii_uppercase() { vec!['_', c.to_ascii_lowercase()] } else { vec![c] }).collect();
    let mut pascal = k.to_string();
    pascal[..1].make_ascii_uppercase();
    let swapped: String = {
        // flip the case of one letter
        let cs: Vec<char> = k.chars().collect();
        let i = rng.below(cs.len() as u64) as usize;
        cs.iter().enumerate().map(|(j, c)| if j == i { if c.is_ascii_uppercase() { c.to_ascii_lowercase() } else { c.to_ascii_uppercase() } } else { *c }).collect()
    };
    match rng.below(9) {
        0 => snake,
        1 => pascal,
        2 => k.to_ascii_lowercase(),
        3 => k.to_ascii_uppercase(),
        4 => format!("{k} "),
        5 => format!("_{k}"),
        6 => k.replace("Id", "ID").replace("Name", "name_"),
        7 => format!("{k}\u{0}"),
        _ => swapped,
    }
}

fn objk_line(slot: &str, members: &[(String, String)]) -> String {
    let ms: Vec<String> = members.iter().map(|(k, v)| format!("k:{}={v}", hex(k.as_bytes()))).collect();
    format!("objk {slot} {}", ms.join(" "))
}

/// a well-formed library with the writer's seven keys, as (key, value) members
fn objk_base(rng: &mut Rng) -> Vec<(String, String)> {
    let name = gen_name(rng);
    let s = |t: &str| format!("s:{}", hex(t.as_bytes()));
    let bp = format!("{}{:x}", hex(&gen_bytes(rng, 16)).to_uppercase(), rng.below(40));
    vec![
        ("name".to_string(), s(&name)),
        ("path".to_string(), s(&format!("/usr/lib/{name}"))),
        ("debugName".to_string(), s(&name)),
        ("debugPath".to_string(), s(&format!("/usr/lib/debug/{name}"))),
        ("breakpadId".to_string(), s(&bp)),
        ("codeId".to_string(), if rng.chance(1, 3) { "null".to_string() } else { s(&hex(&gen_bytes(rng, 20))) }),
        ("arch".to_string(), if rng.chance(1, 2) { "null".to_string() } else { s("x86_64") }),
    ]
}

/// reader probe for key names: libraries whose keys are spelled exactly / with one key mangled / with a mangled
/// key next to the exact one / with keys in another order
fn gen_objk(rng: &mut Rng) -> Vec<String> {
    let mut ops = vec!["kind raw".to_string()];
    let n = rng.range(1, 3);
    for _ in 0..n {
        let mut m = objk_base(rng);
        match rng.below(6) {
            0 => {}
            1 | 2 => {
                let i = rng.below(7) as usize;
                m[i].0 = mangle_key(rng, &m[i].0.clone());
            }
            3 => {
                // the mangled spelling in addition to the exact one (with another value): the exact one counts
                let i = rng.below(7) as usize;
                let k = mangle_key(rng, &m[i].0.clone());
                let at = rng.below(8) as usize;
                m.insert(at.min(m.len()), (k, format!("s:{}", hex(b"decoy"))));
            }
            4 => rng.shuffle(&mut m),
            _ => {
                // the same exact key twice: serde refuses the document
                let i = rng.below(7) as usize;
                let dup = m[i].clone();
                m.push(dup);
            }
        }
        ops.push(objk_line(&gen_slot(rng), &m));
    }
    ops
}

fn boundary_objk() -> Vec<Case> {
    let mut v = Vec::new();
    let mut rng = Rng::new(0xC19_0B);
    let base = |rng: &mut Rng| -> Vec<(String, String)> {
        let mut m = objk_base(rng);
        m[0].1 = format!("s:{}", hex(b"libk.so"));
        m[2].1 = format!("s:{}", hex(b"libk.so"));
        m
    };
    // exact spelling, then every key individually mangled in every way
    v.push(Case { name: "k-exact".to_string(), ops: vec!["kind raw".to_string(), objk_line("top", &base(&mut rng))] });
    for i in 0..7 {
        let exact = KEYS[i];
        let snake: String = exact.chars().flat_map(|c| if c.is_ascii_uppercase() { vec!['_', c.to_ascii_lowercase()] } else { vec![c] }).collect();
        let mut pascal = exact.to_string();
        pascal[..1].make_ascii_uppercase();
        let mut spellings = vec![pascal, exact.to_ascii_lowercase(), exact.to_ascii_uppercase(), format!("{exact}_"), format!(" {exact}")];
        if snake != exact {
            spellings.push(snake);
            spellings.push(exact.replace("Id", "ID").replace("Name", "NAME").replace("Path", "path"));
        }
        for (j, sp) in spellings.iter().enumerate() {
            if sp == exact {
                continue;
            }
            let mut m = base(&mut rng);
            m[i].0 = sp.clone();
            v.push(Case { name: format!("k-{exact}-{j}"), ops: vec!["kind raw".to_string(), objk_line("top", &m)] });
        }
    }
    v
}

struct Fixture {
    rel: &'static str,
    facts: ElfFacts,
    /// (relative address inside a function, demangled function name) from a direct lookup
    points: Vec<(u32, String)>,
}

fn fixtures() -> &'static Vec<Fixture> {
    static F: OnceLock<Vec<Fixture>> = OnceLock::new();
    F.get_or_init(|| {
        let rt = tokio::runtime::Builder::new_current_thread().enable_all().build().unwrap();
        let mut v = Vec::new();
        for rel in ["other/example-linux", "other/simple-example/out/with-dwp/main"] {
            let p = repo_dir().join("fixtures").join(rel);
            let Ok(bytes) = std::fs::read(&p) else { continue };
            let Some(facts) = elf_facts(&bytes) else { continue };
            let mgr = wholesym::SymbolManager::with_config(wholesym::SymbolManagerConfig::default());
            let Ok(map) = rt.block_on(mgr.load_symbol_map_for_binary_at_path(&p, None)) else { continue };
            let mut points = Vec::new();
            for (addr, _name) in map.iter_symbols() {
                for d in [0u32, 1, 3] {
                    if let Some(info) = map.lookup_sync(wholesym::LookupAddress::Relative(addr + d)) {
                        // only addresses inside an executable segment can be sampled
                        let svma = facts.base_svma + (addr + d) as u64;
                        if facts.segments.iter().any(|(_, va, sz)| *va <= svma && svma < va + sz) && info.symbol.address == addr {
                            points.push((addr + d, info.symbol.name));
                        }
                    }
                }
            }
            if !points.is_empty() && facts.build_id.is_some() {
                v.push(Fixture { rel, facts, points });
            }
        }
        v
    })
}

const SYM_NAMES: [(&str, &str); 8] = [
    ("alpha", "alpha"),
    ("beta_fn", "beta_fn"),
    ("_ZN3foo3barEv", "foo::bar()"),
    ("main", "main"),
    ("gamma$x", "gamma$x"),
    ("_ZN4core3fmt5write17h0123456789abcdefE", "core::fmt::write"),
    ("delta.cold", "delta.cold"),
    ("z9", "z9"),
];

fn gen_spec(rng: &mut Rng, bid: Option<Vec<u8>>) -> (ElfSpec, Vec<String>) {
    let text_off = 0x1000 * rng.range(1, 4);
    let text_size = match rng.below(3) {
        0 => 0x400,
        1 => 0x1000 * rng.range(1, 4),
        _ => 0x200 + 0x10 * rng.below(0x300),
    };
    let delta = if rng.chance(1, 3) { 0x1000 * rng.range(1, 5) } else { 0 };
    let base = *rng.pick(&[0u64, 0, 0x200000, 0x400000, 0x10000]);
    let nsyms = rng.range(1, 6) as usize;
    let mut names: Vec<(&str, &str)> = SYM_NAMES.to_vec();
    rng.shuffle(&mut names);
    let slot = text_size / nsyms as u64;
    let mut syms = Vec::new();
    let mut expect = Vec::new();
    for k in 0..nsyms {
        let size = (slot / 2).max(4).min(slot);
        let off = k as u64 * slot + if slot > size { rng.below(slot - size) & !3 } else { 0 };
        syms.push(Sym { name: names[k].0.to_string(), off, size });
        expect.push(names[k].1.to_string());
    }
    let mut spec = ElfSpec { base, text_off, text_size, delta, fill_mul: rng.below(256) as u8, fill_add: rng.below(256) as u8, build_id: bid, syms };
    // an all-zero text hash would give a file without build id the nil debug id, which the API refuses by design
    while spec.text_hash() == [0u8; 16] {
        spec.fill_add = spec.fill_add.wrapping_add(1);
    }
    (spec, expect)
}

fn gen_file_line(i: usize, name: &str, present: bool, s: &ElfSpec) -> String {
    format!(
        "file {i} gen {} {} {} {} {} {} {} {} {} t:{} {}",
        hex(name.as_bytes()),
        present as u8,
        s.base,
        s.text_off,
        s.text_size,
        s.delta,
        s.fill_mul,
        s.fill_add,
        match &s.build_id {
            None => "none".to_string(),
            Some(b) => format!("b:{}", hex(b)),
        },
        hex(&s.text_hash()),
        show_syms(&s.syms)
    )
}

/// a mapping of the executable segment `(seg_off, seg_size)` at a random address: either the page-aligned range
/// that covers the segment (`sub = false`) or a page-aligned sub-range of the segment's pages that hold `.text`
fn gen_mapping(rng: &mut Rng, seg_off: u64, seg_size: u64, text_off: u64, text_size: u64, slot: u64, sub: bool) -> (u64, u64, u64) {
    let addr = 0x10000 * rng.range(1, 0xffff) + 0x1000_0000_0000 * rng.below(7) + slot * 0x100_0000_0000;
    let lo = seg_off & !0xfff;
    let hi = (seg_off + seg_size + 0xfff) & !0xfff;
    let inner_lo = (seg_off.max(text_off) + 0xfff) & !0xfff;
    let inner_hi = (seg_off + seg_size).min(text_off + text_size) & !0xfff;
    if sub && inner_hi > inner_lo {
        let pages = (inner_hi - inner_lo) / 0x1000;
        let first = rng.below(pages);
        let count = rng.range(1, pages - first);
        (addr, count * 0x1000, inner_lo + first * 0x1000)
    } else {
        (addr, hi - lo, lo)
    }
}

struct E2eBuilder {
    ops: Vec<String>,
    /// `rec` / `opt` / `dbg` lines (after the `file` lines, before the `map` lines)
    extras: Vec<String>,
    maps: Vec<String>,
    hits: Vec<String>,
    n: usize,
}

/// how the build id of the recording relates to the file's
#[derive(Clone, Copy, Debug, PartialEq)]
enum RecRel {
    Equal,
    /// equal in the first 16 bytes (same debug id), different after
    TailDiffers,
    FirstByteDiffers,
    /// the first `min(len, 20)` bytes of a longer id (what `perf record` stores for ids over 20 bytes)
    Truncated,
}

fn rec_id_for(file_id: &[u8], rel: RecRel) -> Vec<u8> {
    let mut id: Vec<u8> = file_id.iter().copied().take(20).collect();
    match rel {
        RecRel::Equal | RecRel::Truncated => {}
        RecRel::TailDiffers => {
            if id.len() > 16 {
                let k = id.len() - 1;
                id[k] ^= 0x01;
            } else {
                id.push(0x77);
            }
        }
        RecRel::FirstByteDiffers => {
            if id.is_empty() {
                id.push(1);
            } else {
                id[0] ^= 0x80;
            }
        }
    }
    id
}

impl E2eBuilder {
    fn new() -> Self {
        E2eBuilder { ops: vec!["kind e2e".to_string()], extras: vec![], maps: vec![], hits: vec![], n: 0 }
    }
    fn add_gen(&mut self, rng: &mut Rng, name: &str, present: bool, bid: Option<Vec<u8>>, nhits: usize) -> usize {
        let (spec, expect) = gen_spec(rng, bid);
        let i = self.n;
        self.n += 1;
        self.ops.push(gen_file_line(i, name, present, &spec));
        self.map_and_hit_gen(rng, i, &spec, &expect, present, nhits);
        i
    }
    fn map_and_hit_gen(&mut self, rng: &mut Rng, i: usize, spec: &ElfSpec, expect: &[String], present: bool, nhits: usize) {
        let (seg_off, seg_size) = spec.exec_file_range();
        let mut sub = rng.chance(1, 2);
        let (addr, len, pgoff, cands) = loop {
            let (addr, len, pgoff) = gen_mapping(rng, seg_off, seg_size, spec.text_off, spec.text_size, i as u64, sub);
            // hits inside symbols that the mapping covers
            let mut cands: Vec<(u64, String)> = Vec::new();
            for (s, want) in spec.syms.iter().zip(expect) {
                for o in [s.off, s.off + 1, s.off + s.size / 2, s.off + s.size - 1] {
                    let file_off = spec.text_off + o;
                    if file_off >= pgoff && file_off < pgoff + len {
                        let rel = if present { spec.rel_of_text_off(o) } else { file_off };
                        cands.push((rel, if present { hex(want.as_bytes()) } else { "-".to_string() }));
                    }
                }
            }
            if !cands.is_empty() || !sub {
                break (addr, len, pgoff, cands);
            }
            sub = false; // the covering mapping contains every symbol
        };
        self.maps.push(format!("map {i} {addr} {len} {pgoff}"));
        for _ in 0..nhits {
            let (rel, want) = rng.pick(&cands).clone();
            self.hits.push(format!("hit {i} {rel} {want}"));
        }
    }
    fn add_copy(&mut self, rng: &mut Rng, name: &str, of: usize, spec: &ElfSpec, expect: &[String], nhits: usize) {
        let i = self.n;
        self.n += 1;
        self.ops.push(format!("file {i} copy {} 1 {of}", hex(name.as_bytes())));
        self.map_and_hit_gen(rng, i, spec, expect, true, nhits);
    }
    fn add_fixture(&mut self, rng: &mut Rng, name: &str, fx: &Fixture, nhits: usize) {
        let i = self.n;
        self.n += 1;
        self.ops.push(format!(
            "file {i} fix {} 1 {} b:{}",
            hex(name.as_bytes()),
            hex(fx.rel.as_bytes()),
            hex(fx.facts.build_id.as_ref().unwrap())
        ));
        // map every segment that contains a point
        let mut used: BTreeSet<usize> = BTreeSet::new();
        let mut chosen = Vec::new();
        for _ in 0..nhits {
            let (rel, name) = rng.pick(&fx.points).clone();
            let svma = fx.facts.base_svma + rel as u64;
            let k = fx.facts.segments.iter().position(|(_, va, sz)| *va <= svma && svma < va + sz).unwrap();
            used.insert(k);
            chosen.push((rel, name));
        }
        for k in used {
            let (off, _, size) = fx.facts.segments[k];
            let lo = off & !0xfff;
            let hi = (off + size + 0xfff) & !0xfff;
            let addr = 0x5555_0000_0000 + 0x10_0000 * rng.below(0x1000) + (i as u64) * 0x100_0000_0000 + k as u64 * 0x1000_0000;
            self.maps.push(format!("map {i} {addr} {} {lo}", hi - lo));
        }
        for (rel, name) in chosen {
            self.hits.push(format!("hit {i} {rel} {}", hex(name.as_bytes())));
        }
    }
    fn rec(&mut self, i: usize, how: &str, id: &[u8]) {
        self.extras.push(format!("rec {i} {how} {}", hex(id)));
    }
    fn finish(mut self, rng: &mut Rng) -> Vec<String> {
        // hits of different files interleaved: the order of first use decides the order of `libs[]`
        rng.shuffle(&mut self.hits);
        self.ops.extend(self.extras);
        self.ops.extend(self.maps);
        self.ops.extend(self.hits);
        self.ops
    }
}

fn e2e_name(rng: &mut Rng, k: usize) -> String {
    let n = if rng.chance(1, 2) { ODD_NAMES[rng.below(ODD_NAMES.len() as u64) as usize].to_string() } else { gen_name(rng) };
    // distinct paths per case: a numbered directory; "." and ".." are not file names
    let n = n.replace('/', "_").replace('\u{1}', "_ctl_");
    let n = if n == "." || n == ".." || n.is_empty() { format!("dot{n}") } else { n };
    format!("d{k}/{n}")
}

const NAME_PAIRS: [(&str, &str); 6] = [
    ("x", "x.gz"),
    ("prof.JSON.GZ", "prof.gz"),
    ("out.profile", "out.json.GZ.gz"),
    ("a b.json", "é.json.gz"),
    ("p.gz.json", "p.json.gz"),
    ("noext", "NOEXT.GZ"),
];

fn how_for(rng: &mut Rng, id: &[u8]) -> &'static str {
    // a header entry without the stored length loses trailing zero groups: only `hz` for ids that survive,
    // except in the dedicated boundary case
    let survives = id.len() == 20 && id[16..].iter().any(|b| *b != 0);
    match rng.below(3) {
        0 => "m",
        1 => "h",
        _ if survives => "hz",
        _ => "h",
    }
}

/// end-to-end case in which the recording carries build ids (what every real `perf record` file does)
fn gen_e2e_rec(rng: &mut Rng) -> Vec<String> {
    let mut b = E2eBuilder::new();
    let nfiles = rng.range(1, 3) as usize;
    for k in 0..nfiles {
        let name = if rng.chance(1, 2) { format!("d{k}/lib{k}.so") } else { e2e_name(rng, k) };
        match rng.below(12) {
            0 => {
                // file absent at import time, the recording knows its build id (converter case 4 with identity)
                let id = gen_bytes(rng, 20);
                let i = b.add_gen(rng, &name, false, Some(id.clone()), 2);
                let how = how_for(rng, &id);
                b.rec(i, how, &id);
            }
            1 => {
                // file without a note, the recording names an id: dropped
                let i = b.add_gen(rng, &name, true, None, 2);
                let id = gen_bytes(rng, 20);
                let how = how_for(rng, &id);
                b.rec(i, how, &id);
            }
            2 => {
                // id longer than 20 bytes: the recording has its first 20 bytes
                let n = rng.range(21, 40) as usize;
                let id = gen_bytes(rng, n);
                let i = b.add_gen(rng, &name, true, Some(id.clone()), 2);
                b.rec(i, if rng.chance(1, 2) { "m" } else { "h" }, &rec_id_for(&id, RecRel::Truncated));
            }
            3 | 4 => {
                let id = gen_bytes(rng, 20);
                let i = b.add_gen(rng, &name, true, Some(id.clone()), 2);
                let rel = if rng.chance(2, 3) { RecRel::TailDiffers } else { RecRel::FirstByteDiffers };
                let rid = rec_id_for(&id, rel);
                let how = how_for(rng, &rid);
                b.rec(i, how, &rid);
            }
            5 if !fixtures().is_empty() => {
                let fx = &fixtures()[rng.below(fixtures().len() as u64) as usize];
                let i = b.n;
                b.add_fixture(rng, &name, fx, 3);
                let id = fx.facts.build_id.clone().unwrap();
                if id.len() <= 20 {
                    let how = how_for(rng, &id);
                    b.rec(i, how, &id);
                }
            }
            6 => {
                // moved together with the recording, id equal
                let base = name.rsplit('/').next().unwrap().to_string();
                let id = gen_bytes(rng, 20);
                let i = b.add_gen(rng, &format!("reloc/r{k}-{base}"), true, Some(id.clone()), 3);
                let how = how_for(rng, &id);
                b.rec(i, how, &id);
            }
            7 => {
                // short ids (stored with their length)
                let n = *rng.pick(&[1usize, 4, 8, 9, 16]);
                let id = gen_bytes(rng, n);
                let i = b.add_gen(rng, &name, true, Some(id.clone()), 2);
                b.rec(i, if rng.chance(1, 2) { "m" } else { "h" }, &id);
            }
            _ => {
                let id = gen_bytes(rng, 20);
                let i = b.add_gen(rng, &name, true, Some(id.clone()), 3);
                let how = how_for(rng, &id);
                b.rec(i, how, &id);
            }
        }
    }
    // a library that is listed in any case, so that the profile is never empty
    let id = gen_bytes(rng, 20);
    let i = b.add_gen(rng, "dz/always.so", true, Some(id.clone()), 2);
    if rng.chance(1, 2) {
        b.rec(i, "m", &id);
    }
    gen_opts(rng, &mut b);
    b.finish(rng)
}

/// Is the known finding `id` recorded in `$VERIF_ROOT/KNOWN_FINDINGS.txt`? The input family on which
/// `--unstable-presymbolicate` still violates the property (C19-sidecar-collision) is generated only then (the judge
/// flags it with a tag that the `known:` line matches); without the line it would turn every run red. The second
/// family of the improvement round (short build ids, C19-presym-badcodeid) is repaired (`fix:` 4dd060e3) and
/// generated unconditionally.
fn known_listed(id: &str) -> bool {
    static TEXT: OnceLock<String> = OnceLock::new();
    let text = TEXT.get_or_init(|| {
        let root = std::env::var("VERIF_ROOT").unwrap_or_else(|_| "/verif".to_string());
        std::fs::read_to_string(PathBuf::from(root).join("KNOWN_FINDINGS.txt")).unwrap_or_default()
    });
    text.lines().any(|l| l.starts_with("known:") && l.contains(&format!("\"id\":\"{id}\"")))
}

/// may `opt presym` be added to these op lines? (not when two mapped files share their identity, unless the known
/// finding C19-sidecar-collision is recorded)
fn presym_allowed(ops: &[String]) -> bool {
    let mut fixtures_seen: Vec<&str> = Vec::new();
    let mut twins = false;
    for l in ops {
        let w: Vec<&str> = l.split_whitespace().collect();
        if w.first() != Some(&"file") {
            continue;
        }
        match w.get(2).copied() {
            Some("copy") => twins = true,
            Some("fix") => {
                if fixtures_seen.contains(&w[5]) {
                    twins = true;
                }
                fixtures_seen.push(w[5]);
            }
            _ => {}
        }
    }
    !twins || known_listed("C19-sidecar-collision")
}

/// invocation variants and `.dbg` companions: none of them may change the outcome
fn gen_opts(rng: &mut Rng, b: &mut E2eBuilder) {
    if rng.chance(1, 5) {
        b.extras.push("opt relcwd".to_string());
    }
    if rng.chance(1, 6) && presym_allowed(&b.ops) {
        b.extras.push("opt presym".to_string());
    }
    if rng.chance(1, 5) {
        let (x, y) = rng.pick(&NAME_PAIRS);
        b.extras.push(format!("opt names {} {}", hex(x.as_bytes()), hex(y.as_bytes())));
    }
    // `<path>.dbg` next to generated `.so` files
    let so: Vec<usize> = b
        .ops
        .iter()
        .filter_map(|l| {
            let w: Vec<&str> = l.split_whitespace().collect();
            if w.len() > 4 && w[0] == "file" && w[2] == "gen" && w[4] == "1" && utf8(w[3]).map(|n| n.ends_with(".so")).unwrap_or(false) {
                w[1].parse().ok()
            } else {
                None
            }
        })
        .collect();
    for i in so {
        if rng.chance(1, 3) {
            b.extras.push(format!("dbg {i} {}", if rng.chance(1, 2) { "same" } else { "stale" }));
        }
    }
}

fn gen_e2e(rng: &mut Rng) -> Vec<String> {
    if rng.chance(2, 5) {
        return gen_e2e_rec(rng);
    }
    let mut b = E2eBuilder::new();
    let nfiles = rng.range(1, 4) as usize;
    for k in 0..nfiles {
        let name = e2e_name(rng, k);
        match rng.below(10) {
            0 => {
                // absent at import time (converter case 4): no identity beyond the path
                b.add_gen(rng, &name, false, None, 2);
            }
            1 if !fixtures().is_empty() => {
                let fx = &fixtures()[rng.below(fixtures().len() as u64) as usize];
                b.add_fixture(rng, &name, fx, 3);
            }
            2 => {
                b.add_gen(rng, &name, true, None, 3);
            }
            4 | 5 if rng.chance(1, 2) => {
                // moved together with the recording (found through the lookup dir, not at the mapped path)
                let base = name.rsplit('/').next().unwrap().to_string();
                let bid = if rng.chance(1, 4) { None } else { Some(gen_bytes(rng, 20)) };
                b.add_gen(rng, &format!("reloc/r{k}-{base}"), true, bid, 3);
            }
            3 if rng.chance(1, 2) => {
                // a file and a byte-identical copy: under the same file name in another directory (equal keys) or
                // under another name (equal build id, different key)
                let bid = gen_bytes(rng, 20);
                let (spec, expect) = gen_spec(rng, Some(bid));
                let i = b.n;
                b.n += 1;
                b.ops.push(gen_file_line(i, &name, true, &spec));
                b.map_and_hit_gen(rng, i, &spec, &expect, true, 2);
                let base = name.rsplit('/').next().unwrap().to_string();
                let copy_name = if rng.chance(1, 2) { format!("c{k}/{base}") } else { format!("c{k}/copy-of-{k}") };
                b.add_copy(rng, &copy_name, i, &spec, &expect, 2);
            }
            _ => {
                let bid = gen_build_id(rng);
                b.add_gen(rng, &name, true, Some(bid), 3);
            }
        }
    }
    gen_opts(rng, &mut b);
    b.finish(rng)
}

fn boundary_e2e() -> Vec<Case> {
    let mut v = Vec::new();
    let mut rng = Rng::new(0xC19);
    let dec16: Vec<u8> = (0..16).map(|i| ((i % 10) * 16 + (i * 7) % 10) as u8).collect();
    let ids: Vec<(&str, Option<Vec<u8>>)> = vec![
        ("nobid", None),
        ("bid1", Some(vec![0xab])),
        ("bid4", Some(vec![1, 2, 3, 4])),
        ("bid5", Some(vec![0x01, 0x23, 0x45, 0x67, 0x89])),
        ("bid8fast", Some(vec![0x01, 0x23, 0x45, 0x67, 0x89, 0xab, 0xcd, 0xef])),
        ("bid8dec", Some(vec![0x12; 8])),
        ("bid9", Some(vec![9, 8, 7, 6, 5, 4, 3, 2, 0xf1])),
        ("bid16", Some((0..16).map(|i| 0xa0 + i as u8).collect())),
        ("bid16dec", Some(dec16)),
        ("bid16letters", Some(vec![0xab; 16])),
        ("bid20", Some((0..20).collect())),
        ("bid20dec", Some(vec![0x55; 20])),
        ("bid32", Some((0..32).map(|i| (i * 9) as u8).collect())),
    ];
    for (tag, bid) in ids {
        let mut b = E2eBuilder::new();
        b.add_gen(&mut rng, "d0/libid.so", true, bid, 3);
        v.push(Case { name: format!("b-{tag}"), ops: b.finish(&mut rng) });
    }
    // odd names, one case each
    for (k, n) in ODD_NAMES.iter().enumerate() {
        let mut b = E2eBuilder::new();
        let n = n.replace('\u{1}', "_");
        let bid = gen_bytes(&mut rng, 20);
        b.add_gen(&mut rng, &format!("d0/{n}"), true, Some(bid), 2);
        v.push(Case { name: format!("b-name{k}"), ops: b.finish(&mut rng) });
    }
    // the same binary under two paths with the same file name: equal (debugName, debugId), the later lib wins
    {
        let mut b = E2eBuilder::new();
        let (spec, expect) = gen_spec(&mut rng, Some((100..120).collect()));
        b.ops.push(gen_file_line(0, "d0/libdup.so", true, &spec));
        b.n = 1;
        b.map_and_hit_gen(&mut rng, 0, &spec, &expect, true, 2);
        b.add_copy(&mut rng, "d1/libdup.so", 0, &spec, &expect, 2);
        b.add_copy(&mut rng, "d2/other-name.so", 0, &spec, &expect, 2);
        v.push(Case { name: "b-dupkey".to_string(), ops: b.finish(&mut rng) });
    }
    // binaries moved together with the recording, with and without build id, next to one found in place
    {
        let mut b = E2eBuilder::new();
        b.add_gen(&mut rng, "reloc/libmoved.so", true, Some((50..70).collect()), 3);
        b.add_gen(&mut rng, "reloc/moved-nobid", true, None, 2);
        let bid = gen_bytes(&mut rng, 20);
        b.add_gen(&mut rng, "d1/inplace.so", true, Some(bid), 2);
        v.push(Case { name: "b-relocated".to_string(), ops: b.finish(&mut rng) });
    }
    // absent file, absent + present, fixtures
    {
        let mut b = E2eBuilder::new();
        b.add_gen(&mut rng, "d0/gone.so", false, None, 2);
        let bid = gen_bytes(&mut rng, 20);
        b.add_gen(&mut rng, "d1/here.so", true, Some(bid), 2);
        v.push(Case { name: "b-absent".to_string(), ops: b.finish(&mut rng) });
    }
    for (k, fx) in fixtures().iter().enumerate() {
        let mut b = E2eBuilder::new();
        let base = fx.rel.rsplit('/').next().unwrap();
        b.add_fixture(&mut rng, &format!("d0/{base}"), fx, 6);
        v.push(Case { name: format!("b-fixture{k}"), ops: b.finish(&mut rng) });
    }
    // --- improvement round: the recording carries build ids (MMAP2 build id / HEADER_BUILD_ID) ---
    let id20: Vec<u8> = (0..20).map(|i| 0x30 + 7 * i as u8).collect();
    let zero_tail: Vec<u8> = (0..20).map(|i| if i < 16 { 0x41 + i as u8 } else { 0 }).collect();
    let id32: Vec<u8> = (0..32).map(|i| 0x81 + 3 * i as u8).collect();
    // (tag, file present, file id, how, recorded id)
    let recs: Vec<(&str, bool, Option<Vec<u8>>, &str, Vec<u8>)> = vec![
        ("m-equal", true, Some(id20.clone()), "m", id20.clone()),
        ("h-equal", true, Some(id20.clone()), "h", id20.clone()),
        ("hz-equal", true, Some(id20.clone()), "hz", id20.clone()),
        ("m-byte20", true, Some(id20.clone()), "m", rec_id_for(&id20, RecRel::TailDiffers)),
        ("h-byte20", true, Some(id20.clone()), "h", rec_id_for(&id20, RecRel::TailDiffers)),
        ("m-byte17", true, Some(id20.clone()), "m", { let mut x = id20.clone(); x[16] ^= 0x10; x }),
        ("m-byte1", true, Some(id20.clone()), "m", rec_id_for(&id20, RecRel::FirstByteDiffers)),
        ("m-nonote", true, None, "m", id20.clone()),
        ("h-nonote", true, None, "h", id20.clone()),
        ("m-absent", false, Some(id20.clone()), "m", id20.clone()),
        ("h-absent", false, Some(id20.clone()), "h", id20.clone()),
        ("hz-zerotail-file", true, Some(zero_tail.clone()), "hz", zero_tail.clone()),
        ("h-zerotail-file", true, Some(zero_tail.clone()), "h", zero_tail.clone()),
        ("m-trunc32", true, Some(id32.clone()), "m", rec_id_for(&id32, RecRel::Truncated)),
        ("m-short8", true, Some(vec![0x01, 0x23, 0x45, 0x67, 0x89, 0xab, 0xcd, 0xef]), "m", vec![0x01, 0x23, 0x45, 0x67, 0x89, 0xab, 0xcd, 0xef]),
        ("h-short9", true, Some(vec![9, 8, 7, 6, 5, 4, 3, 2, 0xf1]), "h", vec![9, 8, 7, 6, 5, 4, 3, 2, 0xf1]),
        ("m-prefix16", true, Some(id20.clone()), "m", id20[..16].to_vec()),
        ("m-empty", true, Some(id20.clone()), "m", vec![]),
    ];
    for (tag, present, fid, how, rid) in recs {
        let mut b = E2eBuilder::new();
        let i = b.add_gen(&mut rng, "d0/librec.so", present, fid, 3);
        b.rec(i, how, &rid);
        // a second library without a recorded id keeps the profile non-empty when the first one is dropped
        let other = gen_bytes(&mut rng, 20);
        b.add_gen(&mut rng, "d1/other.so", true, Some(other), 2);
        v.push(Case { name: format!("b-rec-{tag}"), ops: b.finish(&mut rng) });
    }
    {
        // relocated file + recorded id; fixture + its true id; both header and MMAP2 ids on one file
        let mut b = E2eBuilder::new();
        let i = b.add_gen(&mut rng, "reloc/libmoved.so", true, Some(id20.clone()), 3);
        b.rec(i, "m", &id20);
        b.rec(i, "h", &rec_id_for(&id20, RecRel::TailDiffers)); // the MMAP2 id wins (converter.rs:775-776)
        v.push(Case { name: "b-rec-reloc".to_string(), ops: b.finish(&mut rng) });
    }
    for (k, fx) in fixtures().iter().enumerate() {
        let id = fx.facts.build_id.clone().unwrap();
        if id.len() > 20 {
            continue;
        }
        for how in ["m", "h"] {
            let mut b = E2eBuilder::new();
            let base = fx.rel.rsplit('/').next().unwrap();
            b.add_fixture(&mut rng, &format!("d0/{base}"), fx, 4);
            b.rec(0, how, &id);
            v.push(Case { name: format!("b-rec-fixture{k}-{how}"), ops: b.finish(&mut rng) });
        }
    }
    // --- invocation variants: relative paths + another cwd for `load`, output names, presymbolication ---
    let mut variant = |tag: &str, extras: Vec<String>, reloc: bool, v: &mut Vec<Case>| {
        let mut b = E2eBuilder::new();
        let id = gen_bytes(&mut rng, 20);
        b.add_gen(&mut rng, if reloc { "reloc/libv.so" } else { "d0/libv.so" }, true, Some(id), 3);
        b.add_gen(&mut rng, "d1/nobid", true, None, 2);
        b.extras.extend(extras);
        v.push(Case { name: format!("b-var-{tag}"), ops: b.finish(&mut rng) });
    };
    variant("relcwd", vec!["opt relcwd".to_string()], false, &mut v);
    variant("relcwd-reloc", vec!["opt relcwd".to_string()], true, &mut v);
    variant("presym", vec!["opt presym".to_string()], false, &mut v);
    for (k, (x, y)) in NAME_PAIRS.iter().enumerate() {
        variant(&format!("names{k}"), vec![format!("opt names {} {}", hex(x.as_bytes()), hex(y.as_bytes()))], false, &mut v);
    }
    variant("names-presym-relcwd", vec!["opt relcwd".to_string(), "opt presym".to_string(), format!("opt names {} {}", hex(b"x"), hex(b"x.gz"))], true, &mut v);
    // --- `.dbg` companions: an identical one answers like the binary, a stale one (other id) must be skipped ---
    variant("dbg-same", vec!["dbg 0 same".to_string()], false, &mut v);
    variant("dbg-stale", vec!["dbg 0 stale".to_string()], false, &mut v);
    variant("dbg-stale-reloc", vec!["dbg 0 stale".to_string()], true, &mut v);
    // --- the known finding of `--unstable-presymbolicate` (generated once its `known:` line exists) ---
    if known_listed("C19-sidecar-collision") {
        let mut b = E2eBuilder::new();
        let (spec, expect) = gen_spec(&mut rng, Some((100..120).collect()));
        b.ops.push(gen_file_line(0, "d0/libtwin.so", true, &spec));
        b.n = 1;
        b.map_and_hit_gen(&mut rng, 0, &spec, &expect, true, 3);
        b.add_copy(&mut rng, "d1/other-name.so", 0, &spec, &expect, 3);
        b.extras.push("opt presym".to_string());
        v.push(Case { name: "b-known-sidecar-collision".to_string(), ops: b.finish(&mut rng) });
    }
    // --- repaired defect C19-presym-badcodeid: presymbolication of libraries whose code id text does not parse
    // (ELF build ids of at most 4 bytes), reads back as another type (5-8 bytes, 16 decimal-only bytes), or is absent ---
    let tiny: Vec<(&str, Option<Vec<u8>>)> = vec![
        ("bid1", Some(vec![0xab])),
        ("bid4", Some(vec![1, 2, 3, 4])),
        ("bid5", Some(vec![0x01, 0x23, 0x45, 0x67, 0x89])),
        ("bid8", Some(vec![0x01, 0x23, 0x45, 0x67, 0x89, 0xab, 0xcd, 0xef])),
        ("bid16dec", Some(vec![0x12; 16])),
        ("nobid", None),
    ];
    for (tag, bid) in tiny {
        let mut b = E2eBuilder::new();
        b.add_gen(&mut rng, "d0/libtiny.so", true, bid, 2);
        let other = gen_bytes(&mut rng, 20);
        b.add_gen(&mut rng, "d1/other.so", true, Some(other), 2);
        b.extras.push("opt presym".to_string());
        v.push(Case { name: format!("b-presym-{tag}"), ops: b.finish(&mut rng) });
    }
    {
        // the recording itself names the short id (MMAP2 build id), relative paths, other output names
        let mut b = E2eBuilder::new();
        let i = b.add_gen(&mut rng, "reloc/libtiny.so", true, Some(vec![9, 9, 9]), 2);
        b.rec(i, "m", &[9, 9, 9]);
        b.extras.push("opt presym".to_string());
        b.extras.push("opt relcwd".to_string());
        b.extras.push(format!("opt names {} {}", hex(b"x"), hex(b"x.gz")));
        v.push(Case { name: "b-presym-bid3-rec-relcwd".to_string(), ops: b.finish(&mut rng) });
    }
    v
}

fn boundary_fld() -> Vec<Case> {
    let mut v = Vec::new();
    let u = "u:00112233445566778899aabbccddeeff";
    let mut k = 0;
    let mut push = |ops: Vec<String>| {
        let mut all = vec!["kind fld".to_string()];
        all.extend(ops);
        v.push(Case { name: format!("f{k}"), ops: all });
        k += 1;
    };
    // every age shape
    for age in [0u64, 1, 9, 10, 15, 16, 255, 256, 0xabc, 0x10000, 0x0fffffff, 0x10000000, 0xffffffff] {
        push(vec![fld_lib_line("top", "a.so", "/x/a.so", "a.so", "/x/a.so", &format!("{u}:{age}"), "none", None)]);
    }
    for ts in [0u64, 1, 0xabcdef, 0x10000000, 0xffffffff] {
        push(vec![fld_lib_line("top", "a.pdb", "/x/a.dll", "a.pdb", "/x/a.pdb", &format!("p:{ts}:{}", ts % 7), "pe:1588702915:126976", Some("x86_64"))]);
    }
    // every code id shape
    for code in [
        "none", "elf:-", "elf:ab", "elf:01020304", "elf:0123456789", "elf:0123456789abcdef", "elf:1212121212121212", "elf:010203040506070809",
        "elf:00112233445566778899001122334455", "elf:0011223344556677889900112233445a", "elf:abababababababababababababababab",
        "elf:000102030405060708090a0b0c0d0e0f10111213", "elf:5555555555555555555555555555555555555555", "pe:0:0", "pe:4294967295:4294967295",
        "pe:1:16", "macho:00112233445566778899aabbccddeeff", "macho:00112233445566778899001122334455", "raw:-", "raw:7a7a",
    ] {
        push(vec![fld_lib_line("top", "a.so", "/x/a.so", "a.so", "/x/a.so", &format!("{u}:0"), code, None)]);
    }
    // every position of the document
    for slot in ["top", "t0", "t2", "p0", "p1.t1", "p0.p0", "p1.p2.t0", "p0.p1.p0"] {
        push(vec![
            fld_lib_line(slot, "a.so", "/x/a.so", "a.so", "/x/a.so", &format!("{u}:0"), "elf:000102030405060708090a0b0c0d0e0f10111213", None),
            fld_lib_line("top", "b.so", "/x/b.so", "b.so", "/x/b.so", &format!("{u}:1"), "none", Some("arm64")),
        ]);
    }
    // odd strings in every field
    for n in ODD_NAMES {
        push(vec![fld_lib_line("top", n, &format!("/p/{n}"), &format!("{n}.dbg"), &format!("/d\\{n}"), &format!("{u}:0"), "none", Some(n))]);
    }
    // equal keys at different positions: the walk order decides
    push(vec![
        fld_lib_line("p0", "a.so", "/first/a.so", "a.so", "/first/a.so", &format!("{u}:0"), "none", None),
        fld_lib_line("t0", "a.so", "/second/a.so", "a.so", "/second/a.so", &format!("{u}:0"), "none", None),
        fld_lib_line("top", "a.so", "/third/a.so", "a.so", "/third/a.so", &format!("{u}:0"), "none", None),
    ]);
    v
}

impl Prop for C19 {
    fn id(&self) -> &'static str {
        "C19"
    }
    fn case_count(&self, tier: Tier) -> u64 {
        match tier {
            Tier::Quick => 900,
            Tier::Thorough => 13000,
        }
    }
    fn fixed_cases(&self, _tier: Tier) -> Vec<Case> {
        let mut v = boundary_fld();
        v.extend(boundary_objk());
        v.extend(boundary_e2e());
        v
    }
    fn generate(&self, rng: &mut Rng, tier: Tier, index: u64) -> Vec<String> {
        // quick: 150 end-to-end profiles among 900 cases; thorough: 2 600 among 13 000
        let e2e_every = if tier == Tier::Quick { 6 } else { 5 };
        if index % e2e_every == 0 {
            gen_e2e(rng)
        } else if index % 3 == 1 {
            if index % 4 == 1 {
                gen_objk(rng)
            } else {
                gen_raw(rng)
            }
        } else {
            gen_fld(rng)
        }
    }
    fn execute(&self, ops: &[String], stats: &mut Stats) -> Vec<String> {
        match ops.first().map(|s| s.as_str()) {
            Some("kind fld") => {
                stats.bump("kind_fld");
                exec_fld(ops, stats)
            }
            Some("kind raw") => {
                stats.bump("kind_raw");
                exec_raw(ops, stats)
            }
            Some("kind e2e") => {
                stats.bump("kind_e2e");
                exec_e2e(ops, stats)
            }
            _ => vec!["bad-op".to_string()],
        }
    }
    fn nontrivial(&self, ops: &[String], out: &[String]) -> bool {
        match ops.first().map(|s| s.as_str()) {
            Some("kind e2e") => out.iter().any(|l| l.starts_with("addr ")),
            _ => out.iter().any(|l| l.starts_with("rd ") && !l.ends_with(" err")),
        }
    }
    fn teardown(&self) {
        let _ = std::fs::remove_dir_all(work_tmp("C19"));
    }
}

fn main() {
    verif_harness::runner::run_main(&C19);
}
