//! C01 — perf.data import conserves samples. Generated record histories are rendered into a real
//! perf.data file and converted by the `samply` binary built from the working tree; the observable is,
//! per thread entry (pid string, tid string), the multiset of (time ns, weight) of its samples.
use verif_harness::common::*;
use verif_harness::gen::perfdata::*;

pub struct C01;

const SHAPE_QUICK: Shape = Shape { max_len: 120, mappings: false, violate_pct: 30, allow_reuse: true, allow_fold: true, files: Vec::new(), jit: false };

fn cs_cases(tier: Tier) -> u64 {
    match tier {
        Tier::Quick => 100,
        Tier::Thorough => 4000,
    }
}

fn comm(pid: u32, tid: u32, name: &str, t: u64) -> Rec {
    Rec::Comm { pid, tid, name: name.to_string(), exec: false, t }
}
fn exec(pid: u32, name: &str, t: u64) -> Rec {
    Rec::Comm { pid, tid: pid, name: name.to_string(), exec: true, t }
}
fn fork(pid: u32, tid: u32, ppid: u32, ptid: u32, t: u64) -> Rec {
    Rec::Fork { pid, tid, ppid, ptid, t }
}
fn exit(pid: u32, tid: u32, t: u64) -> Rec {
    Rec::Exit { pid, tid, t }
}
fn sample(pid: u32, tid: u32, t: u64) -> Rec {
    Rec::Sample { pid, tid, t, kernel: false, period: 1_000_000, ip: 0x1010, chain: vec![] }
}

/// `--reuse-threads` histories over a pool of two names, so that rename-with-recycling (a non-exec COMM onto
/// the name of an exited process / thread) and the hand-over of the renamer's old track through the pool happen
/// in most cases: two Process objects then buffer samples for one profile thread and flush them in
/// non-chronological order (review_D C01 §5.3; seeded change C01-3).
fn gen_two_name_reuse(rng: &mut Rng, len: u64) -> History {
    const TWO: [&str; 2] = ["worker", "launcher"];
    let mut h = History { reuse: true, ..Default::default() };
    let mut t = 1_000_000 * rng.range(1, 20);
    let mut live: Vec<(u32, Vec<u32>)> = Vec::new();
    let mut next_pid = 100u32;
    for _ in 0..len {
        t += 1000 * rng.range(1, 500);
        let choice = rng.below(100);
        if live.is_empty() || (choice < 15 && live.len() < 4) {
            // a new process: announced by COMM, or FORK (+ EXEC under one of the two names)
            let pid = next_pid;
            next_pid += 10;
            if live.is_empty() || rng.chance(1, 2) {
                h.recs.push(comm(pid, pid, *rng.pick(&TWO), t));
            } else {
                let parent = live[rng.below(live.len() as u64) as usize].0;
                h.recs.push(fork(pid, pid, parent, parent, t));
                if rng.chance(3, 4) {
                    h.recs.push(exec(pid, *rng.pick(&TWO), t + 1));
                }
            }
            live.push((pid, Vec::new()));
            continue;
        }
        let k = rng.below(live.len() as u64) as usize;
        let pid = live[k].0;
        match choice {
            0..=49 => {
                let tid = if live[k].1.is_empty() || rng.chance(1, 2) { pid } else { *rng.pick(&live[k].1) };
                h.recs.push(sample(pid, tid, t));
            }
            50..=64 => {
                // non-exec rename of the process or of a thread onto one of the two names
                let tid = if live[k].1.is_empty() || rng.chance(1, 2) { pid } else { *rng.pick(&live[k].1) };
                h.recs.push(comm(pid, tid, *rng.pick(&TWO), t));
            }
            65..=74 => {
                let tid = pid + 1 + live[k].1.len() as u32;
                h.recs.push(fork(pid, tid, pid, pid, t));
                h.recs.push(comm(pid, tid, *rng.pick(&TWO), t + 1));
                live[k].1.push(tid);
            }
            75..=82 if !live[k].1.is_empty() => {
                let tid = live[k].1.remove(0);
                h.recs.push(exit(pid, tid, t));
            }
            83..=89 => {
                h.recs.push(exec(pid, *rng.pick(&TWO), t));
                live[k].1.clear();
            }
            _ => {
                for tid in live[k].1.clone() {
                    h.recs.push(exit(pid, tid, t));
                }
                h.recs.push(exit(pid, pid, t));
                live.remove(k);
            }
        }
    }
    let first_sample = h.recs.iter().find_map(|r| if let Rec::Sample { t, .. } = r { Some(*t) } else { None });
    h.ref_time = first_sample.unwrap_or(0);
    h
}

const TWO_NAME_CASES: u64 = 60;

impl Prop for C01 {
    fn id(&self) -> &'static str {
        "C01"
    }
    fn fixed_cases(&self, _tier: Tier) -> Vec<Case> {
        let mut v = Vec::new();
        // rename-with-recycling + pool hand-over (the chain of seeded C01-3): A "worker" exits; B "launcher",
        // sampled twice, renames itself to "worker" (takes A's track, its own goes to the pool under
        // "launcher"); C forks, execs as "launcher" (takes B's old track), is sampled and exits first; B's two
        // earlier samples are flushed onto the same track after C's later one
        let recs = vec![
            comm(100, 100, "worker", 1000),
            sample(100, 100, 2000),
            exit(100, 100, 3000),
            comm(200, 200, "launcher", 4000),
            sample(200, 200, 5000),
            sample(200, 200, 7000),
            comm(200, 200, "worker", 8000),
            fork(300, 300, 200, 200, 9000),
            exec(300, "launcher", 10000),
            sample(300, 300, 14000),
            sample(300, 300, 16000),
            exit(300, 300, 17000),
            sample(200, 200, 18000),
        ];
        for (k, reuse) in [true, false].into_iter().enumerate() {
            let h = History { reuse, ref_time: 2000, recs: recs.clone(), ..Default::default() };
            v.push(Case { name: format!("reuse-rename-recycle-{k}"), ops: h.to_ops() });
        }
        // the same hand-over between threads of one process
        let recs = vec![
            comm(100, 100, "app", 1000),
            fork(100, 101, 100, 100, 1100),
            comm(100, 101, "worker", 1200),
            sample(100, 101, 2000),
            exit(100, 101, 3000),
            fork(100, 102, 100, 100, 3100),
            comm(100, 102, "launcher", 3200),
            sample(100, 102, 5000),
            sample(100, 102, 7000),
            comm(100, 102, "worker", 8000),
            fork(100, 103, 100, 100, 9000),
            comm(100, 103, "launcher", 9100),
            sample(100, 103, 14000),
            sample(100, 102, 18000),
        ];
        v.push(Case { name: "reuse-thread-rename-recycle".to_string(), ops: History { reuse: true, ref_time: 2000, recs, ..Default::default() }.to_ops() });
        // a back-dated sample of a known thread (file breaking the round contract): the debug build panics at
        // shared/context_switch.rs:147; of another thread: converted (C01 holds)
        for (k, late) in [sample(100, 100, 2000), sample(100, 101, 2000), sample(200, 200, 500)].into_iter().enumerate() {
            let h = history_from_file_rounds(
                1000,
                vec![vec![comm(100, 100, "app", 1000), sample(100, 100, 1500)], vec![sample(100, 100, 3000)], vec![late, sample(100, 100, 4000)], vec![sample(100, 100, 5000)]],
            );
            v.push(Case { name: format!("backdated-sample-{k}"), ops: h.to_ops() });
        }
        // sample times before the reference time; time-0 head
        let recs = vec![comm(100, 100, "app", 0), fork(100, 101, 100, 100, 0), sample(100, 100, 2000), sample(100, 101, 2000), sample(100, 100, 3000), exit(100, 101, 3500), sample(100, 100, 5000), sample(100, 101, 6000)];
        v.push(Case { name: "samples-before-ref".to_string(), ops: History { ref_time: 5000, recs, ..Default::default() }.to_ops() });
        v
    }
    fn case_count(&self, tier: Tier) -> u64 {
        match tier {
            Tier::Quick => 400 + TWO_NAME_CASES + cs_cases(Tier::Quick),
            Tier::Thorough => 20000 + 20 * TWO_NAME_CASES + cs_cases(Tier::Thorough),
        }
    }
    fn generate(&self, rng: &mut Rng, tier: Tier, index: u64) -> Vec<String> {
        // the first 400 (quick) / 20 000 (thorough) indices are the families without context switches (their
        // cases are unchanged); the rest are recordings with switch records / sched_switch samples, EXIT / EXEC /
        // FORK in between, --reuse-threads in an eighth
        if index >= self.case_count(tier) - cs_cases(tier) {
            let shape = CsShape { max_len: if tier == Tier::Quick { 80 } else { 250 }, lifecycle: rng.chance(2, 3), allow_reuse: true };
            return gen_cs_history(rng, &shape).to_ops();
        }
        let two = if tier == Tier::Quick { TWO_NAME_CASES } else { 20 * TWO_NAME_CASES };
        if index >= self.case_count(tier) - cs_cases(tier) - two {
            // --reuse-threads over a two-name pool
            let len = rng.range(8, if tier == Tier::Quick { 60 } else { 150 });
            return gen_two_name_reuse(rng, len).to_ops();
        }
        let mut shape = SHAPE_QUICK.clone();
        if tier == Tier::Thorough {
            shape.max_len = 300;
        }
        let mut h = gen_history(rng, &shape);
        // a sixth of the histories: out-of-order delivery (records of round N+2 older than records of round N,
        // back-dated samples / MMAP2 / lifecycle records, COMM / FORK / MMAP2 stamped 0 in the middle)
        if rng.chance(1, 6) {
            out_of_order(&mut h, rng, OooKinds { samples: true, mmap2: true, lifecycle: true, zero: true });
        }
        h.to_ops()
    }
    fn execute(&self, ops: &[String], stats: &mut Stats) -> Vec<String> {
        let Some(h) = History::from_ops(ops) else {
            return vec!["bad-op".to_string()];
        };
        count_history(&h, stats);
        if !h.layout.is_empty() {
            stats.bump("explicit_layout");
            if h.recs.windows(2).any(|w| w[0].time() > w[1].time()) {
                stats.bump("delivery_not_time_ordered");
            }
        }
        let dir = work_tmp("C01");
        let tag = format!("c{:016x}", fnv1a(ops));
        if let Some(cs) = &h.cs {
            stats.bump(&format!("cs_mode_{}", cs.word().split(':').nth(1).unwrap_or("-")));
        }
        // recordings with context-switch settings: time, on/off, weight, cpu delta per sample
        let out = import_and_render(&h, if h.cs.is_some() { Proj::Cs } else { Proj::C01 }, &dir, &tag, stats);
        stats.add("off_cpu_samples", out.iter().filter(|l| l.starts_with("s ") && l.contains(" off ")).count() as u64);
        out
    }
    fn nontrivial(&self, ops: &[String], out: &[String]) -> bool {
        // at least two thread entries and one sample in the output
        out.iter().filter(|l| l.starts_with("thread ")).count() >= 2 && out.iter().any(|l| l.starts_with("s ")) && ops.len() > 3
    }
}

fn main() {
    verif_harness::runner::run_main(&C01);
}
