//! C01 — perf.data import conserves samples. Generated record histories are rendered into a real
//! perf.data file and converted by the `samply` binary built from the working tree; the observable is,
//! per thread entry (pid string, tid string), the multiset of (time ns, weight) of its samples.
use verif_harness::common::*;
use verif_harness::gen::perfdata::*;

pub struct C01;

const SHAPE_QUICK: Shape = Shape { max_len: 120, mappings: false, violate_pct: 30, allow_reuse: true, allow_fold: true, files: Vec::new(), jit: false };

fn cs_cases(tier: Tier) -> u64 {
    match tier {
        Tier::Quick => 100,
        Tier::Thorough => 4000,
    }
}

impl Prop for C01 {
    fn id(&self) -> &'static str {
        "C01"
    }
    fn case_count(&self, tier: Tier) -> u64 {
        match tier {
            Tier::Quick => 400 + cs_cases(Tier::Quick),
            Tier::Thorough => 20000 + cs_cases(Tier::Thorough),
        }
    }
    fn generate(&self, rng: &mut Rng, tier: Tier, index: u64) -> Vec<String> {
        // the first 400 (quick) / 20 000 (thorough) indices are the families without context switches (their
        // cases are unchanged); the rest are recordings with switch records / sched_switch samples, EXIT / EXEC /
        // FORK in between, --reuse-threads in an eighth
        if index >= self.case_count(tier) - cs_cases(tier) {
            let shape = CsShape { max_len: if tier == Tier::Quick { 80 } else { 250 }, lifecycle: rng.chance(2, 3), allow_reuse: true };
            return gen_cs_history(rng, &shape).to_ops();
        }
        let mut shape = SHAPE_QUICK.clone();
        if tier == Tier::Thorough {
            shape.max_len = 300;
        }
        gen_history(rng, &shape).to_ops()
    }
    fn execute(&self, ops: &[String], stats: &mut Stats) -> Vec<String> {
        let Some(h) = History::from_ops(ops) else {
            return vec!["bad-op".to_string()];
        };
        count_history(&h, stats);
        let dir = work_tmp("C01");
        let tag = format!("c{:016x}", fnv1a(ops));
        if let Some(cs) = &h.cs {
            stats.bump(&format!("cs_mode_{}", cs.word().split(':').nth(1).unwrap_or("-")));
        }
        // recordings with context-switch settings: time, on/off, weight, cpu delta per sample
        let out = import_and_render(&h, if h.cs.is_some() { Proj::Cs } else { Proj::C01 }, &dir, &tag, stats);
        stats.add("off_cpu_samples", out.iter().filter(|l| l.starts_with("s ") && l.contains(" off ")).count() as u64);
        out
    }
    fn nontrivial(&self, ops: &[String], out: &[String]) -> bool {
        // at least two thread entries and one sample in the output
        out.iter().filter(|l| l.starts_with("thread ")).count() >= 2 && out.iter().any(|l| l.starts_with("s ")) && ops.len() > 3
    }
}

fn main() {
    verif_harness::runner::run_main(&C01);
}
