//! C01 — perf.data import conserves samples. Generated record histories are rendered into a real
//! perf.data file and converted by the `samply` binary built from the working tree; the observable is,
//! per thread entry (pid string, tid string), the multiset of (time ns, weight) of its samples.
use verif_harness::common::*;
use verif_harness::gen::perfdata::*;

pub struct C01;

const SHAPE_QUICK: Shape = Shape { max_len: 120, mappings: false, violate_pct: 30, allow_reuse: true, allow_fold: true, files: Vec::new(), jit: false };

impl Prop for C01 {
    fn id(&self) -> &'static str {
        "C01"
    }
    fn case_count(&self, tier: Tier) -> u64 {
        match tier {
            Tier::Quick => 400,
            Tier::Thorough => 20000,
        }
    }
    fn generate(&self, rng: &mut Rng, tier: Tier, _index: u64) -> Vec<String> {
        let mut shape = SHAPE_QUICK.clone();
        if tier == Tier::Thorough {
            shape.max_len = 300;
        }
        gen_history(rng, &shape).to_ops()
    }
    fn execute(&self, ops: &[String], stats: &mut Stats) -> Vec<String> {
        let Some(h) = History::from_ops(ops) else {
            return vec!["bad-op".to_string()];
        };
        count_history(&h, stats);
        let dir = work_tmp("C01");
        let tag = format!("c{:016x}", fnv1a(ops));
        import_and_render(&h, Proj::C01, &dir, &tag, stats)
    }
    fn nontrivial(&self, ops: &[String], out: &[String]) -> bool {
        // at least two thread entries and one sample in the output
        out.iter().filter(|l| l.starts_with("thread ")).count() >= 2 && out.iter().any(|l| l.starts_with("s ")) && ops.len() > 3
    }
}

fn main() {
    verif_harness::runner::run_main(&C01);
}
