//! C09 — `/source/v1` only ever reads files named by the debug info of the queried address.
//!
//! Drives the real `samply_api::Api::query_api("/source/v1", body)` in-process over a **recording
//! helper**: its `FileLocation` type remembers which `location_for_*` constructor made it, and
//! `load_file` records every load, so the ordered list of *source-file* loads during one request is
//! observable. Modules are served three ways:
//!   * `synth`  a helper-supplied `SymbolMapTrait` (the `get_symbol_map_for_library` hook) whose frame
//!              tables are generated: arbitrary raw paths / mapped paths / missing files per frame;
//!   * `sym`    a generated Breakpad `.sym` text with FILE / FUNC / INLINE / line records, parsed by the
//!              real Breakpad code (plain, `hg:` `git:` `s3:` `cargo:` spellings);
//!   * `file`   fixtures of the repository with DWARF / dwo / dwp / debuglink / dSYM / OSO / PDB debug info.
//! For the queried `(module, offset)` the generator performs the direct `SymbolMap::lookup` (the oracle
//! of the model) and runs `/symbolicate/v5` (the permitted set of the judge) and prints both into the ops.
//!
//! ops / out: see `lean/SamplyModel/Iface/C09.lean`.
use std::borrow::Cow;
use std::collections::{BTreeMap, BTreeSet, HashMap};
use std::ops::Deref;
use std::sync::{Arc, Mutex, OnceLock};

use samply_symbols::debugid::DebugId;
use samply_symbols::{
    CandidatePathInfo, ElfBuildId, FileAndPathHelper, FileAndPathHelperResult, FileLocation,
    FrameDebugInfo, FramesLookupResult, LibraryInfo, LookupAddress, MappedPath,
    OptionallySendFuture, SourceFilePath, SymbolInfo, SymbolManager, SymbolMapTrait,
    SyncAddressInfo,
};
use verif_harness::common::*;

/// the real spelling function (private module of samply-api, no dependencies besides samply-symbols)
#[allow(dead_code)]
#[path = "../../../repo-link/samply-api/src/api_file_path.rs"]
mod api_file_path;
use api_file_path::to_api_file_path;

// ---------------------------------------------------------------------------------------------
// recording helper
// ---------------------------------------------------------------------------------------------

#[derive(Clone, Copy, Debug, PartialEq, Eq, Hash, PartialOrd, Ord)]
enum Kind {
    Debug,
    Source,
    Dwo,
    Dwp,
    ExtObj,
    Subcache,
    DebugLink,
    Supplementary,
}

/// A location remembers which constructor made it.
#[derive(Clone, Debug)]
struct Loc {
    kind: Kind,
    path: String,
    abs_only: bool,
}

impl std::fmt::Display for Loc {
    fn fmt(&self, f: &mut std::fmt::Formatter<'_>) -> std::fmt::Result {
        self.path.fmt(f)
    }
}

impl Loc {
    fn derived(&self, kind: Kind, path: String) -> Loc {
        Loc { kind, path, abs_only: self.abs_only }
    }
}

fn dir_of(p: &str) -> &str {
    match p.rfind('/') {
        Some(i) => &p[..i],
        None => "",
    }
}
fn base_of(p: &str) -> &str {
    match p.rfind('/') {
        Some(i) => &p[i + 1..],
        None => p,
    }
}

impl FileLocation for Loc {
    fn location_for_dyld_subcache(&self, suffix: &str) -> Option<Self> {
        Some(self.derived(Kind::Subcache, format!("{}{}", self.path, suffix)))
    }
    fn location_for_external_object_file(&self, object_file: &str) -> Option<Self> {
        Some(self.derived(Kind::ExtObj, object_file.to_string()))
    }
    fn location_for_pdb_from_binary(&self, _pdb_path_in_binary: &str) -> Option<Self> {
        None
    }
    fn location_for_source_file(&self, source_file_path: &str) -> Option<Self> {
        if self.abs_only && !source_file_path.starts_with('/') {
            return None;
        }
        Some(self.derived(Kind::Source, source_file_path.to_string()))
    }
    fn location_for_breakpad_symindex(&self) -> Option<Self> {
        None
    }
    fn location_for_dwo(&self, comp_dir: &str, path: &str) -> Option<Self> {
        let p = if path.starts_with('/') { path.to_string() } else { format!("{comp_dir}/{path}") };
        Some(self.derived(Kind::Dwo, p))
    }
    fn location_for_dwp(&self) -> Option<Self> {
        Some(self.derived(Kind::Dwp, format!("{}.dwp", self.path)))
    }
}

#[derive(Clone)]
struct Bytes(Arc<Vec<u8>>);
impl Deref for Bytes {
    type Target = [u8];
    fn deref(&self) -> &[u8] {
        &self.0
    }
}

#[derive(Clone)]
enum ModuleKind {
    Synth(Arc<SynthMap>),
    Sym(Bytes),
    /// path relative to `<repo>/fixtures`
    File(String),
}

#[derive(Clone)]
struct ModuleSpec {
    kind: ModuleKind,
    debug_name: String,
    breakpad_id: String,
}

fn fixtures_dir() -> String {
    let repo = std::env::var("VERIF_REPO")
        .unwrap_or_else(|_| concat!(env!("CARGO_MANIFEST_DIR"), "/../repo-link").to_string());
    format!("{repo}/fixtures")
}

fn file_cache() -> &'static Mutex<HashMap<String, Option<Bytes>>> {
    static C: OnceLock<Mutex<HashMap<String, Option<Bytes>>>> = OnceLock::new();
    C.get_or_init(|| Mutex::new(HashMap::new()))
}

fn read_disk(path: &str) -> Option<Bytes> {
    let mut c = file_cache().lock().unwrap();
    if let Some(v) = c.get(path) {
        return v.clone();
    }
    let v = std::fs::read(path).ok().filter(|b| !b.is_empty()).map(|b| Bytes(Arc::new(b)));
    c.insert(path.to_string(), v.clone());
    v
}

struct RecHelper {
    module: ModuleSpec,
    abs_only: bool,
    /// virtual source tree: location path -> contents
    store: HashMap<String, Bytes>,
    log: Mutex<Vec<(Kind, String)>>,
}

impl RecHelper {
    fn new(module: ModuleSpec, abs_only: bool, store: HashMap<String, Bytes>) -> Self {
        RecHelper { module, abs_only, store, log: Mutex::new(Vec::new()) }
    }
    fn take_log(&self) -> Vec<(Kind, String)> {
        std::mem::take(&mut *self.log.lock().unwrap())
    }
    fn main_loc(&self) -> Option<Loc> {
        let path = match &self.module.kind {
            ModuleKind::Synth(_) => format!("synth:{}", self.module.debug_name),
            ModuleKind::Sym(_) => format!("mem:{}.sym", self.module.debug_name),
            ModuleKind::File(rel) => format!("{}/{}", fixtures_dir(), rel),
        };
        Some(Loc { kind: Kind::Debug, path, abs_only: self.abs_only })
    }
    /// the directory of the module's fixture: auxiliary files recorded with the original build
    /// machine's paths are looked for next to the fixture, by file name
    fn fixture_dir(&self) -> Option<String> {
        match &self.module.kind {
            ModuleKind::File(rel) => Some(dir_of(&format!("{}/{}", fixtures_dir(), rel)).to_string()),
            _ => None,
        }
    }
}

fn not_found(what: &str) -> Box<dyn std::error::Error + Send + Sync> {
    Box::new(std::io::Error::new(std::io::ErrorKind::NotFound, what.to_string()))
}

impl FileAndPathHelper for RecHelper {
    type F = Bytes;
    type FL = Loc;

    fn get_candidate_paths_for_debug_file(
        &self,
        info: &LibraryInfo,
    ) -> FileAndPathHelperResult<Vec<CandidatePathInfo<Loc>>> {
        if info.debug_name.as_deref() != Some(self.module.debug_name.as_str()) {
            return Ok(vec![]);
        }
        match &self.module.kind {
            ModuleKind::Synth(_) => Ok(vec![]),
            _ => Ok(self.main_loc().into_iter().map(CandidatePathInfo::SingleFile).collect()),
        }
    }
    fn get_candidate_paths_for_binary(
        &self,
        _info: &LibraryInfo,
    ) -> FileAndPathHelperResult<Vec<CandidatePathInfo<Loc>>> {
        Ok(vec![])
    }
    fn get_dyld_shared_cache_paths(&self, _arch: Option<&str>) -> FileAndPathHelperResult<Vec<Loc>> {
        Ok(vec![])
    }
    fn get_candidate_paths_for_gnu_debug_link_dest(
        &self,
        original: &Loc,
        debug_link_name: &str,
    ) -> FileAndPathHelperResult<Vec<Loc>> {
        Ok(vec![original.derived(Kind::DebugLink, format!("{}/{}", dir_of(&original.path), debug_link_name))])
    }
    fn get_candidate_paths_for_supplementary_debug_file(
        &self,
        original: &Loc,
        sup_path: &str,
        _id: &ElfBuildId,
    ) -> FileAndPathHelperResult<Vec<Loc>> {
        Ok(vec![original.derived(Kind::Supplementary, format!("{}/{}", dir_of(&original.path), base_of(sup_path)))])
    }
    fn load_file(
        &self,
        location: Loc,
    ) -> std::pin::Pin<Box<dyn OptionallySendFuture<Output = FileAndPathHelperResult<Bytes>> + '_>> {
        self.log.lock().unwrap().push((location.kind, location.path.clone()));
        let r: FileAndPathHelperResult<Bytes> = if location.kind == Kind::Source {
            // source files come from the virtual store only: nothing of the real file system
            self.store.get(&location.path).cloned().ok_or_else(|| not_found(&location.path))
        } else if let (true, ModuleKind::Sym(b)) = (location.path.starts_with("mem:"), &self.module.kind) {
            Ok(b.clone())
        } else {
            match read_disk(&location.path) {
                Some(b) => Ok(b),
                None => match self.fixture_dir() {
                    Some(d) => read_disk(&format!("{}/{}", d, base_of(&location.path)))
                        .ok_or_else(|| not_found(&location.path)),
                    None => Err(not_found(&location.path)),
                },
            }
        };
        Box::pin(async move { r })
    }
    fn get_symbol_map_for_library(
        &self,
        info: &LibraryInfo,
    ) -> Option<(Loc, Arc<dyn SymbolMapTrait + Send + Sync>)> {
        match &self.module.kind {
            ModuleKind::Synth(m)
                if info.debug_name.as_deref() == Some(self.module.debug_name.as_str())
                    && info.debug_id == Some(m.debug_id) =>
            {
                Some((self.main_loc()?, m.clone() as Arc<dyn SymbolMapTrait + Send + Sync>))
            }
            _ => None,
        }
    }
}

// ---------------------------------------------------------------------------------------------
// synthetic symbol map (frame tables given directly)
// ---------------------------------------------------------------------------------------------

type Frames = Vec<Option<SourceFilePath>>;

struct SynthFunc {
    start: u32,
    size: u32,
    /// (address, frames innermost first | None = symbol without debug info from here on)
    points: Vec<(u32, Option<Frames>)>,
}

struct SynthMap {
    debug_id: DebugId,
    funcs: Vec<SynthFunc>,
}

impl SymbolMapTrait for SynthMap {
    fn debug_id(&self) -> DebugId {
        self.debug_id
    }
    fn symbol_count(&self) -> usize {
        self.funcs.len()
    }
    fn iter_symbols(&self) -> Box<dyn Iterator<Item = (u32, Cow<'_, str>)> + '_> {
        Box::new(self.funcs.iter().map(|f| (f.start, Cow::Owned(format!("fn_{:x}", f.start)))))
    }
    fn lookup_sync(&self, address: LookupAddress) -> Option<SyncAddressInfo> {
        let a = match address {
            LookupAddress::Relative(a) => a,
            _ => return None,
        };
        let f = self.funcs.iter().find(|f| f.start <= a && (a as u64) < f.start as u64 + f.size as u64)?;
        let frames = f.points.iter().rev().find(|(pa, _)| *pa <= a).and_then(|(_, fr)| fr.clone());
        Some(SyncAddressInfo {
            symbol: SymbolInfo { address: f.start, size: Some(f.size), name: format!("fn_{:x}", f.start) },
            frames: frames.map(|fr| {
                let n = fr.len();
                FramesLookupResult::Available(
                    fr.into_iter()
                        .enumerate()
                        .map(|(i, fp)| FrameDebugInfo {
                            function: Some(if i + 1 == n { format!("fn_{:x}", f.start) } else { format!("inl_{i}") }),
                            file_path: fp,
                            line_number: Some(10 + i as u32),
                        })
                        .collect(),
                )
            }),
        })
    }
}

// ---------------------------------------------------------------------------------------------
// tokens
// ---------------------------------------------------------------------------------------------

fn hx(s: &str) -> String {
    hex(s.as_bytes())
}
fn unhx(s: &str) -> String {
    String::from_utf8_lossy(&unhex(s)).to_string()
}

fn frame_token(fp: &Option<SourceFilePath>) -> String {
    match fp {
        None => "~".to_string(),
        Some(fp) => {
            let raw = hx(fp.raw_path());
            match fp.mapped_path() {
                None => format!("{raw},n"),
                Some(MappedPath::Git { repo, path, rev }) => format!("{raw},g,{},{},{}", hx(repo), hx(path), hx(rev)),
                Some(MappedPath::Hg { repo, path, rev }) => format!("{raw},h,{},{},{}", hx(repo), hx(path), hx(rev)),
                Some(MappedPath::S3 { bucket, digest, path }) => {
                    format!("{raw},s,{},{},{}", hx(bucket), hx(digest), hx(path))
                }
                Some(MappedPath::Cargo { registry, crate_name, version, path }) => {
                    format!("{raw},c,{},{},{},{}", hx(registry), hx(crate_name), hx(version), hx(path))
                }
            }
        }
    }
}

fn parse_frame_token(t: &str) -> Option<Option<SourceFilePath>> {
    if t == "~" {
        return Some(None);
    }
    let w: Vec<&str> = t.split(',').collect();
    let raw = unhx(w.first()?);
    let mapped = match (w.get(1).copied()?, w.len()) {
        ("n", 2) => None,
        ("g", 5) => Some(MappedPath::Git { repo: unhx(w[2]), path: unhx(w[3]), rev: unhx(w[4]) }),
        ("h", 5) => Some(MappedPath::Hg { repo: unhx(w[2]), path: unhx(w[3]), rev: unhx(w[4]) }),
        ("s", 5) => Some(MappedPath::S3 { bucket: unhx(w[2]), digest: unhx(w[3]), path: unhx(w[4]) }),
        ("c", 6) => Some(MappedPath::Cargo {
            registry: unhx(w[2]),
            crate_name: unhx(w[3]),
            version: unhx(w[4]),
            path: unhx(w[5]),
        }),
        _ => return None,
    };
    Some(Some(SourceFilePath::new(raw, mapped)))
}

fn frames_token(fr: &Frames) -> String {
    fr.iter().map(frame_token).collect::<Vec<_>>().join("+")
}

/// synth payload: funcs joined by `;`, func = `<start>/<size>/<points joined by |>`,
/// point = `<addr>=<frames joined by +>` or `<addr>=!` (no debug info)
fn synth_payload(funcs: &[SynthFunc]) -> String {
    funcs
        .iter()
        .map(|f| {
            let pts: Vec<String> = f
                .points
                .iter()
                .map(|(a, fr)| match fr {
                    None => format!("{a}=!"),
                    Some(fr) if fr.is_empty() => format!("{a}=0"),
                    Some(fr) => format!("{a}={}", frames_token(fr)),
                })
                .collect();
            format!("{}/{}/{}", f.start, f.size, pts.join("|"))
        })
        .collect::<Vec<_>>()
        .join(";")
}

fn parse_synth_payload(p: &str) -> Option<Vec<SynthFunc>> {
    let mut funcs = Vec::new();
    for f in p.split(';').filter(|s| !s.is_empty()) {
        let w: Vec<&str> = f.splitn(3, '/').collect();
        if w.len() != 3 {
            return None;
        }
        let mut points = Vec::new();
        for pt in w[2].split('|').filter(|s| !s.is_empty()) {
            let (a, fr) = pt.split_once('=')?;
            let fr = match fr {
                "!" => None,
                "0" => Some(Vec::new()),
                _ => Some(fr.split('+').map(parse_frame_token).collect::<Option<Frames>>()?),
            };
            points.push((a.parse().ok()?, fr));
        }
        funcs.push(SynthFunc { start: w[0].parse().ok()?, size: w[1].parse().ok()?, points });
    }
    Some(funcs)
}

fn module_line(m: &ModuleSpec) -> String {
    match &m.kind {
        ModuleKind::Synth(s) => format!("module synth {} {} {}", m.debug_name, m.breakpad_id, synth_payload(&s.funcs)),
        ModuleKind::Sym(b) => format!("module sym {} {} {}", m.debug_name, m.breakpad_id, hex(b)),
        ModuleKind::File(rel) => format!("module file {} {} {}", m.debug_name, m.breakpad_id, rel),
    }
}

fn parse_module_line(l: &str) -> Option<ModuleSpec> {
    let w: Vec<&str> = l.split_whitespace().collect();
    if w.len() < 4 || w[0] != "module" {
        return None;
    }
    let payload = w.get(4).copied().unwrap_or("");
    let kind = match w[1] {
        "synth" => ModuleKind::Synth(Arc::new(SynthMap {
            debug_id: DebugId::from_breakpad(w[3]).ok()?,
            funcs: parse_synth_payload(payload)?,
        })),
        "sym" => ModuleKind::Sym(Bytes(Arc::new(unhex(payload)))),
        "file" => ModuleKind::File(payload.to_string()),
        _ => return None,
    };
    Some(ModuleSpec { kind, debug_name: w[2].to_string(), breakpad_id: w[3].to_string() })
}

// ---------------------------------------------------------------------------------------------
// oracle: direct lookup and /symbolicate/v5
// ---------------------------------------------------------------------------------------------

fn library_info(m: &ModuleSpec) -> Option<LibraryInfo> {
    Some(LibraryInfo {
        debug_name: Some(m.debug_name.clone()),
        debug_id: Some(DebugId::from_breakpad(&m.breakpad_id).ok()?),
        ..Default::default()
    })
}

/// `lookup <class> <frame>*` for each offset, through `SymbolManager::load_symbol_map` +
/// `SymbolMap::lookup` (the same two calls `/source/v1` makes)
fn direct_lookups(m: &ModuleSpec, offsets: &[u32]) -> Vec<(String, Frames)> {
    let sm = SymbolManager::with_helper(RecHelper::new(m.clone(), false, HashMap::new()));
    futures::executor::block_on(async {
        let map = match library_info(m) {
            Some(info) => sm.load_symbol_map(&info).await.ok(),
            None => None,
        };
        let mut out = Vec::new();
        for &o in offsets {
            let r = match &map {
                None => ("nosymbols".to_string(), Vec::new()),
                Some(map) => match map.lookup(LookupAddress::Relative(o)).await {
                    None => ("notfound".to_string(), Vec::new()),
                    Some(ai) => match ai.frames {
                        None => ("noframes".to_string(), Vec::new()),
                        Some(fr) => ("frames".to_string(), fr.into_iter().map(|f| f.file_path).collect()),
                    },
                },
            };
            out.push(r);
        }
        out
    })
}

fn lookup_line(class: &str, frames: &Frames) -> String {
    let mut s = format!("lookup {class}");
    for f in frames {
        s.push(' ');
        s.push_str(&frame_token(f));
    }
    s
}

/// `sym none` | `sym files <outer|~> <inline|~>*` from a real `/symbolicate/v5` request for the offset
fn symbolicate_line(m: &ModuleSpec, offset: u32) -> String {
    let sm = SymbolManager::with_helper(RecHelper::new(m.clone(), false, HashMap::new()));
    let api = samply_api::Api::new(&sm);
    let body = serde_json::json!({
        "memoryMap": [[m.debug_name, m.breakpad_id]],
        "stacks": [[[0, offset]]],
    })
    .to_string();
    // a helper-supplied symbol map that returns `Available(vec![])` (against the documented contract
    // "the last element is always the outer function") makes create_response panic: excluded point
    let resp = match std::panic::catch_unwind(std::panic::AssertUnwindSafe(|| {
        futures::executor::block_on(api.query_api("/symbolicate/v5", &body))
    })) {
        Ok(r) => r,
        Err(_) => return "sym panic".to_string(),
    };
    let v: serde_json::Value = serde_json::from_str(&resp).unwrap_or(serde_json::Value::Null);
    let fr = &v["results"][0]["stacks"][0][0];
    let obj = match fr.as_object() {
        Some(o) => o,
        None => return "sym none".to_string(),
    };
    if !obj.contains_key("file") && !obj.contains_key("inlines") && !obj.contains_key("line") {
        return "sym none".to_string();
    }
    let tok = |x: &serde_json::Value| x.as_str().map(hx).unwrap_or_else(|| "~".to_string());
    let mut s = format!("sym files {}", tok(&fr["file"]));
    if let Some(inl) = fr["inlines"].as_array() {
        for i in inl {
            s.push(' ');
            s.push_str(&tok(&i["file"]));
        }
    }
    s
}

// ---------------------------------------------------------------------------------------------
// generators
// ---------------------------------------------------------------------------------------------

const DIRS: [&str; 10] = [
    "/home/u/proj/src",
    "/builds/worker/checkouts/gecko/gfx",
    "/usr/include/c++/12/bits",
    "/rustc/9fc6b43126469e3858e2fe86cafb4f0fd5068869/library/core/src",
    "/Users/me/.cargo/registry/src/github.com-1ecc6299db9ec823/nom-7.1.3/src",
    "./csu/../csu",
    "src",
    "C:\\b\\s\\w\\ir\\cache",
    "/tmp/dir with space",
    "/x/y",
];
const BASES: [&str; 8] = ["main.rs", "lib.c", "util.h", "mod.rs", "a.cpp", "Ünï.rs", "x", "passwd"];

fn gen_plain_path(rng: &mut Rng) -> String {
    match rng.below(12) {
        0 => "/etc/passwd".to_string(),
        1 => rng.pick(&BASES).to_string(),
        _ => {
            let d = *rng.pick(&DIRS);
            let sep = if d.contains('\\') { "\\" } else { "/" };
            format!("{d}{sep}{}", rng.pick(&BASES))
        }
    }
}

fn gen_special_path(rng: &mut Rng) -> String {
    let rev = *rng.pick(&["997f00815e6b", "4dac2548d481", "v1.15", ""]);
    let p = *rng.pick(&["widget/cocoa/nsAppShell.mm", "library/std/src/rt.rs", "src/lib.rs", "a:b.c", "../../etc/passwd"]);
    match rng.below(4) {
        0 => format!("hg:hg.mozilla.org/mozilla-central:{p}:{rev}"),
        1 => format!("git:github.com/rust-lang/rust:{p}:{rev}"),
        2 => format!("s3:gecko-generated-sources:a5d3c1f7/{}:", p.replace(':', "_")),
        _ => format!("cargo:github.com-1ecc6299db9ec823:tokio-1.6.1:{p}"),
    }
}

fn gen_mapped(rng: &mut Rng) -> MappedPath {
    let p = rng.pick(&["src/lib.rs", "library/core/src/ptr/mod.rs", "ipc/ipdl/PBackgroundChild.cpp", "..", "a/../b"]).to_string();
    match rng.below(4) {
        0 => MappedPath::Git { repo: "github.com/rust-lang/rust".into(), path: p, rev: rng.pick(&["abc123", "", "v1"]).to_string() },
        1 => MappedPath::Hg { repo: "hg.mozilla.org/mozilla-central".into(), path: p, rev: "997f00815e6b".into() },
        2 => MappedPath::S3 { bucket: "gecko-generated-sources".into(), digest: "7a1db5dfd006".into(), path: p },
        _ => MappedPath::Cargo {
            registry: "github.com-1ecc6299db9ec823".into(),
            crate_name: rng.pick(&["nom", "proc-macro2"]).to_string(),
            version: "7.1.3".into(),
            path: p,
        },
    }
}

/// a pool of file paths for one synthetic module: plain ones, mapped ones (raw ≠ spelling), pairs that share
/// a spelling but differ in the raw path, a raw path that *is* another file's spelling, near-duplicates
fn gen_synth_pool(rng: &mut Rng) -> Vec<SourceFilePath> {
    let mut pool = Vec::new();
    let n = rng.range(2, 6);
    for _ in 0..n {
        match rng.below(10) {
            0..=4 => pool.push(SourceFilePath::new(gen_plain_path(rng), None)),
            5..=7 => pool.push(SourceFilePath::new(gen_plain_path(rng), Some(gen_mapped(rng)))),
            8 => {
                // same spelling, two raw paths
                let m = gen_mapped(rng);
                pool.push(SourceFilePath::new(gen_plain_path(rng), Some(m.clone())));
                pool.push(SourceFilePath::new(format!("{}.other", gen_plain_path(rng)), Some(m)));
            }
            _ => {
                // an unmapped file whose raw path is literally the spelling of a mapped one
                let m = gen_mapped(rng);
                pool.push(SourceFilePath::new(m.to_special_path_str(), None));
                pool.push(SourceFilePath::new(gen_plain_path(rng), Some(m)));
            }
        }
    }
    if rng.chance(1, 3) {
        // near-duplicates of an existing raw path
        let p = pool[0].raw_path().to_string();
        for v in [format!("{p}/"), format!("{p}.bak"), p.to_uppercase(), format!("/{p}")] {
            if rng.chance(1, 2) {
                pool.push(SourceFilePath::new(v, None));
            }
        }
    }
    pool
}

fn gen_frames(rng: &mut Rng, pool: &[SourceFilePath]) -> Frames {
    let n = match rng.below(10) {
        0 => 1,
        1..=5 => rng.range(1, 3),
        _ => rng.range(2, 6),
    };
    (0..n).map(|_| if rng.chance(1, 6) { None } else { Some(rng.pick(pool).clone()) }).collect()
}

fn gen_synth_module(rng: &mut Rng) -> ModuleSpec {
    let pool = gen_synth_pool(rng);
    let nf = rng.range(1, 3);
    let mut funcs = Vec::new();
    let mut addr = rng.range(0x100, 0x2000) as u32;
    for _ in 0..nf {
        let np = rng.range(1, 4);
        let mut points = Vec::new();
        let start = addr;
        if rng.chance(1, 5) {
            addr += rng.range(1, 8) as u32; // the first bytes have no point: frames None
        }
        for _ in 0..np {
            let fr = match rng.below(12) {
                0 => None,
                1 => Some(Vec::new()),
                _ => Some(gen_frames(rng, &pool)),
            };
            points.push((addr, fr));
            addr += rng.range(1, 16) as u32;
        }
        funcs.push(SynthFunc { start, size: addr - start, points });
        addr += rng.range(0, 32) as u32;
    }
    let id = format!("{:016X}{:016X}{:X}", rng.next_u64() | 1, rng.next_u64(), rng.below(16));
    ModuleSpec {
        debug_name: format!("synth{}.so", rng.below(100)),
        kind: ModuleKind::Synth(Arc::new(SynthMap { debug_id: DebugId::from_breakpad(&id).expect("id"), funcs })),
        breakpad_id: id,
    }
}

/// a generated Breakpad .sym text; returns the module and the addresses of all line-record starts
fn gen_sym_module(rng: &mut Rng) -> (ModuleSpec, Vec<u32>) {
    let id = format!("{:016X}{:016X}{:X}", rng.next_u64() | 1, rng.next_u64(), rng.below(16));
    let name = format!("gen{}.pdb", rng.below(100));
    let mut text = format!("MODULE windows x86_64 {id} {name}\nINFO GENERATOR verif\n");
    let nfiles = rng.range(1, 6) as u32;
    for i in 0..nfiles {
        let p = if rng.chance(2, 5) { gen_special_path(rng) } else { gen_plain_path(rng) };
        text.push_str(&format!("FILE {i} {p}\n"));
    }
    let norig = rng.range(1, 4) as u32;
    for i in 0..norig {
        text.push_str(&format!("INLINE_ORIGIN {i} inlined_{i}(int)\n"));
    }
    // file ids may point past the FILE table (frame without a file)
    let file_id = |rng: &mut Rng| if rng.chance(1, 10) { nfiles + 3 } else { rng.below(nfiles as u64) as u32 };
    let mut addr = rng.range(0x1000, 0x3000) as u32;
    let mut starts = Vec::new();
    let nfuncs = rng.range(1, 3);
    for k in 0..nfuncs {
        let nlines = rng.range(1, 5);
        let mut recs = Vec::new();
        let start = addr;
        for _ in 0..nlines {
            let sz = rng.range(1, 12) as u32;
            recs.push((addr, sz, rng.range(1, 900), file_id(rng)));
            starts.push(addr);
            addr += sz;
        }
        let size = addr - start;
        text.push_str(&format!("FUNC {start:x} {size:x} 0 func_{k}()\n"));
        // nested inline ranges: depth d+1 lies inside depth d
        let mut lo = start;
        let mut hi = addr;
        for depth in 0..rng.below(4) as u32 {
            if hi - lo < 2 {
                break;
            }
            let a = lo + rng.below((hi - lo) as u64 / 2 + 1) as u32;
            let s = rng.range(1, (hi - a) as u64) as u32;
            text.push_str(&format!(
                "INLINE {depth} {} {} {} {a:x} {s:x}\n",
                rng.range(1, 500),
                file_id(rng),
                rng.below(norig as u64)
            ));
            lo = a;
            hi = a + s;
        }
        for (a, s, l, f) in recs {
            text.push_str(&format!("{a:x} {s:x} {l} {f}\n"));
        }
        if rng.chance(1, 3) {
            text.push_str(&format!("PUBLIC {:x} 0 public_{k}\n", addr));
            addr += rng.range(4, 32) as u32;
        }
        addr += rng.range(0, 16) as u32;
    }
    (
        ModuleSpec { kind: ModuleKind::Sym(Bytes(Arc::new(text.into_bytes()))), debug_name: name, breakpad_id: id },
        starts,
    )
}

/// fixtures with debug info: (path under fixtures/, debugName)
const FIXTURES: [(&str, &str); 13] = [
    ("other/example-linux", "example-linux"),
    ("other/example-linux-fallback", "example-linux-fallback"),
    ("other/simple-example/out/with-dwo/main", "main"),
    ("other/simple-example/out/with-dwp/main", "main"),
    ("other/simple-example/out/regular-debuglink/main", "main"),
    ("other/simple-example/out/dwp-debuglink/main", "main"),
    ("other/simple-example/out/mac-dsym/main.dSYM/Contents/Resources/DWARF/main", "main"),
    ("other/simple-example/out/mac-oso/main", "main"),
    ("other/ls-linux/260a3e6e46db57abf718f6a3562c6eedccf269.debug", "ls"),
    ("android32-ci/libsoftokn3.so.dbg", "libsoftokn3.so"),
    ("android32-local/libsoftokn3.so", "libsoftokn3.so"),
    ("win64-ci/softokn3.pdb", "softokn3.pdb"),
    ("win64-ci/WriteArgument.pdb", "WriteArgument.pdb"),
];

struct FixtureInfo {
    module: ModuleSpec,
    /// offsets with debug-info frames and their file paths
    offsets: Vec<(u32, Frames)>,
    /// offsets inside a symbol but without frames, and offsets outside every symbol
    plain_offsets: Vec<u32>,
}

/// Discovery, once per process: debug id through `load_symbol_map_from_location`, then a scan of the
/// symbols for offsets with debug info.
fn fixtures() -> &'static Vec<FixtureInfo> {
    static F: OnceLock<Vec<FixtureInfo>> = OnceLock::new();
    F.get_or_init(|| {
        let mut out = Vec::new();
        for (rel, name) in FIXTURES {
            let probe = ModuleSpec { kind: ModuleKind::File(rel.to_string()), debug_name: name.to_string(), breakpad_id: String::new() };
            let helper = RecHelper::new(probe.clone(), false, HashMap::new());
            let loc = helper.main_loc().unwrap();
            let sm = SymbolManager::with_helper(helper);
            let found = futures::executor::block_on(async {
                let map = sm.load_symbol_map_from_location(loc, None).await.ok()?;
                let id = map.debug_id().breakpad().to_string();
                let mut syms: Vec<u32> = map.iter_symbols().map(|(a, _)| a).collect();
                syms.sort_unstable();
                syms.dedup();
                // spread over the whole table, at most 400 symbols, a few offsets into each
                let step = (syms.len() / 400).max(1);
                let mut offsets = Vec::new();
                let mut plain = Vec::new();
                for (i, &s) in syms.iter().enumerate() {
                    if i % step != 0 {
                        continue;
                    }
                    for d in [0u32, 4, 9, 20, 37] {
                        let o = s.wrapping_add(d);
                        match map.lookup(LookupAddress::Relative(o)).await {
                            Some(ai) => match ai.frames {
                                Some(fr) if fr.iter().any(|f| f.file_path.is_some()) => {
                                    offsets.push((o, fr.into_iter().map(|f| f.file_path).collect::<Frames>()))
                                }
                                _ => plain.push(o),
                            },
                            None => plain.push(o),
                        }
                    }
                }
                Some((id, offsets, plain))
            });
            if let Some((id, offsets, mut plain)) = found {
                plain.truncate(50);
                plain.push(0);
                plain.push(0xffff_fff0);
                out.push(FixtureInfo {
                    module: ModuleSpec { breakpad_id: id, ..probe },
                    offsets,
                    plain_offsets: plain,
                });
            }
        }
        out
    })
}

fn api_of(fp: &SourceFilePath) -> String {
    to_api_file_path(fp)
}

/// decorated variants of a permitted path
fn variants(rng: &mut Rng, p: &str) -> Vec<(String, &'static str)> {
    let mut v: Vec<(String, &'static str)> = Vec::new();
    let chars: Vec<char> = p.chars().collect();
    let n = chars.len();
    let sub = |a: usize, b: usize| chars[a..b].iter().collect::<String>();
    if n > 1 {
        v.push((sub(0, n - 1), "prefix"));
        v.push((sub(1, n), "suffix"));
        let k = 1 + rng.below(n as u64 - 1) as usize;
        v.push((sub(0, k), "prefix"));
        v.push((sub(k, n), "suffix"));
    }
    let d = dir_of(p);
    let b = base_of(p);
    if !d.is_empty() {
        v.push((d.to_string(), "prefix"));
        v.push((b.to_string(), "suffix"));
        v.push((format!("{d}/../{}/{b}", base_of(d)), "dotdot"));
        v.push((format!("{d}/x/../{b}"), "dotdot"));
        v.push((format!("{d}/./{b}"), "dotdot"));
        v.push((format!("{d}//{b}"), "slashes"));
        v.push((format!("{d}\\{b}"), "slashes"));
    }
    v.push((format!("{p}/../{b}"), "dotdot"));
    v.push((format!("{p}/.."), "dotdot"));
    v.push((format!("/../{p}"), "dotdot"));
    v.push((format!("./{p}"), "dotdot"));
    v.push((format!("{p}/"), "trailing"));
    v.push((format!("{p}/."), "trailing"));
    v.push((format!("{p} "), "trailing"));
    v.push((format!(" {p}"), "trailing"));
    v.push((format!("{p}\u{0}"), "trailing"));
    v.push((format!("{p}\n"), "trailing"));
    v.push((format!("/{p}"), "slashes"));
    v.push((p.replace('/', "//"), "slashes"));
    v.push((p.replace('/', "%2F"), "slashes"));
    v.push((p.to_uppercase(), "case"));
    v.push((p.to_lowercase(), "case"));
    {
        // flip the case of one letter
        let mut c = chars.clone();
        if let Some(i) = (0..n).rev().find(|&i| c[i].is_ascii_alphabetic()) {
            c[i] = if c[i].is_ascii_uppercase() { c[i].to_ascii_lowercase() } else { c[i].to_ascii_uppercase() };
            v.push((c.iter().collect(), "case"));
        }
    }
    if let Some((scheme, rest)) = p.split_once(':') {
        if ["hg", "git", "s3", "cargo"].contains(&scheme) {
            v.push((format!("{}:{rest}", scheme.to_uppercase()), "special"));
            v.push((rest.to_string(), "special"));
            v.push((format!("{p}:"), "special"));
            v.push((p.trim_end_matches(':').to_string(), "special"));
            if let Some(i) = p.rfind(':') {
                v.push((format!("{}:0000", &p[..i]), "special"));
                v.push((p[..i].to_string(), "special"));
            }
            let other = if scheme == "hg" { "git" } else { "hg" };
            v.push((format!("{other}:{rest}"), "special"));
        }
    }
    v.retain(|(s, _)| s != p);
    v
}

const ARBITRARY: [&str; 12] = [
    "/etc/passwd",
    "../../x",
    "",
    "/",
    ".",
    "..",
    "/proc/self/environ",
    "~/.ssh/id_rsa",
    "C:\\Windows\\win.ini",
    "file:///etc/passwd",
    "https://example.org/x.rs",
    "hg:hg.mozilla.org/mozilla-central:widget/x.mm:0",
];

fn sample<T: Clone>(rng: &mut Rng, xs: &mut Vec<T>, k: usize) -> Vec<T> {
    rng.shuffle(xs);
    xs.iter().take(k).cloned().collect()
}

/// ops of one case for `(module, offset)`; `others` = file paths of other offsets of the module
fn build_case(rng: &mut Rng, tier: Tier, m: &ModuleSpec, offset: u32, others: &[SourceFilePath]) -> Vec<String> {
    // sometimes ask for a build of the module that the helper does not have (first id digit flipped):
    // `load_symbol_map` fails, nothing may be read
    let wrong;
    let mut others: Vec<SourceFilePath> = others.to_vec();
    let m = if !matches!(m.kind, ModuleKind::Synth(_)) && rng.chance(1, 25) {
        // the files the right build has at this offset are requested too
        others.extend(direct_lookups(m, &[offset]).pop().unwrap().1.into_iter().flatten());
        let mut id: Vec<char> = m.breakpad_id.chars().collect();
        id[0] = if id[0] == '1' { '2' } else { '1' };
        wrong = ModuleSpec { breakpad_id: id.into_iter().collect(), ..m.clone() };
        &wrong
    } else {
        m
    };
    let others = &others[..];
    let (class, frames) = direct_lookups(m, &[offset]).pop().unwrap();
    let mut ops = vec![module_line(m), format!("offset {offset}"), lookup_line(&class, &frames), symbolicate_line(m, offset)];
    let own: Vec<SourceFilePath> = frames.iter().flatten().cloned().collect();

    // ---- requests
    let mut reqs: Vec<(String, String, &'static str)> = Vec::new(); // (op, file, tag)
    let mut push = |op: &str, f: String, tag: &'static str| reqs.push((op.to_string(), f, tag));
    // every file /symbolicate/v5 reported, every spelling and raw path of the offset's frames
    let sym = ops[3].clone();
    for t in sym.split_whitespace().skip(2) {
        if t != "~" {
            push("req", unhx(t), "reported");
        }
    }
    for fp in &own {
        let a = api_of(fp);
        push("req", a.clone(), "own-api");
        if a != fp.raw_path() {
            push("req", fp.raw_path().to_string(), "own-raw-differs");
        }
    }
    // files of other offsets of the same module
    let mut oth: Vec<SourceFilePath> = others.to_vec();
    for fp in sample(rng, &mut oth, 4) {
        push("req", api_of(&fp), "other-offset");
        if rng.chance(1, 2) {
            push("req", fp.raw_path().to_string(), "other-offset");
        }
    }
    // arbitrary paths
    let mut arb: Vec<&str> = ARBITRARY.to_vec();
    for a in sample(rng, &mut arb, 3) {
        push("req", a.to_string(), "arbitrary");
    }
    // decorated variants of permitted paths (spellings and raw paths)
    let mut bases: Vec<String> = own.iter().flat_map(|fp| [api_of(fp), fp.raw_path().to_string()]).collect();
    bases.sort();
    bases.dedup();
    let nvar = if tier == Tier::Thorough { 14 } else { 8 };
    let mut all_vars = Vec::new();
    for b in &bases {
        all_vars.extend(variants(rng, b));
    }
    for (f, tag) in sample(rng, &mut all_vars, nvar) {
        push("req", f, tag);
    }
    // malformed requests naming a permitted file
    if let Some(fp) = own.first() {
        if rng.chance(1, 3) {
            push("reqbadid", api_of(fp), "badid");
        }
        if rng.chance(1, 3) {
            push("reqmalformed", api_of(fp), "malformed");
        }
    }
    if own.is_empty() && rng.chance(1, 2) {
        push("reqbadid", "/etc/passwd".to_string(), "badid");
    }
    rng.shuffle(&mut reqs);

    // ---- helper: source store and location policy
    let abs_only = rng.chance(1, 4);
    let mut cand: BTreeSet<String> = BTreeSet::new();
    for fp in own.iter().chain(others.iter().take(6)) {
        cand.insert(fp.raw_path().to_string());
        // the spelling as a *location* too: loading the request string instead of the raw path would succeed
        cand.insert(api_of(fp));
    }
    for (_, f, _) in &reqs {
        cand.insert(f.clone());
    }
    cand.insert("/etc/passwd".to_string());
    let mut store = String::from(if abs_only { "store abs" } else { "store all" });
    let mut len = 100 + rng.below(50);
    for p in cand {
        // most files exist; some are missing (the load is attempted and fails)
        if rng.chance(5, 6) {
            len += 1 + rng.below(7);
            store.push_str(&format!(" {}:{}", hx(&p), len));
        }
    }
    ops.push(store);
    for (op, f, tag) in reqs {
        ops.push(format!("{op} {} {tag}", hx(&f)));
    }
    ops
}

fn all_paths(offs: &[(u32, Frames)], except: u32) -> Vec<SourceFilePath> {
    let mut v: Vec<SourceFilePath> = Vec::new();
    for (o, fr) in offs {
        if *o != except {
            for fp in fr.iter().flatten() {
                if !v.contains(fp) {
                    v.push(fp.clone());
                }
            }
        }
    }
    v
}

fn gen_case(rng: &mut Rng, tier: Tier, family: u64) -> Vec<String> {
    match family {
        // synthetic frame tables
        0 => {
            let m = gen_synth_module(rng);
            let funcs = match &m.kind {
                ModuleKind::Synth(s) => s.clone(),
                _ => unreachable!(),
            };
            let mut cands: Vec<u32> = Vec::new();
            for f in &funcs.funcs {
                for (a, _) in &f.points {
                    cands.push(*a);
                    cands.push(a + 1);
                }
                cands.push(f.start);
                cands.push(f.start + f.size); // one past the end
            }
            cands.push(0);
            let offset = if rng.chance(1, 12) { rng.below(0x4000) as u32 } else { *rng.pick(&cands) };
            let table: Vec<(u32, Frames)> = funcs
                .funcs
                .iter()
                .flat_map(|f| f.points.iter().filter_map(|(a, fr)| fr.clone().map(|fr| (*a, fr))))
                .collect();
            // "other offsets": every point whose frames differ from the queried one's
            let (_, own) = direct_lookups(&m, &[offset]).pop().unwrap();
            let others: Vec<SourceFilePath> = table
                .iter()
                .filter(|(_, fr)| *fr != own)
                .flat_map(|(_, fr)| fr.iter().flatten().cloned())
                .collect();
            build_case(rng, tier, &m, offset, &others)
        }
        // generated Breakpad file
        1 => {
            let (m, starts) = gen_sym_module(rng);
            let offset = match rng.below(12) {
                0 => rng.below(0x4000) as u32,
                1 => starts[0].wrapping_sub(1),
                _ => *rng.pick(&starts) + rng.below(2) as u32,
            };
            let looks = direct_lookups(&m, &starts);
            let table: Vec<(u32, Frames)> = starts.iter().cloned().zip(looks.into_iter().map(|(_, f)| f)).collect();
            let (_, own) = direct_lookups(&m, &[offset]).pop().unwrap();
            let others: Vec<SourceFilePath> = table
                .iter()
                .filter(|(_, fr)| *fr != own)
                .flat_map(|(_, fr)| fr.iter().flatten().cloned())
                .collect();
            build_case(rng, tier, &m, offset, &others)
        }
        // fixture
        _ => {
            let fx = fixtures();
            if fx.is_empty() {
                return gen_case(rng, tier, 0);
            }
            let f = rng.pick(fx);
            let offset = if rng.chance(1, 10) || f.offsets.is_empty() {
                *rng.pick(&f.plain_offsets)
            } else {
                rng.pick(&f.offsets).0
            };
            // other offsets: prefer neighbours (same function / same compilation unit) and a few random ones
            let idx = f.offsets.iter().position(|(o, _)| *o == offset).unwrap_or(0);
            let lo = idx.saturating_sub(6);
            let hi = (idx + 6).min(f.offsets.len());
            let mut near: Vec<(u32, Frames)> = f.offsets[lo..hi].to_vec();
            for _ in 0..4 {
                if !f.offsets.is_empty() {
                    near.push(rng.pick(&f.offsets).clone());
                }
            }
            let own: Vec<SourceFilePath> =
                f.offsets.iter().find(|(o, _)| *o == offset).map(|(_, fr)| fr.iter().flatten().cloned().collect()).unwrap_or_default();
            let others: Vec<SourceFilePath> = all_paths(&near, offset).into_iter().filter(|fp| !own.contains(fp)).collect();
            build_case(rng, tier, &f.module, offset, &others)
        }
    }
}

// ---------------------------------------------------------------------------------------------
// execution
// ---------------------------------------------------------------------------------------------

fn classify(resp: &str, requested: &str) -> String {
    let v: serde_json::Value = match serde_json::from_str(resp) {
        Ok(v) => v,
        Err(_) => return "err:not-json".to_string(),
    };
    if let Some(e) = v.get("error").and_then(|e| e.as_str()) {
        let k = if e.starts_with("Couldn't parse request") {
            "parse"
        } else if e.starts_with("Don't have any debug info") {
            "no-debug-info"
        } else if e.starts_with("The requested path is not present") {
            "invalid-path"
        } else if e.starts_with("An error occurred when reading the file") {
            "read-file"
        } else if let Some(inner) = e.strip_prefix("Could not obtain symbols for the requested library: ") {
            if inner.contains("does not support loading source files") {
                "refused-location"
            } else if inner.starts_with("open_file helper callback") || inner.starts_with("FileContents read_bytes_at") {
                "open-file"
            } else {
                "no-symbols"
            }
        } else {
            "other"
        };
        return format!("err:{k}");
    }
    match (v.get("source").and_then(|s| s.as_str()), v.get("file").and_then(|s| s.as_str())) {
        (Some(src), Some(f)) if f == requested => format!("ok:{}", src.len()),
        (Some(_), _) => "err:wrong-file-echoed".to_string(),
        _ => "err:unknown-response".to_string(),
    }
}

fn request_body(op: &str, m: &ModuleSpec, offset: u32, file: &str) -> String {
    let off = format!("0x{offset:x}");
    match op {
        "reqbadid" => {
            let bad = if file.len() % 2 == 0 { "00000000000000000000000000000000 0".replace(' ', "") } else { "not-an-id".to_string() };
            serde_json::json!({"debugName": m.debug_name, "debugId": bad, "moduleOffset": off, "file": file}).to_string()
        }
        "reqmalformed" => match file.len() % 3 {
            0 => serde_json::json!({"debugName": m.debug_name, "debugId": m.breakpad_id, "moduleOffset": offset, "file": file}).to_string(),
            1 => serde_json::json!({"debugName": m.debug_name, "moduleOffset": off, "file": file}).to_string(),
            _ => {
                let s = serde_json::json!({"debugName": m.debug_name, "debugId": m.breakpad_id, "moduleOffset": off, "file": file}).to_string();
                s[..s.len() - 1].to_string()
            }
        },
        _ => serde_json::json!({"debugName": m.debug_name, "debugId": m.breakpad_id, "moduleOffset": off, "file": file}).to_string(),
    }
}

pub struct C09;

impl Prop for C09 {
    fn id(&self) -> &'static str {
        "C09"
    }
    fn case_count(&self, tier: Tier) -> u64 {
        match tier {
            Tier::Quick => 1500,
            Tier::Thorough => 20000,
        }
    }
    fn fixed_cases(&self, tier: Tier) -> Vec<Case> {
        // every fixture with debug info, a spread of its offsets (deterministic seed per fixture)
        let per = if tier == Tier::Thorough { 40 } else { 6 };
        let mut v = Vec::new();
        for (i, f) in fixtures().iter().enumerate() {
            if f.offsets.is_empty() {
                continue;
            }
            for k in 0..per {
                let mut rng = Rng::for_case(0xC09, (i * 1000 + k) as u64);
                let (offset, own) = &f.offsets[(k * f.offsets.len()) / per];
                let own: Vec<SourceFilePath> = own.iter().flatten().cloned().collect();
                let idx = (k * f.offsets.len()) / per;
                let lo = idx.saturating_sub(8);
                let hi = (idx + 8).min(f.offsets.len());
                let others: Vec<SourceFilePath> =
                    all_paths(&f.offsets[lo..hi], *offset).into_iter().filter(|fp| !own.contains(fp)).collect();
                let ops = build_case(&mut rng, tier, &f.module, *offset, &others);
                v.push(Case { name: format!("fx{i}-{k}"), ops });
            }
        }
        v
    }
    fn generate(&self, rng: &mut Rng, tier: Tier, _index: u64) -> Vec<String> {
        let family = match rng.below(20) {
            0..=9 => 0,
            10..=16 => 1,
            _ => 2,
        };
        gen_case(rng, tier, family)
    }
    fn execute(&self, ops: &[String], stats: &mut Stats) -> Vec<String> {
        let mut out = Vec::new();
        if ops.len() < 5 {
            return vec!["bad-op".to_string()];
        }
        let m = match parse_module_line(&ops[0]) {
            Some(m) => m,
            None => return vec!["bad-op".to_string()],
        };
        let offset: u32 = ops[1].split_whitespace().nth(1).and_then(|s| s.parse().ok()).unwrap_or(0);
        stats.bump(&format!("module_{}", ops[0].split_whitespace().nth(1).unwrap_or("?")));
        if let ModuleKind::File(rel) = &m.kind {
            stats.bump(&format!("fixture_{rel}"));
        }

        // the oracle lines must still describe the real code (stale corpus / replay files show up here)
        let (class, frames) = direct_lookups(&m, &[offset]).pop().unwrap();
        if lookup_line(&class, &frames) != ops[2] || symbolicate_line(&m, offset) != ops[3] {
            out.push("oracle-mismatch".to_string());
            stats.bump("oracle_mismatch");
        }
        stats.bump(&format!("lookup_{class}"));

        // `api` line: the real to_api_file_path on the frames of the lookup line
        let lw: Vec<&str> = ops[2].split_whitespace().collect();
        let op_frames: Frames = lw.iter().skip(2).filter_map(|t| parse_frame_token(t)).collect();
        stats.bump(&format!("frames_{}", op_frames.len().min(6)));
        let mut api = String::from("api");
        let mut distinct = BTreeSet::new();
        for f in &op_frames {
            api.push(' ');
            match f {
                None => {
                    api.push('~');
                    stats.bump("frame_without_file");
                }
                Some(fp) => {
                    let a = to_api_file_path(fp);
                    distinct.insert(a.clone());
                    stats.bump(match fp.mapped_path() {
                        None => "path_unmapped",
                        Some(MappedPath::Git { .. }) => "path_git",
                        Some(MappedPath::Hg { .. }) => "path_hg",
                        Some(MappedPath::S3 { .. }) => "path_s3",
                        Some(MappedPath::Cargo { .. }) => "path_cargo",
                    });
                    if a != fp.raw_path() {
                        stats.bump("raw_differs_from_api");
                    }
                    api.push_str(&hx(&a));
                }
            }
        }
        let with_file = op_frames.iter().flatten().count();
        if with_file > distinct.len() {
            stats.bump("frames_sharing_a_file");
        }
        if distinct.len() > 1 {
            stats.bump("frames_with_several_files");
        }
        out.push(api);

        // helper for this case
        let sw: Vec<&str> = ops[4].split_whitespace().collect();
        let abs_only = sw.get(1) == Some(&"abs");
        stats.bump(if abs_only { "policy_abs" } else { "policy_all" });
        let mut store = HashMap::new();
        for t in sw.iter().skip(2) {
            if let Some((p, n)) = t.split_once(':') {
                let n: usize = n.parse().unwrap_or(0);
                store.insert(unhx(p), Bytes(Arc::new(vec![b'x'; n])));
            }
        }
        let sm = SymbolManager::with_helper(RecHelper::new(m.clone(), abs_only, store));
        let helper = sm.helper();
        let mut other_loads: BTreeMap<Kind, u64> = BTreeMap::new();
        for l in &ops[5..] {
            let w: Vec<&str> = l.split_whitespace().collect();
            if w.len() < 2 {
                out.push("bad-op".to_string());
                continue;
            }
            let file = unhx(w[1]);
            let body = request_body(w[0], &m, offset, &file);
            helper.take_log();
            let r = std::panic::catch_unwind(std::panic::AssertUnwindSafe(|| {
                futures::executor::block_on(samply_api::Api::new(&sm).query_api("/source/v1", &body))
            }));
            let log = helper.take_log();
            let mut line = match r {
                Ok(resp) => format!("r {}", classify(&resp, &file)),
                Err(_) => {
                    stats.bump("panics");
                    out.push("panic".to_string());
                    continue;
                }
            };
            let mut nsrc = 0;
            for (k, p) in log {
                if k == Kind::Source {
                    line.push(' ');
                    line.push_str(&hx(&p));
                    nsrc += 1;
                } else {
                    *other_loads.entry(k).or_insert(0) += 1;
                }
            }
            stats.bump(&format!("req_{}", w.get(2).copied().unwrap_or(w[0])));
            let cls = line.split_whitespace().nth(1).unwrap_or("?");
            stats.bump(&format!("resp_{}", if cls.starts_with("ok:") { "ok" } else { cls }));
            stats.bump(&format!("source_loads_{nsrc}"));
            out.push(line);
        }
        for (k, n) in other_loads {
            stats.add(&format!("non_source_loads_{k:?}"), n);
        }
        out
    }
    fn nontrivial(&self, _ops: &[String], out: &[String]) -> bool {
        // at least one request read a source file and at least one was refused
        out.iter().any(|l| l.starts_with("r ") && l.split_whitespace().count() > 2)
            && out.iter().any(|l| l.starts_with("r err:invalid-path"))
    }
}

fn main() {
    if std::env::var("C09_PROBE").is_ok() {
        for f in fixtures() {
            let rel = match &f.module.kind {
                ModuleKind::File(r) => r.clone(),
                _ => String::new(),
            };
            let differs = f.offsets.iter().flat_map(|(_, fr)| fr.iter().flatten()).filter(|fp| api_of(fp) != fp.raw_path()).count();
            let multi = f.offsets.iter().filter(|(_, fr)| fr.len() > 1).count();
            println!("{rel} id={} offsets_with_files={} inlined={} raw!=api={} plain={}", f.module.breakpad_id, f.offsets.len(), multi, differs, f.plain_offsets.len());
            if let Some((o, fr)) = f.offsets.iter().find(|(_, fr)| fr.iter().flatten().any(|fp| api_of(fp) != fp.raw_path())) {
                for fp in fr.iter().flatten() {
                    println!("   {o:#x} raw={} api={}", fp.raw_path(), api_of(fp));
                }
            }
        }
        return;
    }
    verif_harness::runner::run_main(&C09);
}
