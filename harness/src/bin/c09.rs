//! C09 — `/source/v1` only ever reads files named by the debug info of the queried address.
//!
//! Drives the real `samply_api::Api::query_api("/source/v1", body)` in-process over a **recording
//! helper**: its `FileLocation` type remembers which `location_for_*` constructor made it, on which
//! location (the receiver) it was called and whether that one is local or remote, and `load_file`
//! records every load, so the ordered list of *source-file* loads during one request is observable
//! together with the receiver of `location_for_source_file`. One case = ONE `SymbolManager` serving
//! one library: a batched `/symbolicate/v5` request for all offsets of the case and their neighbours,
//! then `/source/v1` requests for 1-4 offsets, interleaved. Modules are served three ways:
//!   * `synth`  a helper-supplied `SymbolMapTrait` (the `get_symbol_map_for_library` hook) whose frame
//!              tables are generated: arbitrary raw paths / mapped paths / missing files per frame;
//!   * `sym`    a generated Breakpad `.sym` text with FILE / FUNC / INLINE / line records, parsed by the
//!              real Breakpad code (plain, `hg:` `git:` `s3:` `cargo:` spellings);
//!   * `file`   fixtures of the repository with DWARF / dwo / dwp / debuglink / dSYM / OSO / PDB debug info
//!              and `corpus/C09/fixtures/rustdemo` (DWARF with `/rustc/` and cargo-registry paths).
//! The helper offers 1-3 debug-file candidates (local / remote; the library, another build, nothing,
//! garbage); the oracle lines are computed per candidate with `load_symbol_map_from_location` and a
//! direct `SymbolMap::lookup` on a fresh symbol map.
//!
//! ops / out: see `lean/SamplyModel/Iface/C09.lean`.
use std::borrow::Cow;
use std::collections::{BTreeMap, BTreeSet, HashMap};
use std::ops::Deref;
use std::sync::{Arc, Mutex, OnceLock};

use samply_symbols::debugid::DebugId;
use samply_symbols::{
    CandidatePathInfo, ElfBuildId, FileAndPathHelper, FileAndPathHelperResult, FileLocation,
    FrameDebugInfo, FramesLookupResult, LibraryInfo, LookupAddress, MappedPath,
    MultiArchDisambiguator, OptionallySendFuture, SourceFilePath, SymbolInfo, SymbolManager,
    SymbolMapTrait, SyncAddressInfo,
};
use verif_harness::common::*;

/// the real spelling function (private module of samply-api, no dependencies besides samply-symbols)
#[allow(dead_code)]
#[path = "../../../repo-link/samply-api/src/api_file_path.rs"]
mod api_file_path;
use api_file_path::to_api_file_path;

// ---------------------------------------------------------------------------------------------
// recording helper
// ---------------------------------------------------------------------------------------------

#[derive(Clone, Copy, Debug, PartialEq, Eq, Hash, PartialOrd, Ord)]
enum Kind {
    Debug,
    Source,
    Dwo,
    Dwp,
    ExtObj,
    Subcache,
    DebugLink,
    Supplementary,
}

/// how `location_for_source_file` answers
#[derive(Clone, Copy, Debug, PartialEq, Eq)]
enum Policy {
    All,
    Abs,
    /// transcription of `wholesym/src/helper.rs:92-125` (`WholesymFileLocation` is not exported):
    /// a remote receiver makes no location; `http(s)://` raw paths become URLs; absolute raw paths are
    /// taken as they are; relative ones are joined to the directory of the receiver
    Wholesym,
}

impl Policy {
    fn name(self) -> &'static str {
        match self {
            Policy::All => "all",
            Policy::Abs => "abs",
            Policy::Wholesym => "wholesym",
        }
    }
    fn parse(s: &str) -> Option<Policy> {
        match s {
            "all" => Some(Policy::All),
            "abs" => Some(Policy::Abs),
            "wholesym" => Some(Policy::Wholesym),
            _ => None,
        }
    }
}

/// A location remembers which constructor made it, whether it descends from a local or a remote
/// candidate and — for source files — the path of the location it was derived from.
#[derive(Clone, Debug)]
struct Loc {
    kind: Kind,
    path: String,
    remote: bool,
    policy: Policy,
    base: Option<String>,
}

impl std::fmt::Display for Loc {
    fn fmt(&self, f: &mut std::fmt::Formatter<'_>) -> std::fmt::Result {
        self.path.fmt(f)
    }
}

impl Loc {
    fn debug(path: String, remote: bool, policy: Policy) -> Loc {
        Loc { kind: Kind::Debug, path, remote, policy, base: None }
    }
    fn derived(&self, kind: Kind, path: String) -> Loc {
        Loc { kind, path, remote: self.remote, policy: self.policy, base: None }
    }
    fn source(&self, path: String) -> Loc {
        Loc { kind: Kind::Source, path, remote: self.remote, policy: self.policy, base: Some(self.path.clone()) }
    }
}

fn dir_of(p: &str) -> &str {
    match p.rfind('/') {
        Some(i) => &p[..i],
        None => "",
    }
}
fn base_of(p: &str) -> &str {
    match p.rfind('/') {
        Some(i) => &p[i + 1..],
        None => p,
    }
}

impl FileLocation for Loc {
    fn location_for_dyld_subcache(&self, suffix: &str) -> Option<Self> {
        Some(self.derived(Kind::Subcache, format!("{}{}", self.path, suffix)))
    }
    fn location_for_external_object_file(&self, object_file: &str) -> Option<Self> {
        Some(self.derived(Kind::ExtObj, object_file.to_string()))
    }
    fn location_for_pdb_from_binary(&self, _pdb_path_in_binary: &str) -> Option<Self> {
        None
    }
    fn location_for_source_file(&self, source_file_path: &str) -> Option<Self> {
        match self.policy {
            Policy::All => Some(self.source(source_file_path.to_string())),
            Policy::Abs => {
                if source_file_path.starts_with('/') {
                    Some(self.source(source_file_path.to_string()))
                } else {
                    None
                }
            }
            Policy::Wholesym => {
                use std::path::Path;
                if self.remote {
                    return None; // helper.rs:119-127
                }
                if source_file_path.starts_with("https://") || source_file_path.starts_with("http://") {
                    return Some(self.source(format!("url:{source_file_path}"))); // helper.rs:95-108
                }
                let p = Path::new(source_file_path);
                if p.is_absolute() {
                    Some(self.source(source_file_path.to_string())) // helper.rs:110-111
                } else {
                    // helper.rs:112-117
                    Path::new(&self.path).parent().map(|b| self.source(b.join(p).to_string_lossy().to_string()))
                }
            }
        }
    }
    fn location_for_breakpad_symindex(&self) -> Option<Self> {
        None
    }
    fn location_for_dwo(&self, comp_dir: &str, path: &str) -> Option<Self> {
        let p = if path.starts_with('/') { path.to_string() } else { format!("{comp_dir}/{path}") };
        Some(self.derived(Kind::Dwo, p))
    }
    fn location_for_dwp(&self) -> Option<Self> {
        Some(self.derived(Kind::Dwp, format!("{}.dwp", self.path)))
    }
}

#[derive(Clone)]
struct Bytes(Arc<Vec<u8>>);
impl Deref for Bytes {
    type Target = [u8];
    fn deref(&self) -> &[u8] {
        &self.0
    }
}

#[derive(Clone)]
enum ModuleKind {
    Synth(Arc<SynthMap>),
    Sym(Bytes),
    /// path relative to `<repo>/fixtures`, or `corpus:<file>` = `<verif>/corpus/C09/fixtures/<file>`
    File(String),
}

#[derive(Clone)]
struct ModuleSpec {
    kind: ModuleKind,
    debug_name: String,
    breakpad_id: String,
}

/// what the helper serves at a candidate's path
#[derive(Clone, Copy, Debug, PartialEq, Eq)]
enum Content {
    Ok,
    Other,
    Absent,
    Junk,
}

impl Content {
    fn name(self) -> &'static str {
        match self {
            Content::Ok => "ok",
            Content::Other => "other",
            Content::Absent => "absent",
            Content::Junk => "junk",
        }
    }
    fn parse(s: &str) -> Option<Content> {
        match s {
            "ok" => Some(Content::Ok),
            "other" => Some(Content::Other),
            "absent" => Some(Content::Absent),
            "junk" => Some(Content::Junk),
            _ => None,
        }
    }
}

#[derive(Clone, Debug)]
struct Cand {
    remote: bool,
    path: String,
    content: Content,
}

/// the helper's configuration of one case
#[derive(Clone)]
struct HelperCfg {
    direct: bool,
    cands: Vec<Cand>,
    policy: Policy,
    aux: bool,
}

impl HelperCfg {
    fn single(path: String) -> HelperCfg {
        HelperCfg { direct: false, cands: vec![Cand { remote: false, path, content: Content::Ok }], policy: Policy::All, aux: true }
    }
    fn line(&self) -> String {
        let mut s = format!("helper {}", if self.direct { "d" } else { "c" });
        for c in &self.cands {
            s.push_str(&format!(" {},{},{}", if c.remote { "r" } else { "l" }, hx(&c.path), c.content.name()));
        }
        s
    }
    fn parse(l: &str) -> Option<(bool, Vec<Cand>)> {
        let w: Vec<&str> = l.split_whitespace().collect();
        if w.len() < 2 || w[0] != "helper" {
            return None;
        }
        let mut cands = Vec::new();
        for t in &w[2..] {
            let p: Vec<&str> = t.split(',').collect();
            if p.len() != 3 {
                return None;
            }
            cands.push(Cand { remote: p[0] == "r", path: unhx(p[1]), content: Content::parse(p[2])? });
        }
        Some((w[1] == "d", cands))
    }
}

fn repo_dir() -> String {
    std::env::var("VERIF_REPO").unwrap_or_else(|_| concat!(env!("CARGO_MANIFEST_DIR"), "/../repo-link").to_string())
}
fn fixtures_dir() -> String {
    format!("{}/fixtures", repo_dir())
}
fn corpus_fixtures_dir() -> String {
    let root = std::env::var("VERIF_ROOT").unwrap_or_else(|_| concat!(env!("CARGO_MANIFEST_DIR"), "/..").to_string());
    format!("{root}/corpus/C09/fixtures")
}
/// where a `file` module really lives on disk
fn real_path(rel: &str) -> String {
    match rel.strip_prefix("corpus:") {
        Some(f) => format!("{}/{}", corpus_fixtures_dir(), f),
        None => format!("{}/{}", fixtures_dir(), rel),
    }
}

fn file_cache() -> &'static Mutex<HashMap<String, Option<Bytes>>> {
    static C: OnceLock<Mutex<HashMap<String, Option<Bytes>>>> = OnceLock::new();
    C.get_or_init(|| Mutex::new(HashMap::new()))
}

fn read_disk(path: &str) -> Option<Bytes> {
    let mut c = file_cache().lock().unwrap();
    if let Some(v) = c.get(path) {
        return v.clone();
    }
    let v = std::fs::read(path).ok().filter(|b| !b.is_empty()).map(|b| Bytes(Arc::new(b)));
    c.insert(path.to_string(), v.clone());
    v
}

struct RecHelper {
    module: ModuleSpec,
    cfg: HelperCfg,
    /// virtual source tree: location path -> contents
    store: HashMap<String, Bytes>,
    log: Mutex<Vec<Loc>>,
}

impl RecHelper {
    fn new(module: ModuleSpec, cfg: HelperCfg, store: HashMap<String, Bytes>) -> Self {
        RecHelper { module, cfg, store, log: Mutex::new(Vec::new()) }
    }
    fn take_log(&self) -> Vec<Loc> {
        std::mem::take(&mut *self.log.lock().unwrap())
    }
    fn cand_loc(&self, i: usize) -> Loc {
        let c = &self.cfg.cands[i];
        Loc::debug(c.path.clone(), c.remote, self.cfg.policy)
    }
    /// the directory of the module's fixture: auxiliary files recorded with the original build
    /// machine's paths are looked for next to the fixture, by file name
    fn fixture_dir(&self) -> Option<String> {
        match &self.module.kind {
            ModuleKind::File(rel) => Some(dir_of(&real_path(rel)).to_string()),
            _ => None,
        }
    }
    /// the bytes served for a debug-file candidate
    fn cand_bytes(&self, c: &Cand) -> Option<Bytes> {
        match c.content {
            Content::Absent => None,
            Content::Junk => Some(Bytes(Arc::new(b"this is not a symbol file\n\0\x01\x02junk".repeat(8)))),
            Content::Ok => match &self.module.kind {
                ModuleKind::Sym(b) => Some(b.clone()),
                ModuleKind::File(rel) => read_disk(&real_path(rel)),
                ModuleKind::Synth(_) => None,
            },
            Content::Other => match &self.module.kind {
                // another build of the same library: same text, different id
                ModuleKind::Sym(b) => {
                    let text = String::from_utf8_lossy(b).to_string();
                    let mut id: Vec<char> = self.module.breakpad_id.chars().collect();
                    id[1] = if id[1] == 'A' { 'B' } else { 'A' };
                    let id: String = id.into_iter().collect();
                    Some(Bytes(Arc::new(text.replacen(&self.module.breakpad_id, &id, 1).into_bytes())))
                }
                ModuleKind::File(rel) => {
                    let other = if rel.contains("example-linux") { "other/ls-linux/260a3e6e46db57abf718f6a3562c6eedccf269.debug" } else { "other/example-linux" };
                    read_disk(&real_path(other))
                }
                ModuleKind::Synth(_) => None,
            },
        }
    }
}

fn not_found(what: &str) -> Box<dyn std::error::Error + Send + Sync> {
    Box::new(std::io::Error::new(std::io::ErrorKind::NotFound, what.to_string()))
}

impl FileAndPathHelper for RecHelper {
    type F = Bytes;
    type FL = Loc;

    fn get_candidate_paths_for_debug_file(
        &self,
        info: &LibraryInfo,
    ) -> FileAndPathHelperResult<Vec<CandidatePathInfo<Loc>>> {
        if info.debug_name.as_deref() != Some(self.module.debug_name.as_str()) || self.cfg.direct {
            return Ok(vec![]);
        }
        Ok((0..self.cfg.cands.len()).map(|i| CandidatePathInfo::SingleFile(self.cand_loc(i))).collect())
    }
    fn get_candidate_paths_for_binary(
        &self,
        _info: &LibraryInfo,
    ) -> FileAndPathHelperResult<Vec<CandidatePathInfo<Loc>>> {
        Ok(vec![])
    }
    fn get_dyld_shared_cache_paths(&self, _arch: Option<&str>) -> FileAndPathHelperResult<Vec<Loc>> {
        Ok(vec![])
    }
    fn get_candidate_paths_for_gnu_debug_link_dest(
        &self,
        original: &Loc,
        debug_link_name: &str,
    ) -> FileAndPathHelperResult<Vec<Loc>> {
        Ok(vec![original.derived(Kind::DebugLink, format!("{}/{}", dir_of(&original.path), debug_link_name))])
    }
    fn get_candidate_paths_for_supplementary_debug_file(
        &self,
        original: &Loc,
        sup_path: &str,
        _id: &ElfBuildId,
    ) -> FileAndPathHelperResult<Vec<Loc>> {
        Ok(vec![original.derived(Kind::Supplementary, format!("{}/{}", dir_of(&original.path), base_of(sup_path)))])
    }
    fn load_file(
        &self,
        location: Loc,
    ) -> std::pin::Pin<Box<dyn OptionallySendFuture<Output = FileAndPathHelperResult<Bytes>> + '_>> {
        self.log.lock().unwrap().push(location.clone());
        let r: FileAndPathHelperResult<Bytes> = match location.kind {
            // source files come from the virtual store only: nothing of the real file system
            Kind::Source => self.store.get(&location.path).cloned().ok_or_else(|| not_found(&location.path)),
            // debug-file candidates: what the case says is there
            Kind::Debug => match self.cfg.cands.iter().find(|c| c.path == location.path) {
                Some(c) => self.cand_bytes(c).ok_or_else(|| not_found(&location.path)),
                None => Err(not_found(&location.path)),
            },
            Kind::Dwo | Kind::Dwp | Kind::ExtObj if !self.cfg.aux => Err(not_found(&location.path)),
            // auxiliary files: from disk, by name next to the fixture
            _ => match read_disk(&location.path) {
                Some(b) => Ok(b),
                None => match self.fixture_dir() {
                    Some(d) => read_disk(&format!("{}/{}", d, base_of(&location.path)))
                        .ok_or_else(|| not_found(&location.path)),
                    None => Err(not_found(&location.path)),
                },
            },
        };
        Box::pin(async move { r })
    }
    fn get_symbol_map_for_library(
        &self,
        info: &LibraryInfo,
    ) -> Option<(Loc, Arc<dyn SymbolMapTrait + Send + Sync>)> {
        match &self.module.kind {
            ModuleKind::Synth(m)
                if self.cfg.direct
                    && !self.cfg.cands.is_empty()
                    && info.debug_name.as_deref() == Some(self.module.debug_name.as_str())
                    && info.debug_id == Some(m.debug_id) =>
            {
                Some((self.cand_loc(0), m.clone() as Arc<dyn SymbolMapTrait + Send + Sync>))
            }
            _ => None,
        }
    }
}

// ---------------------------------------------------------------------------------------------
// synthetic symbol map (frame tables given directly)
// ---------------------------------------------------------------------------------------------

type Frames = Vec<Option<SourceFilePath>>;

struct SynthFunc {
    start: u32,
    size: u32,
    /// (address, frames innermost first | None = symbol without debug info from here on)
    points: Vec<(u32, Option<Frames>)>,
}

struct SynthMap {
    debug_id: DebugId,
    funcs: Vec<SynthFunc>,
}

impl SymbolMapTrait for SynthMap {
    fn debug_id(&self) -> DebugId {
        self.debug_id
    }
    fn symbol_count(&self) -> usize {
        self.funcs.len()
    }
    fn iter_symbols(&self) -> Box<dyn Iterator<Item = (u32, Cow<'_, str>)> + '_> {
        Box::new(self.funcs.iter().map(|f| (f.start, Cow::Owned(format!("fn_{:x}", f.start)))))
    }
    fn lookup_sync(&self, address: LookupAddress) -> Option<SyncAddressInfo> {
        let a = match address {
            LookupAddress::Relative(a) => a,
            _ => return None,
        };
        let f = self.funcs.iter().find(|f| f.start <= a && (a as u64) < f.start as u64 + f.size as u64)?;
        let frames = f.points.iter().rev().find(|(pa, _)| *pa <= a).and_then(|(_, fr)| fr.clone());
        Some(SyncAddressInfo {
            symbol: SymbolInfo { address: f.start, size: Some(f.size), name: format!("fn_{:x}", f.start) },
            frames: frames.map(|fr| {
                let n = fr.len();
                FramesLookupResult::Available(
                    fr.into_iter()
                        .enumerate()
                        .map(|(i, fp)| FrameDebugInfo {
                            function: Some(if i + 1 == n { format!("fn_{:x}", f.start) } else { format!("inl_{i}") }),
                            file_path: fp,
                            line_number: Some(10 + i as u32),
                        })
                        .collect(),
                )
            }),
        })
    }
}

// ---------------------------------------------------------------------------------------------
// tokens
// ---------------------------------------------------------------------------------------------

fn hx(s: &str) -> String {
    hex(s.as_bytes())
}
fn unhx(s: &str) -> String {
    String::from_utf8_lossy(&unhex(s)).to_string()
}

fn frame_token(fp: &Option<SourceFilePath>) -> String {
    match fp {
        None => "~".to_string(),
        Some(fp) => {
            let raw = hx(fp.raw_path());
            match fp.mapped_path() {
                None => format!("{raw},n"),
                Some(MappedPath::Git { repo, path, rev }) => format!("{raw},g,{},{},{}", hx(repo), hx(path), hx(rev)),
                Some(MappedPath::Hg { repo, path, rev }) => format!("{raw},h,{},{},{}", hx(repo), hx(path), hx(rev)),
                Some(MappedPath::S3 { bucket, digest, path }) => {
                    format!("{raw},s,{},{},{}", hx(bucket), hx(digest), hx(path))
                }
                Some(MappedPath::Cargo { registry, crate_name, version, path }) => {
                    format!("{raw},c,{},{},{},{}", hx(registry), hx(crate_name), hx(version), hx(path))
                }
            }
        }
    }
}

fn parse_frame_token(t: &str) -> Option<Option<SourceFilePath>> {
    if t == "~" {
        return Some(None);
    }
    let w: Vec<&str> = t.split(',').collect();
    let raw = unhx(w.first()?);
    let mapped = match (w.get(1).copied()?, w.len()) {
        ("n", 2) => None,
        ("g", 5) => Some(MappedPath::Git { repo: unhx(w[2]), path: unhx(w[3]), rev: unhx(w[4]) }),
        ("h", 5) => Some(MappedPath::Hg { repo: unhx(w[2]), path: unhx(w[3]), rev: unhx(w[4]) }),
        ("s", 5) => Some(MappedPath::S3 { bucket: unhx(w[2]), digest: unhx(w[3]), path: unhx(w[4]) }),
        ("c", 6) => Some(MappedPath::Cargo {
            registry: unhx(w[2]),
            crate_name: unhx(w[3]),
            version: unhx(w[4]),
            path: unhx(w[5]),
        }),
        _ => return None,
    };
    Some(Some(SourceFilePath::new(raw, mapped)))
}

fn frames_token(fr: &Frames) -> String {
    fr.iter().map(frame_token).collect::<Vec<_>>().join("+")
}

/// synth payload: funcs joined by `;`, func = `<start>/<size>/<points joined by |>`,
/// point = `<addr>=<frames joined by +>` or `<addr>=!` (no debug info)
fn synth_payload(funcs: &[SynthFunc]) -> String {
    funcs
        .iter()
        .map(|f| {
            let pts: Vec<String> = f
                .points
                .iter()
                .map(|(a, fr)| match fr {
                    None => format!("{a}=!"),
                    Some(fr) if fr.is_empty() => format!("{a}=0"),
                    Some(fr) => format!("{a}={}", frames_token(fr)),
                })
                .collect();
            format!("{}/{}/{}", f.start, f.size, pts.join("|"))
        })
        .collect::<Vec<_>>()
        .join(";")
}

fn parse_synth_payload(p: &str) -> Option<Vec<SynthFunc>> {
    let mut funcs = Vec::new();
    for f in p.split(';').filter(|s| !s.is_empty()) {
        let w: Vec<&str> = f.splitn(3, '/').collect();
        if w.len() != 3 {
            return None;
        }
        let mut points = Vec::new();
        for pt in w[2].split('|').filter(|s| !s.is_empty()) {
            let (a, fr) = pt.split_once('=')?;
            let fr = match fr {
                "!" => None,
                "0" => Some(Vec::new()),
                _ => Some(fr.split('+').map(parse_frame_token).collect::<Option<Frames>>()?),
            };
            points.push((a.parse().ok()?, fr));
        }
        funcs.push(SynthFunc { start: w[0].parse().ok()?, size: w[1].parse().ok()?, points });
    }
    Some(funcs)
}

fn module_line(m: &ModuleSpec) -> String {
    match &m.kind {
        ModuleKind::Synth(s) => format!("module synth {} {} {}", m.debug_name, m.breakpad_id, synth_payload(&s.funcs)),
        ModuleKind::Sym(b) => format!("module sym {} {} {}", m.debug_name, m.breakpad_id, hex(b)),
        ModuleKind::File(rel) => format!("module file {} {} {}", m.debug_name, m.breakpad_id, rel),
    }
}

fn parse_module_line(l: &str) -> Option<ModuleSpec> {
    let w: Vec<&str> = l.split_whitespace().collect();
    if w.len() < 4 || w[0] != "module" {
        return None;
    }
    let payload = w.get(4).copied().unwrap_or("");
    let kind = match w[1] {
        "synth" => ModuleKind::Synth(Arc::new(SynthMap {
            debug_id: DebugId::from_breakpad(w[3]).ok()?,
            funcs: parse_synth_payload(payload)?,
        })),
        "sym" => ModuleKind::Sym(Bytes(Arc::new(unhex(payload)))),
        "file" => ModuleKind::File(payload.to_string()),
        _ => return None,
    };
    Some(ModuleSpec { kind, debug_name: w[2].to_string(), breakpad_id: w[3].to_string() })
}

// ---------------------------------------------------------------------------------------------
// oracle: per-candidate load, direct lookup on a fresh symbol map, batched /symbolicate/v5
// ---------------------------------------------------------------------------------------------

fn library_info(m: &ModuleSpec) -> Option<LibraryInfo> {
    Some(LibraryInfo {
        debug_name: Some(m.debug_name.clone()),
        debug_id: Some(DebugId::from_breakpad(&m.breakpad_id).ok()?),
        ..Default::default()
    })
}

fn tag(remote: bool) -> &'static str {
    if remote {
        "r"
    } else {
        "l"
    }
}

/// `loaded <res>*`: every candidate alone through `load_symbol_map_from_location` (with the disambiguator
/// `load_symbol_map` passes, lib.rs:334-339): `e` or `<breakpadId>,<tag>,<debug_file_location path>`.
/// Not through `load_symbol_map`: its candidate loop is what the model describes.
/// every non-source load of the oracle runs: the auxiliary files that belong to the library
type Legit = BTreeSet<(Kind, String)>;

fn note_loads(h: &RecHelper, legit: &mut Legit) {
    for l in h.take_log() {
        if l.kind != Kind::Source {
            legit.insert((l.kind, l.path));
        }
    }
}

fn loaded_line(m: &ModuleSpec, cfg: &HelperCfg) -> String {
    loaded_line_noting(m, cfg, &mut Legit::new())
}

fn loaded_line_noting(m: &ModuleSpec, cfg: &HelperCfg, legit: &mut Legit) -> String {
    let mut s = String::from("loaded");
    let id = DebugId::from_breakpad(&m.breakpad_id).ok();
    if cfg.direct {
        match (&m.kind, cfg.cands.first()) {
            (ModuleKind::Synth(sm), Some(c)) => {
                s.push_str(&format!(" {},{},{}", sm.debug_id.breakpad().to_string().to_uppercase(), tag(c.remote), hx(&c.path)))
            }
            _ => s.push_str(" e"),
        }
        return s;
    }
    for i in 0..cfg.cands.len() {
        let helper = RecHelper::new(m.clone(), cfg.clone(), HashMap::new());
        let loc = helper.cand_loc(i);
        let sm = SymbolManager::with_helper(helper);
        let r = futures::executor::block_on(sm.load_symbol_map_from_location(loc, id.map(MultiArchDisambiguator::DebugId)));
        note_loads(&sm.helper(), legit);
        match r {
            Ok(map) => {
                let dfl = map.debug_file_location();
                s.push_str(&format!(" {},{},{}", map.debug_id().breakpad().to_string().to_uppercase(), tag(dfl.remote), hx(&dfl.path)));
            }
            Err(_) => s.push_str(" e"),
        }
    }
    s
}

/// index of the first `loaded` entry with the requested id (specification side of the candidate choice)
fn winner_of(loaded: &str, id: &str) -> Option<usize> {
    loaded.split_whitespace().skip(1).position(|t| t.split(',').next() == Some(id))
}

/// the debug file's location according to the `loaded` line
fn winner_loc(loaded: &str, id: &str, policy: Policy) -> Option<Loc> {
    let i = winner_of(loaded, id)?;
    let t = loaded.split_whitespace().nth(1 + i)?;
    let w: Vec<&str> = t.split(',').collect();
    Some(Loc::debug(unhx(w.get(2)?), w.get(1) == Some(&"r"), policy))
}

/// `SymbolMap::lookup` of each offset, every one on a FRESH symbol map of the winning candidate (what
/// `/source/v1` does per request), obtained with `load_symbol_map_from_location` / the helper's own map
fn direct_lookups(m: &ModuleSpec, cfg: &HelperCfg, loaded: &str, offsets: &[u32]) -> Vec<(String, Frames)> {
    direct_lookups_noting(m, cfg, loaded, offsets, &mut Legit::new())
}

fn direct_lookups_noting(m: &ModuleSpec, cfg: &HelperCfg, loaded: &str, offsets: &[u32], legit: &mut Legit) -> Vec<(String, Frames)> {
    let win = winner_of(loaded, &m.breakpad_id);
    let id = DebugId::from_breakpad(&m.breakpad_id).ok();
    offsets
        .iter()
        .map(|&o| {
            let helper = RecHelper::new(m.clone(), cfg.clone(), HashMap::new());
            let sm = SymbolManager::with_helper(helper);
            let r = futures::executor::block_on(async {
                let map = match (win, cfg.direct, library_info(m)) {
                    (Some(_), true, Some(info)) => sm.load_symbol_map(&info).await.ok(),
                    (Some(i), false, _) => {
                        let loc = sm.helper().cand_loc(i);
                        sm.load_symbol_map_from_location(loc, id.map(MultiArchDisambiguator::DebugId)).await.ok()
                    }
                    _ => None,
                };
                match &map {
                    None => ("nosymbols".to_string(), Vec::new()),
                    Some(map) => match map.lookup(LookupAddress::Relative(o)).await {
                        None => ("notfound".to_string(), Vec::new()),
                        Some(ai) => match ai.frames {
                            None => ("noframes".to_string(), Vec::new()),
                            Some(fr) => ("frames".to_string(), fr.into_iter().map(|f| f.file_path).collect()),
                        },
                    },
                }
            });
            note_loads(&sm.helper(), legit);
            r
        })
        .collect()
}

fn lookup_line(offsets: &[u32], looks: &[(String, Frames)]) -> String {
    let mut s = String::from("lookup");
    for (o, (class, frames)) in offsets.iter().zip(looks) {
        s.push_str(&format!(" {o}={class}"));
        for f in frames {
            s.push('/');
            s.push_str(&frame_token(f));
        }
    }
    s
}

fn parse_lookup_line(l: &str) -> Option<Vec<(u32, String, Frames)>> {
    let mut v = Vec::new();
    for t in l.split_whitespace().skip(1) {
        let (o, rest) = t.split_once('=')?;
        let mut it = rest.split('/');
        let class = it.next()?.to_string();
        let frames: Frames = it.map(parse_frame_token).collect::<Option<Frames>>()?;
        v.push((o.parse().ok()?, class, frames));
    }
    Some(v)
}

/// the addresses of the one `/symbolicate/v5` request of a case: neighbours of every offset first, then the
/// offsets themselves in reverse order (the code sorts them; a symbol map shared by the batch sees them all)
fn batch_addresses(offsets: &[u32]) -> Vec<u32> {
    let mut v = Vec::new();
    for &o in offsets {
        for d in [-9i64, -1, 1, 4, 17] {
            let a = o as i64 + d;
            if a >= 0 && a <= u32::MAX as i64 {
                v.push(a as u32);
            }
        }
    }
    v.extend(offsets.iter().rev());
    v
}

fn sym_token_line(o: u32, fr: &serde_json::Value) -> String {
    let tok = |x: &serde_json::Value| x.as_str().map(hx).unwrap_or_else(|| "~".to_string());
    let has_file = fr.get("file").is_some();
    let inl = fr.get("inlines").and_then(|i| i.as_array()).cloned().unwrap_or_default();
    if !has_file && inl.is_empty() {
        return format!("sym {o} -");
    }
    let mut s = format!("sym {o} {}", tok(&fr["file"]));
    for i in &inl {
        s.push(' ');
        s.push_str(&tok(&i["file"]));
    }
    s
}

/// `sym <offset> …` for every offset from ONE `/symbolicate/v5` request over `addrs` on the given manager.
/// A helper-supplied symbol map that returns `Available(vec![])` (against the documented contract "the last
/// element is always the outer function") makes create_response panic: then every offset is asked alone.
fn symbolicate_lines(sm: &SymbolManager<RecHelper>, m: &ModuleSpec, offsets: &[u32], addrs: &[u32], stats: Option<&mut Stats>) -> Vec<String> {
    symbolicate_lines_with(
        &|body| {
            std::panic::catch_unwind(std::panic::AssertUnwindSafe(|| {
                futures::executor::block_on(samply_api::Api::new(sm).query_api("/symbolicate/v5", body))
            }))
            .ok()
        },
        m,
        offsets,
        addrs,
        stats,
    )
}

/// `query(body)` = the response of `/symbolicate/v5`, `None` if it panicked
fn symbolicate_lines_with(query: &dyn Fn(&str) -> Option<String>, m: &ModuleSpec, offsets: &[u32], addrs: &[u32], stats: Option<&mut Stats>) -> Vec<String> {
    let run = |addrs: &[u32]| -> Option<serde_json::Value> {
        let frames: Vec<serde_json::Value> = addrs.iter().map(|a| serde_json::json!([0, a])).collect();
        let body = serde_json::json!({ "memoryMap": [[m.debug_name, m.breakpad_id]], "stacks": [frames] }).to_string();
        let resp = query(&body)?;
        Some(serde_json::from_str(&resp).unwrap_or(serde_json::Value::Null))
    };
    match run(addrs) {
        Some(v) => offsets
            .iter()
            .map(|&o| {
                let idx = addrs.iter().rposition(|a| *a == o).unwrap_or(0);
                sym_token_line(o, &v["results"][0]["stacks"][0][idx])
            })
            .collect(),
        None => {
            if let Some(st) = stats {
                st.bump("symbolicate_batch_panicked");
            }
            offsets
                .iter()
                .map(|&o| match run(&[o]) {
                    Some(v) => sym_token_line(o, &v["results"][0]["stacks"][0][0]),
                    None => format!("sym {o} panic"),
                })
                .collect()
        }
    }
}

/// the file strings of a `sym` line
fn sym_files(l: &str) -> Vec<String> {
    l.split_whitespace().skip(2).filter(|t| *t != "~" && *t != "-" && *t != "panic").map(unhx).collect()
}

// ---------------------------------------------------------------------------------------------
// generators
// ---------------------------------------------------------------------------------------------

const DIRS: [&str; 10] = [
    "/home/u/proj/src",
    "/builds/worker/checkouts/gecko/gfx",
    "/usr/include/c++/12/bits",
    "/rustc/9fc6b43126469e3858e2fe86cafb4f0fd5068869/library/core/src",
    "/Users/me/.cargo/registry/src/github.com-1ecc6299db9ec823/nom-7.1.3/src",
    "./csu/../csu",
    "src",
    "C:\\b\\s\\w\\ir\\cache",
    "/tmp/dir with space",
    "/x/y",
];
const BASES: [&str; 8] = ["main.rs", "lib.c", "util.h", "mod.rs", "a.cpp", "Ünï.rs", "x", "passwd"];

fn gen_plain_path(rng: &mut Rng) -> String {
    match rng.below(14) {
        0 => "/etc/passwd".to_string(),
        1 => rng.pick(&BASES).to_string(),
        // jitdump-style URLs as raw paths: wholesym's policy turns them into URL fetches
        12 => "https://example.org/static/app.js".to_string(),
        13 => format!("http://cdn.example/{}", rng.pick(&BASES)),
        _ => {
            let d = *rng.pick(&DIRS);
            let sep = if d.contains('\\') { "\\" } else { "/" };
            format!("{d}{sep}{}", rng.pick(&BASES))
        }
    }
}

fn gen_special_path(rng: &mut Rng) -> String {
    let rev = *rng.pick(&["997f00815e6b", "4dac2548d481", "v1.15", ""]);
    let p = *rng.pick(&["widget/cocoa/nsAppShell.mm", "library/std/src/rt.rs", "src/lib.rs", "a:b.c", "../../etc/passwd"]);
    match rng.below(4) {
        0 => format!("hg:hg.mozilla.org/mozilla-central:{p}:{rev}"),
        1 => format!("git:github.com/rust-lang/rust:{p}:{rev}"),
        2 => format!("s3:gecko-generated-sources:a5d3c1f7/{}:", p.replace(':', "_")),
        _ => format!("cargo:github.com-1ecc6299db9ec823:tokio-1.6.1:{p}"),
    }
}

fn gen_mapped(rng: &mut Rng) -> MappedPath {
    let p = rng.pick(&["src/lib.rs", "library/core/src/ptr/mod.rs", "ipc/ipdl/PBackgroundChild.cpp", "..", "a/../b"]).to_string();
    match rng.below(4) {
        0 => MappedPath::Git { repo: "github.com/rust-lang/rust".into(), path: p, rev: rng.pick(&["abc123", "", "v1"]).to_string() },
        1 => MappedPath::Hg { repo: "hg.mozilla.org/mozilla-central".into(), path: p, rev: "997f00815e6b".into() },
        2 => MappedPath::S3 { bucket: "gecko-generated-sources".into(), digest: "7a1db5dfd006".into(), path: p },
        _ => MappedPath::Cargo {
            registry: "github.com-1ecc6299db9ec823".into(),
            crate_name: rng.pick(&["nom", "proc-macro2"]).to_string(),
            version: "7.1.3".into(),
            path: p,
        },
    }
}

/// a pool of file paths for one synthetic module: plain ones, mapped ones (raw ≠ spelling), pairs that share
/// a spelling but differ in the raw path, a raw path that *is* another file's spelling, near-duplicates
fn gen_synth_pool(rng: &mut Rng) -> Vec<SourceFilePath> {
    let mut pool = Vec::new();
    let n = rng.range(2, 6);
    for _ in 0..n {
        match rng.below(10) {
            0..=4 => pool.push(SourceFilePath::new(gen_plain_path(rng), None)),
            5..=7 => pool.push(SourceFilePath::new(gen_plain_path(rng), Some(gen_mapped(rng)))),
            8 => {
                // same spelling, two raw paths
                let m = gen_mapped(rng);
                pool.push(SourceFilePath::new(gen_plain_path(rng), Some(m.clone())));
                pool.push(SourceFilePath::new(format!("{}.other", gen_plain_path(rng)), Some(m)));
            }
            _ => {
                // an unmapped file whose raw path is literally the spelling of a mapped one
                let m = gen_mapped(rng);
                pool.push(SourceFilePath::new(m.to_special_path_str(), None));
                pool.push(SourceFilePath::new(gen_plain_path(rng), Some(m)));
            }
        }
    }
    if rng.chance(1, 3) {
        // near-duplicates of an existing raw path
        let p = pool[0].raw_path().to_string();
        for v in [format!("{p}/"), format!("{p}.bak"), p.to_uppercase(), format!("/{p}")] {
            if rng.chance(1, 2) {
                pool.push(SourceFilePath::new(v, None));
            }
        }
    }
    pool
}

fn gen_frames(rng: &mut Rng, pool: &[SourceFilePath]) -> Frames {
    let n = match rng.below(20) {
        0..=1 => 1,
        2..=11 => rng.range(1, 3),
        12..=18 => rng.range(2, 6),
        // deep inline stacks: every frame contributes to the permitted set, however many there are
        _ => rng.range(7, 14),
    };
    (0..n).map(|_| if rng.chance(1, 6) { None } else { Some(rng.pick(pool).clone()) }).collect()
}

fn gen_synth_module(rng: &mut Rng) -> ModuleSpec {
    let pool = gen_synth_pool(rng);
    let nf = rng.range(1, 3);
    let mut funcs = Vec::new();
    let mut addr = rng.range(0x100, 0x2000) as u32;
    for _ in 0..nf {
        let np = rng.range(1, 4);
        let mut points = Vec::new();
        let start = addr;
        if rng.chance(1, 5) {
            addr += rng.range(1, 8) as u32; // the first bytes have no point: frames None
        }
        for _ in 0..np {
            let fr = match rng.below(12) {
                0 => None,
                1 => Some(Vec::new()),
                _ => Some(gen_frames(rng, &pool)),
            };
            points.push((addr, fr));
            addr += rng.range(1, 16) as u32;
        }
        funcs.push(SynthFunc { start, size: addr - start, points });
        addr += rng.range(0, 32) as u32;
    }
    let id = format!("{:016X}{:016X}{:X}", rng.next_u64() | 1, rng.next_u64(), rng.below(16));
    ModuleSpec {
        debug_name: format!("synth{}.so", rng.below(100)),
        kind: ModuleKind::Synth(Arc::new(SynthMap { debug_id: DebugId::from_breakpad(&id).expect("id"), funcs })),
        breakpad_id: id,
    }
}

/// a generated Breakpad .sym text; returns the module and the addresses of all line-record starts
fn gen_sym_module(rng: &mut Rng) -> (ModuleSpec, Vec<u32>) {
    let id = format!("{:016X}{:016X}{:X}", rng.next_u64() | 1, rng.next_u64(), rng.below(16));
    let name = format!("gen{}.pdb", rng.below(100));
    let mut text = format!("MODULE windows x86_64 {id} {name}\nINFO GENERATOR verif\n");
    let nfiles = rng.range(1, 6) as u32;
    for i in 0..nfiles {
        let p = if rng.chance(2, 5) { gen_special_path(rng) } else { gen_plain_path(rng) };
        text.push_str(&format!("FILE {i} {p}\n"));
    }
    let norig = rng.range(1, 4) as u32;
    for i in 0..norig {
        text.push_str(&format!("INLINE_ORIGIN {i} inlined_{i}(int)\n"));
    }
    // file ids may point past the FILE table (frame without a file)
    let file_id = |rng: &mut Rng| if rng.chance(1, 10) { nfiles + 3 } else { rng.below(nfiles as u64) as u32 };
    let mut addr = rng.range(0x1000, 0x3000) as u32;
    let mut starts = Vec::new();
    let nfuncs = rng.range(1, 3);
    for k in 0..nfuncs {
        let nlines = rng.range(1, 5);
        let mut recs = Vec::new();
        let start = addr;
        for _ in 0..nlines {
            let sz = rng.range(1, 12) as u32;
            recs.push((addr, sz, rng.range(1, 900), file_id(rng)));
            starts.push(addr);
            addr += sz;
        }
        let size = addr - start;
        text.push_str(&format!("FUNC {start:x} {size:x} 0 func_{k}()\n"));
        // nested inline ranges: depth d+1 lies inside depth d
        let mut lo = start;
        let mut hi = addr;
        let max_depth = if rng.chance(1, 12) { rng.range(8, 12) } else { rng.below(4) };
        for depth in 0..max_depth as u32 {
            if hi - lo < 2 {
                break;
            }
            let a = lo + rng.below((hi - lo) as u64 / 2 + 1) as u32;
            let s = rng.range(1, (hi - a) as u64) as u32;
            text.push_str(&format!(
                "INLINE {depth} {} {} {} {a:x} {s:x}\n",
                rng.range(1, 500),
                file_id(rng),
                rng.below(norig as u64)
            ));
            lo = a;
            hi = a + s;
        }
        for (a, s, l, f) in recs {
            text.push_str(&format!("{a:x} {s:x} {l} {f}\n"));
        }
        if rng.chance(1, 3) {
            text.push_str(&format!("PUBLIC {:x} 0 public_{k}\n", addr));
            addr += rng.range(4, 32) as u32;
        }
        addr += rng.range(0, 16) as u32;
    }
    (
        ModuleSpec { kind: ModuleKind::Sym(Bytes(Arc::new(text.into_bytes()))), debug_name: name, breakpad_id: id },
        starts,
    )
}

/// fixtures with debug info: (path under fixtures/, debugName)
const FIXTURES: [(&str, &str); 14] = [
    ("other/example-linux", "example-linux"),
    ("other/example-linux-fallback", "example-linux-fallback"),
    ("other/simple-example/out/with-dwo/main", "main"),
    ("other/simple-example/out/with-dwp/main", "main"),
    ("other/simple-example/out/regular-debuglink/main", "main"),
    ("other/simple-example/out/dwp-debuglink/main", "main"),
    ("other/simple-example/out/mac-dsym/main.dSYM/Contents/Resources/DWARF/main", "main"),
    ("other/simple-example/out/mac-oso/main", "main"),
    ("other/ls-linux/260a3e6e46db57abf718f6a3562c6eedccf269.debug", "ls"),
    ("android32-ci/libsoftokn3.so.dbg", "libsoftokn3.so"),
    ("android32-local/libsoftokn3.so", "libsoftokn3.so"),
    ("win64-ci/softokn3.pdb", "softokn3.pdb"),
    ("win64-ci/WriteArgument.pdb", "WriteArgument.pdb"),
    // <verif>/corpus/C09/fixtures/rustdemo: freestanding Rust ELF, DWARF with /rustc/<rev>/library/… and
    // cargo-registry file names (the only way into path_mapper.rs)
    ("corpus:rustdemo", "rustdemo"),
];

struct FixtureInfo {
    module: ModuleSpec,
    /// offsets with debug-info frames and their file paths
    offsets: Vec<(u32, Frames)>,
    /// offsets inside a symbol but without frames, and offsets outside every symbol
    plain_offsets: Vec<u32>,
}

/// Discovery, once per process: debug id through `load_symbol_map_from_location`, then a scan of the
/// symbols for offsets with debug info.
fn fixtures() -> &'static Vec<FixtureInfo> {
    static F: OnceLock<Vec<FixtureInfo>> = OnceLock::new();
    F.get_or_init(|| {
        let mut out = Vec::new();
        for (rel, name) in FIXTURES {
            let probe = ModuleSpec { kind: ModuleKind::File(rel.to_string()), debug_name: name.to_string(), breakpad_id: String::new() };
            let helper = RecHelper::new(probe.clone(), HelperCfg::single(format!("/fx/{}", virtual_name(&probe))), HashMap::new());
            let loc = helper.cand_loc(0);
            let sm = SymbolManager::with_helper(helper);
            let found = futures::executor::block_on(async {
                let map = sm.load_symbol_map_from_location(loc, None).await.ok()?;
                let id = map.debug_id().breakpad().to_string().to_uppercase();
                let mut syms: Vec<u32> = map.iter_symbols().map(|(a, _)| a).collect();
                syms.sort_unstable();
                syms.dedup();
                // spread over the whole table, at most 400 symbols, a few offsets into each
                let step = (syms.len() / 400).max(1);
                let mut offsets = Vec::new();
                let mut plain = Vec::new();
                for (i, &s) in syms.iter().enumerate() {
                    if i % step != 0 {
                        continue;
                    }
                    // small symbol tables are scanned densely
                    let deltas: Vec<u32> = if syms.len() < 40 { (0..240).step_by(3).collect() } else { vec![0, 4, 9, 20, 37] };
                    for d in deltas {
                        let o = s.wrapping_add(d);
                        match map.lookup(LookupAddress::Relative(o)).await {
                            Some(ai) => match ai.frames {
                                Some(fr) if fr.iter().any(|f| f.file_path.is_some()) => {
                                    offsets.push((o, fr.into_iter().map(|f| f.file_path).collect::<Frames>()))
                                }
                                _ => plain.push(o),
                            },
                            None => plain.push(o),
                        }
                    }
                }
                Some((id, offsets, plain))
            });
            if let Some((id, offsets, mut plain)) = found {
                plain.truncate(50);
                plain.push(0);
                plain.push(0xffff_fff0);
                out.push(FixtureInfo {
                    module: ModuleSpec { breakpad_id: id, ..probe },
                    offsets,
                    plain_offsets: plain,
                });
            }
        }
        out
    })
}

fn api_of(fp: &SourceFilePath) -> String {
    to_api_file_path(fp)
}

/// decorated variants of a permitted path
fn variants(rng: &mut Rng, p: &str) -> Vec<(String, &'static str)> {
    let mut v: Vec<(String, &'static str)> = Vec::new();
    let chars: Vec<char> = p.chars().collect();
    let n = chars.len();
    let sub = |a: usize, b: usize| chars[a..b].iter().collect::<String>();
    if n > 1 {
        v.push((sub(0, n - 1), "prefix"));
        v.push((sub(1, n), "suffix"));
        let k = 1 + rng.below(n as u64 - 1) as usize;
        v.push((sub(0, k), "prefix"));
        v.push((sub(k, n), "suffix"));
    }
    let d = dir_of(p);
    let b = base_of(p);
    if !d.is_empty() {
        v.push((d.to_string(), "prefix"));
        v.push((b.to_string(), "suffix"));
        v.push((format!("{d}/../{}/{b}", base_of(d)), "dotdot"));
        v.push((format!("{d}/x/../{b}"), "dotdot"));
        v.push((format!("{d}/./{b}"), "dotdot"));
        v.push((format!("{d}//{b}"), "slashes"));
        v.push((format!("{d}\\{b}"), "slashes"));
    }
    v.push((format!("{p}/../{b}"), "dotdot"));
    v.push((format!("{p}/.."), "dotdot"));
    v.push((format!("/../{p}"), "dotdot"));
    v.push((format!("./{p}"), "dotdot"));
    v.push((format!("{p}/"), "trailing"));
    v.push((format!("{p}/."), "trailing"));
    v.push((format!("{p} "), "trailing"));
    v.push((format!(" {p}"), "trailing"));
    v.push((format!("{p}\u{0}"), "trailing"));
    v.push((format!("{p}\n"), "trailing"));
    v.push((format!("/{p}"), "slashes"));
    v.push((p.replace('/', "//"), "slashes"));
    v.push((p.replace('/', "%2F"), "slashes"));
    v.push((p.to_uppercase(), "case"));
    v.push((p.to_lowercase(), "case"));
    {
        // flip the case of one letter
        let mut c = chars.clone();
        if let Some(i) = (0..n).rev().find(|&i| c[i].is_ascii_alphabetic()) {
            c[i] = if c[i].is_ascii_uppercase() { c[i].to_ascii_lowercase() } else { c[i].to_ascii_uppercase() };
            v.push((c.iter().collect(), "case"));
        }
    }
    if let Some((scheme, rest)) = p.split_once(':') {
        if ["hg", "git", "s3", "cargo"].contains(&scheme) {
            v.push((format!("{}:{rest}", scheme.to_uppercase()), "special"));
            v.push((rest.to_string(), "special"));
            v.push((format!("{p}:"), "special"));
            v.push((p.trim_end_matches(':').to_string(), "special"));
            if let Some(i) = p.rfind(':') {
                v.push((format!("{}:0000", &p[..i]), "special"));
                v.push((p[..i].to_string(), "special"));
            }
            let other = if scheme == "hg" { "git" } else { "hg" };
            v.push((format!("{other}:{rest}"), "special"));
        }
    }
    v.retain(|(s, _)| s != p);
    v
}

const ARBITRARY: [&str; 12] = [
    "/etc/passwd",
    "../../x",
    "",
    "/",
    ".",
    "..",
    "/proc/self/environ",
    "~/.ssh/id_rsa",
    "C:\\Windows\\win.ini",
    "file:///etc/passwd",
    "https://example.org/x.rs",
    "hg:hg.mozilla.org/mozilla-central:widget/x.mm:0",
];

fn sample<T: Clone>(rng: &mut Rng, xs: &mut Vec<T>, k: usize) -> Vec<T> {
    rng.shuffle(xs);
    xs.iter().take(k).cloned().collect()
}

/// virtual paths of the debug-file candidates (nothing of the machine's directory layout enters the ops)
fn virtual_name(m: &ModuleSpec) -> String {
    match &m.kind {
        ModuleKind::Synth(_) => m.debug_name.clone(),
        ModuleKind::Sym(_) => format!("{}.sym", m.debug_name),
        ModuleKind::File(rel) => rel.replace("corpus:", "corpus/"),
    }
}

/// how the helper serves the library in this case
fn gen_helper_cfg(rng: &mut Rng, m: &ModuleSpec) -> HelperCfg {
    let policy = match rng.below(20) {
        0..=9 => Policy::All,
        10..=13 => Policy::Abs,
        _ => Policy::Wholesym,
    };
    let name = virtual_name(m);
    if let ModuleKind::Synth(_) = m.kind {
        let path = match rng.below(8) {
            0 => format!("synth:{name}"), // parent "" : relative raw paths stay as they are
            1 => name.clone(),
            2 => "/".to_string(),         // no parent: relative raw paths are refused by the wholesym policy
            3 => format!("/{name}"),
            _ => format!("/opt/app/lib/{name}"),
        };
        return HelperCfg { direct: true, cands: vec![Cand { remote: rng.chance(1, 4), path, content: Content::Ok }], policy, aux: true };
    }
    let l = |p: &str, c| Cand { remote: false, path: format!("/{p}/{name}"), content: c };
    let r = |p: &str, c| Cand { remote: true, path: format!("/{p}/{name}"), content: c };
    use Content::*;
    let cands = match rng.below(40) {
        0..=14 => vec![l("fx", Ok)],
        15..=17 => vec![r("symcache", Ok)],
        // the reviewer's scenario: nothing next to the binary, the debug file comes from a symbol server
        18..=21 => vec![l("fx", Absent), r("symcache", Ok)],
        22..=23 => vec![l("fx", Other), r("symcache", Ok)],
        24..=25 => vec![r("symcache", Other), l("fx", Ok)],
        26..=27 => vec![l("fx", Junk), l("mirror", Ok)],
        // two candidates carry the library: the first one wins
        28..=30 => vec![l("fx", Ok), r("symcache", Ok)],
        31..=32 => vec![r("symcache", Ok), l("fx", Ok)],
        33 => vec![l("fx", Ok), l("mirror", Ok)],
        // the library cannot be had
        34 => vec![l("fx", Absent)],
        35 => vec![l("fx", Other), r("symcache", Junk)],
        36 => vec![],
        _ => {
            let n = rng.range(2, 3);
            (0..n)
                .map(|i| {
                    let c = *rng.pick(&[Ok, Ok, Other, Absent, Junk]);
                    if rng.chance(1, 2) { l(["fx", "mirror", "m2"][i as usize], c) } else { r(["symcache", "s2", "s3"][i as usize], c) }
                })
                .collect()
        }
    };
    // fixtures whose frames live in dwo / dwp / .o files: those are absent in a third of the cases
    let has_aux = matches!(&m.kind, ModuleKind::File(rel) if rel.contains("dwo") || rel.contains("dwp") || rel.contains("oso"));
    let aux = !(matches!(m.kind, ModuleKind::File(_)) && rng.chance(1, if has_aux { 3 } else { 8 }));
    HelperCfg { direct: false, cands, policy, aux }
}

/// ops of one case for a module and 1-4 of its offsets; `others` = file paths of other offsets of the module
fn build_case(rng: &mut Rng, tier: Tier, m: &ModuleSpec, offsets: &[u32], others: &[SourceFilePath]) -> Vec<String> {
    let mut offsets: Vec<u32> = offsets.to_vec();
    {
        let mut seen = BTreeSet::new();
        offsets.retain(|o| seen.insert(*o));
    }
    // sometimes ask for a build of the module that the helper does not have (first id digit flipped):
    // `load_symbol_map` fails, nothing may be read
    let wrong;
    let mut others: Vec<SourceFilePath> = others.to_vec();
    let m = if !matches!(m.kind, ModuleKind::Synth(_)) && rng.chance(1, 25) {
        // the files the right build has at these offsets are requested too
        let cfg = HelperCfg::single(format!("/fx/{}", virtual_name(m)));
        let loaded = loaded_line(m, &cfg);
        for (_, fr) in direct_lookups(m, &cfg, &loaded, &offsets) {
            others.extend(fr.into_iter().flatten());
        }
        let mut id: Vec<char> = m.breakpad_id.chars().collect();
        id[0] = if id[0] == '1' { '2' } else { '1' };
        wrong = ModuleSpec { breakpad_id: id.into_iter().collect(), ..m.clone() };
        &wrong
    } else {
        m
    };
    let cfg = gen_helper_cfg(rng, m);
    let loaded = loaded_line(m, &cfg);
    let looks = direct_lookups(m, &cfg, &loaded, &offsets);
    let mut ops = vec![module_line(m), cfg.line(), loaded.clone(), lookup_line(&offsets, &looks)];
    let syms = {
        let sm = SymbolManager::with_helper(RecHelper::new(m.clone(), cfg.clone(), HashMap::new()));
        symbolicate_lines(&sm, m, &offsets, &batch_addresses(&offsets), None)
    };
    let owns: Vec<Vec<SourceFilePath>> = looks.iter().map(|(_, fr)| fr.iter().flatten().cloned().collect()).collect();

    // ---- requests
    let mut reqs: Vec<(String, u32, String, &'static str)> = Vec::new(); // (op, offset, file, tag)
    let nvar = (if tier == Tier::Thorough { 14 } else { 8 } / offsets.len()).max(3);
    for (i, &o) in offsets.iter().enumerate() {
        let own = &owns[i];
        let mut push = |op: &str, f: String, tag: &'static str| reqs.push((op.to_string(), o, f, tag));
        // every file the batched /symbolicate/v5 reported for this offset, every spelling and raw path of its frames
        for f in sym_files(&syms[i]) {
            push("req", f, "reported");
        }
        for fp in own {
            let a = api_of(fp);
            push("req", a.clone(), "own-api");
            if a != fp.raw_path() {
                push("req", fp.raw_path().to_string(), "own-raw-differs");
            }
        }
        // files of the other offsets of this case: asked on the same manager, before or after those offsets
        for (j, oth) in owns.iter().enumerate() {
            if j != i {
                for fp in oth {
                    if !own.contains(fp) {
                        push("req", api_of(fp), "other-offset-in-case");
                        if rng.chance(1, 3) {
                            push("req", fp.raw_path().to_string(), "other-offset-in-case");
                        }
                    }
                }
            }
        }
        // files of other offsets of the same module
        let mut oth: Vec<SourceFilePath> = others.to_vec();
        for fp in sample(rng, &mut oth, if offsets.len() > 2 { 2 } else { 4 }) {
            push("req", api_of(&fp), "other-offset");
            if rng.chance(1, 2) {
                push("req", fp.raw_path().to_string(), "other-offset");
            }
        }
        // arbitrary paths
        let mut arb: Vec<&str> = ARBITRARY.to_vec();
        for a in sample(rng, &mut arb, if offsets.len() > 2 { 1 } else { 3 }) {
            push("req", a.to_string(), "arbitrary");
        }
        // decorated variants of permitted paths (spellings and raw paths)
        let mut bases: Vec<String> = own.iter().flat_map(|fp| [api_of(fp), fp.raw_path().to_string()]).collect();
        bases.sort();
        bases.dedup();
        let mut all_vars = Vec::new();
        for b in &bases {
            all_vars.extend(variants(rng, b));
        }
        for (f, tag) in sample(rng, &mut all_vars, nvar) {
            push("req", f, tag);
        }
        // malformed requests naming a permitted file
        if let Some(fp) = own.first() {
            if rng.chance(1, 3) {
                push("reqbadid", api_of(fp), "badid");
            }
            if rng.chance(1, 3) {
                push("reqmalformed", api_of(fp), "malformed");
            }
        }
        if own.is_empty() && rng.chance(1, 2) {
            push("reqbadid", "/etc/passwd".to_string(), "badid");
        }
    }
    // ---- the body field by field (`reqx`): other library name, id nobody has, id `to_debug_id` rejects, and the
    // `moduleOffset` member as a string (hex.rs:23-37): prefix, sign, case, leading zeros, overflow, junk
    let mut lines: Vec<String> = reqs.iter().map(|(op, o, f, tag)| format!("{op} {o} {} {tag}", hx(f))).collect();
    for (i, &o) in offsets.iter().enumerate() {
        let fname = owns[i].first().map(api_of).unwrap_or_else(|| "/etc/passwd".to_string());
        let good = format!("0x{o:x}");
        if rng.chance(1, 2) {
            let s = match rng.below(18) {
                0 => format!("0x{o:X}"),
                1 => format!("0x0000000{o:x}"),
                2 => format!("0x+{o:x}"),
                3 => format!("0x+000{o:X}"),
                4 => format!("{o:x}"),
                5 => format!("0X{o:x}"),
                6 => format!("{o}"),
                7 => format!("0x{o:x}g"),
                8 => "0x".to_string(),
                9 => "0x+".to_string(),
                10 => format!("0x-{o:x}"),
                11 => format!("0x1{o:08x}"),
                12 => format!(" 0x{o:x}"),
                13 => format!("0x{o:x} "),
                14 => format!("0x{o:x}_0"),
                15 => format!("0x++{o:x}"),
                16 => format!("+0x{o:x}"),
                _ => format!("0x{:x}", o as u64 + (1u64 << 32)),
            };
            lines.push(format!("reqx {} = {} {} offset-string", hx(&m.debug_name), hx(&s), hx(&fname)));
        }
        if rng.chance(1, 4) {
            let n = match rng.below(4) {
                0 => format!("{}.bak", m.debug_name),
                1 => String::new(),
                2 => m.debug_name.to_uppercase() + "x",
                _ => "nosuch.so".to_string(),
            };
            lines.push(format!("reqx {} = {} {} other-name", hx(&n), hx(&good), hx(&fname)));
        }
        if rng.chance(1, 4) {
            let mut id: Vec<char> = m.breakpad_id.chars().collect();
            id[2] = if id[2] == '7' { '8' } else { '7' };
            let id: String = id.into_iter().collect();
            lines.push(format!("reqx {} u{} {} {} unknown-id", hx(&m.debug_name), hx(&id), hx(&good), hx(&fname)));
        }
        if rng.chance(1, 6) {
            let id = match rng.below(4) {
                0 => String::new(),
                1 => "xyz".to_string(),
                2 => "0".repeat(33),
                _ => format!("G{}", &m.breakpad_id[1..]),
            };
            lines.push(format!("reqx {} b{} {} {} bad-id-string", hx(&m.debug_name), hx(&id), hx(&good), hx(&fname)));
        }
    }
    rng.shuffle(&mut lines);

    // ---- helper: source store. Keys are the paths of source locations: the raw strings themselves and what
    // the debug file's location makes of them under the case's policy (joined to its directory, `url:`)
    let win = winner_loc(&loaded, &m.breakpad_id, cfg.policy);
    let mut cand: BTreeSet<String> = BTreeSet::new();
    let mut add = |s: &str| {
        cand.insert(s.to_string());
        if let Some(l) = win.as_ref().and_then(|w| w.location_for_source_file(s)) {
            cand.insert(l.path);
        }
    };
    for fp in owns.iter().flatten().chain(others.iter().take(6)) {
        add(fp.raw_path());
        // the spelling as a *location* too: loading the request string instead of the raw path would succeed
        add(&api_of(fp));
    }
    for (_, _, f, _) in &reqs {
        add(f);
    }
    add("/etc/passwd");
    let mut store = format!("store {} {}", cfg.policy.name(), if cfg.aux { "aux" } else { "noaux" });
    let mut len = 100 + rng.below(50);
    for p in cand {
        // most files exist; some are missing (the load is attempted and fails)
        if rng.chance(5, 6) {
            len += 1 + rng.below(7);
            store.push_str(&format!(" {}:{}", hx(&p), len));
        }
    }
    ops.push(store);
    ops.extend(lines);
    ops
}

fn all_paths(offs: &[(u32, Frames)], except: &[u32]) -> Vec<SourceFilePath> {
    let mut v: Vec<SourceFilePath> = Vec::new();
    for (o, fr) in offs {
        if !except.contains(o) {
            for fp in fr.iter().flatten() {
                if !v.contains(fp) {
                    v.push(fp.clone());
                }
            }
        }
    }
    v
}

/// how many offsets a case has
fn gen_noffsets(rng: &mut Rng) -> usize {
    match rng.below(20) {
        0..=5 => 1,
        6..=12 => 2,
        13..=16 => 3,
        _ => 4,
    }
}

fn gen_case(rng: &mut Rng, tier: Tier, family: u64) -> Vec<String> {
    let n = gen_noffsets(rng);
    match family {
        // synthetic frame tables
        0 => {
            let m = gen_synth_module(rng);
            let funcs = match &m.kind {
                ModuleKind::Synth(s) => s.clone(),
                _ => unreachable!(),
            };
            let mut cands: Vec<u32> = Vec::new();
            for f in &funcs.funcs {
                for (a, _) in &f.points {
                    cands.push(*a);
                    cands.push(a + 1);
                }
                cands.push(f.start);
                cands.push(f.start + f.size); // one past the end
            }
            cands.push(0);
            let offsets: Vec<u32> =
                (0..n).map(|_| if rng.chance(1, 12) { rng.below(0x4000) as u32 } else { *rng.pick(&cands) }).collect();
            let others: Vec<SourceFilePath> = funcs
                .funcs
                .iter()
                .flat_map(|f| f.points.iter().filter(|(a, _)| !offsets.contains(a)).filter_map(|(_, fr)| fr.clone()))
                .flat_map(|fr| fr.into_iter().flatten())
                .collect();
            build_case(rng, tier, &m, &offsets, &others)
        }
        // generated Breakpad file
        1 => {
            let (m, starts) = gen_sym_module(rng);
            let offsets: Vec<u32> = (0..n)
                .map(|_| match rng.below(12) {
                    0 => rng.below(0x4000) as u32,
                    1 => starts[0].wrapping_sub(1),
                    _ => *rng.pick(&starts) + rng.below(2) as u32,
                })
                .collect();
            let cfg = HelperCfg::single(format!("/fx/{}", virtual_name(&m)));
            let loaded = loaded_line(&m, &cfg);
            let looks = direct_lookups(&m, &cfg, &loaded, &starts);
            let others: Vec<SourceFilePath> = starts
                .iter()
                .zip(looks)
                .filter(|(a, _)| !offsets.contains(a))
                .flat_map(|(_, (_, fr))| fr.into_iter().flatten())
                .collect();
            build_case(rng, tier, &m, &offsets, &others)
        }
        // fixture
        _ => {
            let fx = fixtures();
            if fx.is_empty() {
                return gen_case(rng, tier, 0);
            }
            let f = rng.pick(fx);
            let mut offsets = Vec::new();
            let first = if rng.chance(1, 10) || f.offsets.is_empty() { *rng.pick(&f.plain_offsets) } else { rng.pick(&f.offsets).0 };
            offsets.push(first);
            let idx = f.offsets.iter().position(|(o, _)| *o == first).unwrap_or(0);
            let lo = idx.saturating_sub(6);
            let hi = (idx + 6).min(f.offsets.len());
            for _ in 1..n {
                // neighbours (same function / same compilation unit / same external file), sometimes anywhere
                let o = if f.offsets.is_empty() || rng.chance(1, 8) {
                    *rng.pick(&f.plain_offsets)
                } else if rng.chance(2, 3) {
                    f.offsets[lo + rng.below((hi - lo) as u64) as usize].0
                } else {
                    rng.pick(&f.offsets).0
                };
                offsets.push(o);
            }
            // other offsets: prefer neighbours and a few random ones
            let mut near: Vec<(u32, Frames)> = f.offsets[lo..hi].to_vec();
            for _ in 0..4 {
                if !f.offsets.is_empty() {
                    near.push(rng.pick(&f.offsets).clone());
                }
            }
            let others = all_paths(&near, &offsets);
            build_case(rng, tier, &f.module, &offsets, &others)
        }
    }
}

// ---------------------------------------------------------------------------------------------
// real wholesym over real files (`helper w`): `WholesymFileLocation::location_for_source_file` and
// `Helper::load_file` of wholesym itself decide what is read; the observable is the bytes returned
// ---------------------------------------------------------------------------------------------

/// Paths in the ops are written under `/ROOT`; at run time that is a fresh directory below
/// `$VERIF_ROOT/.work/C09/tmp`.
const WS_ROOT: &str = "/ROOT";

#[derive(Clone, Debug)]
enum FsEntry {
    Dir(String),
    File(String, usize),
    Link(String, String),
}

fn ws_real(s: &str, root: &str) -> String {
    s.replace(WS_ROOT, root)
}
fn ws_virtual(s: &str, root: &str) -> String {
    s.replace(root, WS_ROOT)
}

fn ws_helper_line(sym_path: &str, fs: &[FsEntry]) -> String {
    let mut s = format!("helper w l,{},ok", hx(sym_path));
    for e in fs {
        match e {
            FsEntry::Dir(p) => s.push_str(&format!(" D,{}", hx(p))),
            FsEntry::File(p, n) => s.push_str(&format!(" F,{},{n}", hx(p))),
            FsEntry::Link(p, t) => s.push_str(&format!(" L,{},{}", hx(p), hx(t))),
        }
    }
    s
}

fn ws_parse_helper(l: &str) -> Option<(String, Vec<FsEntry>)> {
    let w: Vec<&str> = l.split_whitespace().collect();
    if w.len() < 3 || w[0] != "helper" || w[1] != "w" {
        return None;
    }
    let sym_path = unhx(w[2].split(',').nth(1)?);
    let mut fs = Vec::new();
    for t in &w[3..] {
        let p: Vec<&str> = t.split(',').collect();
        fs.push(match (p[0], p.len()) {
            ("D", 2) => FsEntry::Dir(unhx(p[1])),
            ("F", 3) => FsEntry::File(unhx(p[1]), p[2].parse().ok()?),
            ("L", 3) => FsEntry::Link(unhx(p[1]), unhx(p[2])),
            _ => return None,
        });
    }
    Some((sym_path, fs))
}

/// one materialised case: the directory, wholesym's own symbol manager over it, a runtime for `tokio::fs`
struct WsEnv {
    root: String,
    sm: wholesym::SymbolManager,
    rt: tokio::runtime::Runtime,
}

impl Drop for WsEnv {
    fn drop(&mut self) {
        let _ = std::fs::remove_dir_all(&self.root);
    }
}

fn ws_setup(m: &ModuleSpec, sym_path: &str, fs: &[FsEntry]) -> Option<WsEnv> {
    static N: std::sync::atomic::AtomicU64 = std::sync::atomic::AtomicU64::new(0);
    let base = std::env::var("VERIF_ROOT").unwrap_or_else(|_| concat!(env!("CARGO_MANIFEST_DIR"), "/..").to_string());
    let root = format!("{base}/.work/C09/tmp/ws-{}-{}", std::process::id(), N.fetch_add(1, std::sync::atomic::Ordering::SeqCst));
    let root = {
        std::fs::create_dir_all(&root).ok()?;
        std::fs::canonicalize(&root).ok()?.to_string_lossy().to_string()
    };
    for e in fs {
        match e {
            FsEntry::Dir(p) => std::fs::create_dir_all(ws_real(p, &root)).ok()?,
            FsEntry::File(p, n) => std::fs::write(ws_real(p, &root), vec![b'x'; *n]).ok()?,
            FsEntry::Link(p, t) => std::os::unix::fs::symlink(t, ws_real(p, &root)).ok()?,
        }
    }
    let text = match &m.kind {
        ModuleKind::Sym(b) => ws_real(&String::from_utf8_lossy(b), &root),
        _ => return None,
    };
    let sym_real = ws_real(sym_path, &root);
    std::fs::create_dir_all(dir_of(&sym_real)).ok()?;
    std::fs::write(&sym_real, text).ok()?;
    let config = wholesym::SymbolManagerConfig::new().extra_symbol_directory(dir_of(&sym_real));
    let sm = wholesym::SymbolManager::with_config(config);
    let rt = tokio::runtime::Builder::new_current_thread().enable_all().build().ok()?;
    Some(WsEnv { root, sm, rt })
}

impl WsEnv {
    fn query(&self, path: &str, body: &str) -> Option<String> {
        std::panic::catch_unwind(std::panic::AssertUnwindSafe(|| self.rt.block_on(self.sm.query_json_api(path, body)))).ok()
    }
    /// `loaded` and `lookup` lines through wholesym's `load_symbol_map` + `SymbolMap::lookup`
    fn oracle(&self, m: &ModuleSpec, sym_path: &str, offsets: &[u32]) -> (String, Vec<(String, Frames)>) {
        let id = match DebugId::from_breakpad(&m.breakpad_id) {
            Ok(id) => id,
            Err(_) => return ("loaded e".to_string(), offsets.iter().map(|_| ("nosymbols".to_string(), Vec::new())).collect()),
        };
        let mut loaded = String::from("loaded e");
        let looks = offsets
            .iter()
            .map(|&o| {
                self.rt.block_on(async {
                    match self.sm.load_symbol_map(&m.debug_name, id).await {
                        Err(_) => ("nosymbols".to_string(), Vec::new()),
                        Ok(map) => {
                            loaded = format!("loaded {},l,{}", map.debug_id().breakpad().to_string().to_uppercase(), hx(sym_path));
                            match map.lookup(LookupAddress::Relative(o)).await {
                                None => ("notfound".to_string(), Vec::new()),
                                Some(ai) => match ai.frames {
                                    None => ("noframes".to_string(), Vec::new()),
                                    Some(fr) => (
                                        "frames".to_string(),
                                        fr.into_iter()
                                            .map(|f| f.file_path.map(|fp| SourceFilePath::new(ws_virtual(fp.raw_path(), &self.root), fp.mapped_path().cloned())))
                                            .collect(),
                                    ),
                                },
                            }
                        }
                    }
                })
            })
            .collect();
        (loaded, looks)
    }
    /// what the operating system reads for exactly this path string
    fn os_read(&self, virtual_path: &str) -> Option<usize> {
        std::fs::read(ws_real(virtual_path, &self.root)).ok().map(|b| b.len())
    }
    fn symbolicate(&self, m: &ModuleSpec, offsets: &[u32], addrs: &[u32], stats: Option<&mut Stats>) -> Vec<String> {
        symbolicate_lines_with(&|body| self.query("/symbolicate/v5", body).map(|r| ws_virtual(&r, &self.root)), m, offsets, addrs, stats)
    }
}

/// `Path::components`-style lexical tidying (drop `.`, pop on `..`): what a path is NOT allowed to go through
fn lexically_tidied(p: &str) -> String {
    let abs = p.starts_with('/');
    let mut out: Vec<&str> = Vec::new();
    for c in p.split('/') {
        match c {
            "" | "." => {}
            ".." => {
                if out.pop().is_none() && !abs {
                    out.push("..");
                }
            }
            c => out.push(c),
        }
    }
    format!("{}{}", if abs { "/" } else { "" }, out.join("/"))
}

/// the spellings a FILE record can have: (raw path, family)
const WS_SPELLINGS: [(&str, &str); 21] = [
    ("/ROOT/src/link/../prog.c", "symlink-dotdot"),
    ("/ROOT/src/a/up/../prog.c", "symlink-dotdot"),
    ("/ROOT/src/link/../../src/real/prog.c", "symlink-dotdot"),
    ("/ROOT/src/real/sub/../prog.c", "dotdot"),
    ("/ROOT/src/a/b/../y.c", "dotdot"),
    ("/ROOT/src/./real/prog.c", "dot"),
    ("/ROOT/src/real/./prog.c", "dot"),
    ("/ROOT/src//real//prog.c", "slashes"),
    ("/ROOT/src/real/prog.c/.", "trailing-dot"),
    ("/ROOT/src/real/prog.c/", "trailing-slash"),
    ("/ROOT/src/a/b/.", "directory"),
    ("/ROOT/src/a/b/x.h", "plain"),
    ("/ROOT/src/real/prog.c", "plain"),
    ("/ROOT/src/flink.c", "file-symlink"),
    ("/ROOT/src/missing.c", "missing"),
    ("lnk/../prog.c", "rel-symlink-dotdot"),
    ("../src/link/../prog.c", "rel-symlink-dotdot"),
    ("../src/real/prog.c", "rel-dotdot"),
    ("rel.c", "rel"),
    ("./rel.c", "rel-dot"),
    ("sub/none.c", "rel-missing"),
];

/// a case of the real-wholesym family; `force` = index into WS_SPELLINGS that must be a FILE record,
/// `decoys` = whether unrelated files sit at the lexically collapsed locations
fn ws_build_case(rng: &mut Rng, tier: Tier, force: Option<usize>, decoys: Option<bool>) -> Vec<String> {
    let name = format!("wslib{}", rng.below(100));
    let id = format!("{:016X}{:016X}{:X}", rng.next_u64() | 1, rng.next_u64(), rng.below(16));
    // ---- file system
    let mut len = 40 + rng.below(20) as usize;
    let mut next_len = |rng: &mut Rng| {
        len += 3 + rng.below(9) as usize;
        len
    };
    let mut fs = vec![
        FsEntry::Dir("/ROOT/sym".into()),
        FsEntry::Dir("/ROOT/src/real/sub".into()),
        FsEntry::Dir("/ROOT/src/a/b".into()),
        FsEntry::File("/ROOT/src/real/prog.c".into(), next_len(rng)),
        FsEntry::File("/ROOT/src/a/b/x.h".into(), next_len(rng)),
        FsEntry::File("/ROOT/src/a/y.c".into(), next_len(rng)),
        FsEntry::File("/ROOT/sym/rel.c".into(), next_len(rng)),
        // directories reached through a symlink have another parent than the symlink's own directory
        FsEntry::Link("/ROOT/src/link".into(), "real/sub".into()),
        FsEntry::Link("/ROOT/src/a/up".into(), "../real/sub".into()),
        FsEntry::Link("/ROOT/sym/lnk".into(), "../src/real/sub".into()),
        FsEntry::Link("/ROOT/src/flink.c".into(), "real/prog.c".into()),
    ];
    // unrelated files where a lexical collapse of `..` would point to
    for decoy in ["/ROOT/src/prog.c", "/ROOT/src/a/prog.c", "/ROOT/sym/prog.c"] {
        if decoys.unwrap_or_else(|| rng.chance(1, 2)) {
            fs.push(FsEntry::File(decoy.into(), next_len(rng)));
        }
    }
    // ---- FILE records
    let mut idx: Vec<usize> = (0..WS_SPELLINGS.len()).collect();
    rng.shuffle(&mut idx);
    idx.truncate(rng.range(2, 5) as usize);
    match force {
        Some(f) if !idx.contains(&f) => idx.insert(0, f),
        None if rng.chance(2, 3) && !idx.iter().any(|i| WS_SPELLINGS[*i].1.contains("symlink-dotdot")) => {
            idx.insert(0, *rng.pick(&[0usize, 1, 2, 15, 16]))
        }
        _ => {}
    }
    let files: Vec<&str> = idx.iter().map(|i| WS_SPELLINGS[*i].0).collect();
    let mut text = format!("MODULE Linux x86_64 {id} {name}\nINFO GENERATOR verif\n");
    for (i, f) in files.iter().enumerate() {
        text.push_str(&format!("FILE {i} {f}\n"));
    }
    text.push_str("INLINE_ORIGIN 0 inlined_0()\n");
    let nrec = files.len() as u32 + rng.below(2) as u32;
    text.push_str(&format!("FUNC 1000 {:x} 0 ws_func()\n", nrec * 16));
    // the first record lies in an inlined call whose call site is in another file
    text.push_str(&format!("INLINE 0 7 {} 0 1000 10\n", (files.len() - 1).min(1)));
    let mut starts = Vec::new();
    for r in 0..nrec {
        let a = 0x1000 + r * 16;
        starts.push(a);
        text.push_str(&format!("{a:x} 10 {} {}\n", 10 + r, r as usize % files.len()));
    }
    let m = ModuleSpec { kind: ModuleKind::Sym(Bytes(Arc::new(text.into_bytes()))), debug_name: name.clone(), breakpad_id: id };
    let sym_path = format!("/ROOT/sym/{name}");
    let env = match ws_setup(&m, &sym_path, &fs) {
        Some(e) => e,
        None => return vec!["bad-op".to_string()],
    };
    // ---- offsets, oracle
    // record 0 names FILE 0 (the forced / symlink spelling) and lies in the inlined call
    let mut offsets: Vec<u32> = Vec::new();
    if force.is_some() || rng.chance(2, 3) {
        offsets.push(0x1000 + rng.below(3) as u32);
    }
    for _ in 0..gen_noffsets(rng).min(3) {
        let o = if rng.chance(1, 10) { 0x900 + rng.below(0x400) as u32 } else { *rng.pick(&starts) + rng.below(3) as u32 };
        if !offsets.contains(&o) {
            offsets.push(o);
        }
    }
    let (loaded, looks) = env.oracle(&m, &sym_path, &offsets);
    let syms = env.symbolicate(&m, &offsets, &batch_addresses(&offsets), None);
    let mut ops = vec![module_line(&m), ws_helper_line(&sym_path, &fs), loaded, lookup_line(&offsets, &looks)];
    // ---- requests
    let mut lines: Vec<String> = Vec::new();
    let nvar = if tier == Tier::Thorough { 6 } else { 4 };
    for (i, &o) in offsets.iter().enumerate() {
        let own: Vec<String> = looks[i].1.iter().flatten().map(|fp| fp.raw_path().to_string()).collect();
        for f in sym_files(&syms[i]) {
            lines.push(format!("req {o} {} reported", hx(&f)));
        }
        for raw in &own {
            // the collapsed spelling and the resolved location are not debug-info paths
            let t = lexically_tidied(raw);
            if t != *raw {
                lines.push(format!("req {o} {} collapsed", hx(&t)));
            }
            if !raw.starts_with('/') {
                lines.push(format!("req {o} {} joined", hx(&format!("/ROOT/sym/{raw}"))));
            }
        }
        for f in files.iter().filter(|f| !own.iter().any(|r| r == *f)) {
            lines.push(format!("req {o} {} other-offset", hx(f)));
        }
        lines.push(format!("req {o} {} arbitrary", hx(*rng.pick(&["/ROOT/src/prog.c", "/ROOT/src/real/prog.c", "/etc/passwd", "prog.c", "../src/prog.c"]))));
        let mut all_vars = Vec::new();
        for raw in &own {
            all_vars.extend(variants(rng, raw));
        }
        for (f, tag) in sample(rng, &mut all_vars, nvar) {
            lines.push(format!("req {o} {} {tag}", hx(&f)));
        }
        if rng.chance(1, 4) {
            if let Some(raw) = own.first() {
                lines.push(format!("reqbadid {o} {} badid", hx(raw)));
            }
        }
    }
    rng.shuffle(&mut lines);
    // ---- what the OS reads for exactly these strings (relative ones from the debug file's directory)
    let mut cand: BTreeSet<String> = BTreeSet::new();
    for f in files.iter().map(|f| f.to_string()).chain(lines.iter().filter_map(|l| l.split_whitespace().nth(2).map(unhx))) {
        let resolved = if f.starts_with('/') { f.clone() } else { format!("/ROOT/sym/{f}") };
        cand.insert(lexically_tidied(&resolved));
        cand.insert(resolved);
    }
    let mut store = String::from("store wholesym aux");
    for p in cand {
        if let Some(n) = env.os_read(&p) {
            store.push_str(&format!(" {}:{n}", hx(&p)));
        }
    }
    ops.push(store);
    ops.extend(lines);
    ops
}

fn ws_execute(ops: &[String], stats: &mut Stats) -> Vec<String> {
    let mut out = Vec::new();
    let parsed = (|| {
        let m = parse_module_line(&ops[0])?;
        let (sym_path, fs) = ws_parse_helper(&ops[1])?;
        let groups = parse_lookup_line(&ops[3])?;
        Some((m, sym_path, fs, groups))
    })();
    let (m, sym_path, fs, groups) = match parsed {
        Some(x) => x,
        None => return vec!["bad-op".to_string()],
    };
    let env = match ws_setup(&m, &sym_path, &fs) {
        Some(e) => e,
        None => return vec!["bad-op".to_string()],
    };
    let offsets: Vec<u32> = groups.iter().map(|g| g.0).collect();
    stats.bump("module_sym_real_wholesym");
    stats.bump(&format!("offsets_{}", offsets.len()));
    stats.bump("policy_wholesym_real");
    // the oracle lines must describe the real code and the real file system
    let (loaded, looks) = env.oracle(&m, &sym_path, &offsets);
    let mut stale = loaded != ops[2] || lookup_line(&offsets, &looks) != ops[3];
    let listed: HashMap<String, usize> =
        ops[4].split_whitespace().skip(3).filter_map(|t| t.split_once(':')).filter_map(|(p, n)| Some((unhx(p), n.parse().ok()?))).collect();
    for (p, n) in &listed {
        stale |= env.os_read(p) != Some(*n);
    }
    for raw in looks.iter().flat_map(|(_, fr)| fr.iter().flatten()).map(|fp| fp.raw_path().to_string()) {
        let resolved = if raw.starts_with('/') { raw.clone() } else { format!("{}/{raw}", dir_of(&sym_path)) };
        stale |= env.os_read(&resolved) != listed.get(&resolved).copied();
        let fam = WS_SPELLINGS.iter().find(|(s, _)| *s == raw).map(|(_, f)| *f).unwrap_or("other");
        stats.bump(&format!("ws_frame_{fam}"));
        if env.os_read(&resolved) != env.os_read(&lexically_tidied(&resolved)) {
            stats.bump("ws_frame_os_and_lexical_reading_differ");
        }
    }
    if stale {
        out.push("oracle-mismatch".to_string());
        stats.bump("oracle_mismatch");
    }
    let addrs = batch_addresses(&offsets);
    let syms = env.symbolicate(&m, &offsets, &addrs, Some(stats));
    for ((o, class, frames), sym) in groups.iter().zip(&syms) {
        stats.bump(&format!("lookup_{class}"));
        stats.bump(&format!("frames_{:02}", frames.len().min(12)));
        let mut api = format!("api {o}");
        for f in frames {
            api.push(' ');
            match f {
                None => api.push('~'),
                Some(fp) => api.push_str(&hx(&to_api_file_path(fp))),
            }
        }
        out.push(api);
        stats.bump(if sym.ends_with(" -") { "sym_nothing" } else { "sym_files" });
        out.push(sym.clone());
    }
    for l in &ops[5..] {
        let w: Vec<&str> = l.split_whitespace().collect();
        let (o, f) = match (w.get(1).and_then(|s| s.parse::<u32>().ok()), w.get(2)) {
            (Some(o), Some(f)) => (o, unhx(f)),
            _ => {
                out.push("bad-op".to_string());
                continue;
            }
        };
        let file = ws_real(&f, &env.root);
        let body = request_body(w[0], &m, o, &file);
        match env.query("/source/v1", &body) {
            Some(resp) => {
                let cls = classify(&resp, &file);
                stats.bump(&format!("req_{}", w.get(3).copied().unwrap_or(w[0])));
                stats.bump(&format!("ws_resp_{}", if cls.starts_with("ok:") { "ok" } else { cls.as_str() }));
                out.push(format!("r {cls}"));
            }
            None => {
                stats.bump("panics");
                out.push("panic".to_string());
            }
        }
    }
    let again = env.symbolicate(&m, &offsets, &addrs, None);
    if again != syms {
        out.push("sym-unstable".to_string());
    }
    out
}

// ---------------------------------------------------------------------------------------------
// execution
// ---------------------------------------------------------------------------------------------

fn classify(resp: &str, requested: &str) -> String {
    let v: serde_json::Value = match serde_json::from_str(resp) {
        Ok(v) => v,
        Err(_) => return "err:not-json".to_string(),
    };
    if let Some(e) = v.get("error").and_then(|e| e.as_str()) {
        let k = if e.starts_with("Couldn't parse request") {
            "parse"
        } else if e.starts_with("Don't have any debug info") {
            "no-debug-info"
        } else if e.starts_with("The requested path is not present") {
            "invalid-path"
        } else if e.starts_with("An error occurred when reading the file") {
            "read-file"
        } else if let Some(inner) = e.strip_prefix("Could not obtain symbols for the requested library: ") {
            if inner.contains("does not support loading source files") {
                "refused-location"
            } else if inner.starts_with("open_file helper callback") || inner.starts_with("FileContents read_bytes_at") {
                "open-file"
            } else {
                "no-symbols"
            }
        } else {
            "other"
        };
        return format!("err:{k}");
    }
    match (v.get("source").and_then(|s| s.as_str()), v.get("file").and_then(|s| s.as_str())) {
        (Some(src), Some(f)) if f == requested => format!("ok:{}", src.len()),
        (Some(_), _) => "err:wrong-file-echoed".to_string(),
        _ => "err:unknown-response".to_string(),
    }
}

fn request_body(op: &str, m: &ModuleSpec, offset: u32, file: &str) -> String {
    let off = format!("0x{offset:x}");
    match op {
        "reqbadid" => {
            let bad = if file.len() % 2 == 0 { "00000000000000000000000000000000 0".replace(' ', "") } else { "not-an-id".to_string() };
            serde_json::json!({"debugName": m.debug_name, "debugId": bad, "moduleOffset": off, "file": file}).to_string()
        }
        "reqmalformed" => match file.len() % 3 {
            0 => serde_json::json!({"debugName": m.debug_name, "debugId": m.breakpad_id, "moduleOffset": offset, "file": file}).to_string(),
            1 => serde_json::json!({"debugName": m.debug_name, "moduleOffset": off, "file": file}).to_string(),
            _ => {
                let s = serde_json::json!({"debugName": m.debug_name, "debugId": m.breakpad_id, "moduleOffset": off, "file": file}).to_string();
                s[..s.len() - 1].to_string()
            }
        },
        _ => serde_json::json!({"debugName": m.debug_name, "debugId": m.breakpad_id, "moduleOffset": off, "file": file}).to_string(),
    }
}

pub struct C09;

impl Prop for C09 {
    fn id(&self) -> &'static str {
        "C09"
    }
    fn case_count(&self, tier: Tier) -> u64 {
        match tier {
            Tier::Quick => 700,
            Tier::Thorough => 7000,
        }
    }
    fn fixed_cases(&self, tier: Tier) -> Vec<Case> {
        // every fixture with debug info, a spread of its offsets (deterministic seed per fixture); every case
        // takes the offset, a close neighbour and (every second case) a far one
        let per = if tier == Tier::Thorough { 40 } else { 6 };
        let mut v = Vec::new();
        // real wholesym: every spelling family once with and once without the decoy files
        for (k, _) in WS_SPELLINGS.iter().enumerate() {
            for decoys in [true, false] {
                let mut rng = Rng::for_case(0xC093, (k * 2 + decoys as usize) as u64);
                v.push(Case { name: format!("ws{k}-{}", if decoys { "decoy" } else { "nodecoy" }), ops: ws_build_case(&mut rng, tier, Some(k), Some(decoys)) });
            }
        }
        for (i, f) in fixtures().iter().enumerate() {
            if f.offsets.is_empty() {
                continue;
            }
            for k in 0..per {
                let mut rng = Rng::for_case(0xC09, (i * 1000 + k) as u64);
                let idx = (k * f.offsets.len()) / per;
                let mut offsets = vec![f.offsets[idx].0, f.offsets[(idx + 1) % f.offsets.len()].0];
                if k % 2 == 1 {
                    offsets.push(f.offsets[(idx + f.offsets.len() / 2) % f.offsets.len()].0);
                }
                let lo = idx.saturating_sub(8);
                let hi = (idx + 8).min(f.offsets.len());
                let others = all_paths(&f.offsets[lo..hi], &offsets);
                let ops = build_case(&mut rng, tier, &f.module, &offsets, &others);
                v.push(Case { name: format!("fx{i}-{k}"), ops });
            }
        }
        v
    }
    fn generate(&self, rng: &mut Rng, tier: Tier, _index: u64) -> Vec<String> {
        let family = match rng.below(22) {
            0..=8 => 0,
            9..=14 => 1,
            15..=19 => 2,
            // real wholesym over real files with symlinks
            _ => return ws_build_case(rng, tier, None, None),
        };
        gen_case(rng, tier, family)
    }
    fn execute(&self, ops: &[String], stats: &mut Stats) -> Vec<String> {
        let mut out = Vec::new();
        if ops.len() < 5 {
            return vec!["bad-op".to_string()];
        }
        if ops[1].starts_with("helper w ") {
            return ws_execute(ops, stats);
        }
        let parsed = (|| {
            let m = parse_module_line(&ops[0])?;
            let (direct, cands) = HelperCfg::parse(&ops[1])?;
            let groups = parse_lookup_line(&ops[3])?;
            let sw: Vec<&str> = ops[4].split_whitespace().collect();
            if sw.len() < 3 || sw[0] != "store" {
                return None;
            }
            let policy = Policy::parse(sw[1])?;
            let cfg = HelperCfg { direct, cands, policy, aux: sw[2] != "noaux" };
            Some((m, cfg, groups, sw))
        })();
        let (m, cfg, groups, sw) = match parsed {
            Some(x) => x,
            None => return vec!["bad-op".to_string()],
        };
        let offsets: Vec<u32> = groups.iter().map(|g| g.0).collect();
        stats.bump(&format!("module_{}", ops[0].split_whitespace().nth(1).unwrap_or("?")));
        if let ModuleKind::File(rel) = &m.kind {
            stats.bump(&format!("fixture_{rel}"));
        }
        stats.bump(&format!("offsets_{}", offsets.len()));
        stats.bump(&format!("policy_{}", cfg.policy.name()));
        stats.bump(if cfg.aux { "aux_present" } else { "aux_absent" });
        stats.bump(&format!(
            "cands_{}{}",
            if cfg.direct { "direct_" } else { "" },
            cfg.cands.iter().map(|c| format!("{}{}", tag(c.remote), &c.content.name()[..2])).collect::<Vec<_>>().join("-")
        ));

        // the oracle lines must still describe the real code (stale corpus / replay files show up here)
        let mut legit = Legit::new();
        let loaded = loaded_line_noting(&m, &cfg, &mut legit);
        let looks = direct_lookups_noting(&m, &cfg, &loaded, &offsets, &mut legit);
        if loaded != ops[2] || lookup_line(&offsets, &looks) != ops[3] {
            out.push("oracle-mismatch".to_string());
            stats.bump("oracle_mismatch");
        }
        match winner_of(&ops[2], &m.breakpad_id) {
            Some(i) => {
                stats.bump(&format!("winner_index_{i}"));
                let t = ops[2].split_whitespace().nth(1 + i).unwrap_or("");
                stats.bump(if t.split(',').nth(1) == Some("r") { "receiver_remote" } else { "receiver_local" });
            }
            None => stats.bump("winner_none"),
        }

        // helper and the ONE symbol manager of this case
        let mut store = HashMap::new();
        for t in sw.iter().skip(3) {
            if let Some((p, n)) = t.split_once(':') {
                let n: usize = n.parse().unwrap_or(0);
                store.insert(unhx(p), Bytes(Arc::new(vec![b'x'; n])));
            }
        }
        let sm = SymbolManager::with_helper(RecHelper::new(m.clone(), cfg.clone(), store));
        let helper = sm.helper();

        // one /symbolicate/v5 request for all offsets and their neighbours
        let addrs = batch_addresses(&offsets);
        let syms = symbolicate_lines(&sm, &m, &offsets, &addrs, Some(stats));
        let mut other_loads: BTreeMap<Kind, u64> = BTreeMap::new();
        for l in helper.take_log() {
            *other_loads.entry(l.kind).or_insert(0) += 1;
            if l.kind != Kind::Source {
                legit.insert((l.kind, l.path));
            }
        }

        // `api` line per offset: the real to_api_file_path on the frames of the lookup line
        for ((o, class, op_frames), sym) in groups.iter().zip(&syms) {
            stats.bump(&format!("lookup_{class}"));
            stats.bump(&format!("frames_{:02}", op_frames.len().min(12)));
            let mut api = format!("api {o}");
            let mut distinct = BTreeSet::new();
            for f in op_frames {
                api.push(' ');
                match f {
                    None => {
                        api.push('~');
                        stats.bump("frame_without_file");
                    }
                    Some(fp) => {
                        let a = to_api_file_path(fp);
                        distinct.insert(a.clone());
                        stats.bump(match fp.mapped_path() {
                            None => "path_unmapped",
                            Some(MappedPath::Git { .. }) => "path_git",
                            Some(MappedPath::Hg { .. }) => "path_hg",
                            Some(MappedPath::S3 { .. }) => "path_s3",
                            Some(MappedPath::Cargo { .. }) => "path_cargo",
                        });
                        if fp.mapped_path().is_some() && matches!(m.kind, ModuleKind::File(ref r) if !r.ends_with(".pdb")) {
                            stats.bump("path_mapped_by_path_mapper_rs");
                        }
                        if a != fp.raw_path() {
                            stats.bump("raw_differs_from_api");
                        }
                        api.push_str(&hx(&a));
                    }
                }
            }
            let with_file = op_frames.iter().flatten().count();
            if with_file > distinct.len() {
                stats.bump("frames_sharing_a_file");
            }
            if distinct.len() > 1 {
                stats.bump("frames_with_several_files");
            }
            out.push(api);
            stats.bump(if sym.ends_with(" -") { "sym_nothing" } else if sym.ends_with(" panic") { "sym_panic" } else { "sym_files" });
            out.push(sym.clone());
        }

        for l in &ops[5..] {
            let w: Vec<&str> = l.split_whitespace().collect();
            let (file, body, tag_idx) = if w.first() == Some(&"reqx") && w.len() >= 5 {
                let id = match w[2] {
                    "=" => m.breakpad_id.clone(),
                    t => unhx(&t[1..]),
                };
                let file = unhx(w[4]);
                let body = serde_json::json!({"debugName": unhx(w[1]), "debugId": id, "moduleOffset": unhx(w[3]), "file": file}).to_string();
                (file, body, 5)
            } else {
                let offset: Option<u32> = w.get(1).and_then(|s| s.parse().ok());
                match (offset, w.get(2)) {
                    (Some(o), Some(f)) => {
                        let file = unhx(f);
                        let body = request_body(w[0], &m, o, &file);
                        (file, body, 3)
                    }
                    _ => {
                        out.push("bad-op".to_string());
                        continue;
                    }
                }
            };
            helper.take_log();
            let r = std::panic::catch_unwind(std::panic::AssertUnwindSafe(|| {
                futures::executor::block_on(samply_api::Api::new(&sm).query_api("/source/v1", &body))
            }));
            let log = helper.take_log();
            let mut line = match r {
                // "open_file helper callback" is also the message when the only debug-file candidate cannot be
                // opened (lib.rs:364-366 returns the single error as it is): an open-file error without a
                // source-file load is a failure to obtain the symbols
                Ok(resp) => match classify(&resp, &file) {
                    c if c == "err:open-file" && !log.iter().any(|l| l.kind == Kind::Source) => "r err:no-symbols".to_string(),
                    c => format!("r {c}"),
                },
                Err(_) => {
                    stats.bump("panics");
                    out.push("panic".to_string());
                    continue;
                }
            };
            let mut nsrc = 0;
            for l in log {
                if l.kind == Kind::Source {
                    line.push_str(&format!(" {},{},{}", tag(l.remote), hx(l.base.as_deref().unwrap_or("")), hx(&l.path)));
                    nsrc += 1;
                    if l.path.starts_with("url:") {
                        stats.bump("source_load_url");
                    } else if l.base.as_deref().map(|b| !b.is_empty() && l.path.starts_with(dir_of(b)) && !dir_of(b).is_empty()).unwrap_or(false)
                        && cfg.policy == Policy::Wholesym
                    {
                        stats.bump("source_load_joined_to_debug_dir");
                    }
                } else {
                    *other_loads.entry(l.kind).or_insert(0) += 1;
                    // a load through another constructor (`location_for_external_object_file(requested)` …)
                    // that the library's own symbol lookup never makes is reported: neither the model nor the
                    // judge accepts such a token
                    if !legit.contains(&(l.kind, l.path.clone())) {
                        line.push_str(&format!(" x{:?},{}", l.kind, hx(&l.path)));
                        stats.bump("unexpected_non_source_load");
                    }
                }
            }
            stats.bump(&format!("req_{}", w.get(tag_idx).copied().unwrap_or(w[0])));
            let cls = line.split_whitespace().nth(1).unwrap_or("?");
            stats.bump(&format!("resp_{}", if cls.starts_with("ok:") { "ok" } else { cls }));
            stats.bump(&format!("source_loads_{nsrc}"));
            out.push(line);
        }

        // the manager has now seen every offset through both endpoints: the batched answer must not have moved
        let again = symbolicate_lines(&sm, &m, &offsets, &addrs, None);
        helper.take_log();
        if again != syms {
            stats.bump("sym_unstable");
            out.push("sym-unstable".to_string());
        }
        for (k, n) in other_loads {
            stats.add(&format!("non_source_loads_{k:?}"), n);
        }
        out
    }
    fn nontrivial(&self, _ops: &[String], out: &[String]) -> bool {
        // at least one request read a source file and at least one was refused
        out.iter().any(|l| (l.starts_with("r ") && l.split_whitespace().count() > 2) || l.starts_with("r ok:"))
            && out.iter().any(|l| l.starts_with("r err:invalid-path"))
    }
}

fn main() {
    if std::env::var("C09_PROBE").is_ok() {
        for f in fixtures() {
            let rel = match &f.module.kind {
                ModuleKind::File(r) => r.clone(),
                _ => String::new(),
            };
            let differs = f.offsets.iter().flat_map(|(_, fr)| fr.iter().flatten()).filter(|fp| api_of(fp) != fp.raw_path()).count();
            let multi = f.offsets.iter().filter(|(_, fr)| fr.len() > 1).count();
            let deepest = f.offsets.iter().map(|(_, fr)| fr.len()).max().unwrap_or(0);
            println!("{rel} id={} offsets_with_files={} inlined={} deepest={} raw!=api={} plain={}", f.module.breakpad_id, f.offsets.len(), multi, deepest, differs, f.plain_offsets.len());
            if let Some((o, fr)) = f.offsets.iter().find(|(_, fr)| fr.iter().flatten().any(|fp| api_of(fp) != fp.raw_path())) {
                for fp in fr.iter().flatten() {
                    println!("   {o:#x} raw={} api={}", fp.raw_path(), api_of(fp));
                }
            }
        }
        return;
    }
    // maintenance: `C09_FIX_ORACLE=<ops file>` rewrites the oracle lines (`loaded`, `lookup`) of every case
    if let Ok(path) = std::env::var("C09_FIX_ORACLE") {
        let text = std::fs::read_to_string(&path).expect("read");
        let mut cases = parse_blocks(&text);
        for (_, ops) in cases.iter_mut() {
            let m = parse_module_line(&ops[0]).expect("module");
            let (direct, cands) = HelperCfg::parse(&ops[1]).expect("helper");
            let sw: Vec<&str> = ops[4].split_whitespace().collect();
            let cfg = HelperCfg { direct, cands, policy: Policy::parse(sw[1]).expect("policy"), aux: sw[2] != "noaux" };
            let offsets: Vec<u32> =
                ops[3].split_whitespace().skip(1).map(|t| t.split('=').next().unwrap().parse().expect("offset")).collect();
            let loaded = loaded_line(&m, &cfg);
            ops[3] = lookup_line(&offsets, &direct_lookups(&m, &cfg, &loaded, &offsets));
            ops[2] = loaded;
        }
        std::fs::write(&path, render_blocks(&cases)).expect("write");
        return;
    }
    verif_harness::runner::run_main(&C09);
}
