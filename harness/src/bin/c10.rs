//! C10 — "the Breakpad symbol index is independent of chunking and agrees with the .sym text".
//! Drives the real `samply_symbols::BreakpadIndexCreator`, `BreakpadIndex::{parse_symindex_file,
//! serialize_to_bytes}` and the Breakpad symbol map (through `SymbolManager` with an in-memory
//! `FileAndPathHelper`). All numbers decimal; `<hex>` = `common::hex` (`-` = empty byte string).
//!
//! ops of one case, in this order
//!     family <name>                       wf | origin-in-func | line-gap | dup | edge | junk | big | fixed
//!     reading <0|1>                       1: the judge also compares with a direct reading of the abstract records
//!     l <hex> <kind> <fields…>            one line of the .sym text INCLUDING its terminator; kind/fields = abstract record
//!         module <os> <arch> <id> <name> | info <rest> | file <idx> <name> | origin <idx> <name>
//!         public <m> <addr> <psize> <name> | func <m> <addr> <size> <psize> <name> | line <addr> <size> <line> <file>
//!         inline <depth> <call_line> <call_file> <origin> (<addr> <size>)+ | stack | junk     (names etc. as <hex>)
//!     rep <count> <hex> junk              <hex> repeated <count> times (files > 1 MiB)
//!     tiebreak <sym|file|origin> <key> <offset>   file offset of the entry that survived sort_unstable + dedup
//!     part <cut>*                         chunks [0,c1) [c1,c2) … [ck,len), cuts clamped to len; no cuts = one chunk
//!     partsize <n>                        chunks of n bytes; zero chunks for the empty file
//!     lookup <addr>*                      relative addresses to look up (≤ 40 per line), in this order; a second pass
//!                                         repeats addresses in shuffled / descending order
//!     itersyms                            call `iter_symbols()` on the map at this point of the lookup sequence
//!     stored <kind> <hex>                 one more map over the same text that is offered these bytes as `.symindex`
//!                                         kind: empty | trunc | magic | counts | foreign | foreign-module |
//!                                         foreign-prefix | two-module | two-module-sameid | garbage | padded
//!     wholesym fresh                      the text as `<dir>/x/<ID>/x.sym` under a `wholesym::SymbolManager` with
//!     wholesym stale <kind> <hex>         `breakpad_symbol_dir` + `breakpad_symindex_cache_dir`; stale: the `.symindex`
//!                                         file exists already with these bytes
//!   The file = concatenation of all l / rep payloads. The first partition op is always `part`.
//!   `execute` uses only the bytes of l / rep, the partition ops and the lookups (replayable).
//!
//! output
//!     part <i> <ok|err|panic> <len> <fnv>     per partition op: fresh creator, consume per chunk, finish; FNV-1a 64 of the index
//!   if part 0 is ok, from its bytes:
//!     bytes <hex>
//!     hdr <version> <mi_off> <mi_len> <file_count> <file_off> <origin_count> <origin_off> <sym_count> <addr_off> <entries_off>
//!     modinfo <hex> / file <index> <line_len> <offset>* / origin <index> <line_len> <offset>* / sym <addr> <kind> <len> <offset>*
//!         (own decoder `gen::breakpad_sym::decode_symindex`; `undecodable` instead if that fails)
//!     roundtrip <ok|err|panic> <reser_len> <reser_fnv> <same|diff>   parse_symindex_file + serialize_to_bytes; same = parsed
//!         public fields equal the own decoder's result
//!   then the symbol maps (file served under location "sym"):
//!     selfmap <ok <debugid>|err:notbreakpad|err:nomodule|err:other|panic>        no stored index (1 MiB chunks inside samply)
//!     look <addr> none | look <addr> panic | look <addr> sym <symaddr> <size|none> <namehex> <nframes|none|ext>
//!     frame <functionhex|none> <filehex|none> <line|none>                        nframes of them after such a look line
//!     storedmap … / slook … / sframe …     the same with the index bytes of the LAST partition op served as .symindex
//!         (if that op is not ok the location offers no symindex)
//!     iter <addr> <namehex> / siter …     per symbol `iter_symbols()` yields, after an `itersyms` op (`iter panic`)
//!     x<k>map / x<k>look / x<k>frame / x<k>iter      the same for the k-th `stored` op
//!     w<k>map / w<k>look / w<k>frame / w<k>iter      the same for the k-th `wholesym` op (err:load if no map), then
//!     w<k>index <absent|<len> <fnv>>      the `.symindex` file in the cache directory afterwards
// (no glob import: `FileContents::len` would shadow `<[u8]>::len` on `&&[u8]`)
use samply_symbols::{
    BreakpadIndex, BreakpadIndexCreator, CandidatePathInfo, Error, FileAndPathHelper, FileAndPathHelperResult, FileLocation,
    FramesLookupResult, LibraryInfo, LookupAddress, OptionallySendFuture, SymbolManager,
};
use std::collections::{BTreeMap, BTreeSet};
use std::panic::{catch_unwind, AssertUnwindSafe};
use verif_harness::common::*;
use verif_harness::gen::breakpad_sym::*;

pub struct C10;

// ---------------------------------------------------------------------------------------------
// in-memory helper: "sym" = the .sym file without an index, "sym+index" = with index "index"
// ---------------------------------------------------------------------------------------------

#[derive(Clone)]
struct Loc(&'static str);
impl std::fmt::Display for Loc {
    fn fmt(&self, f: &mut std::fmt::Formatter<'_>) -> std::fmt::Result {
        write!(f, "{}", self.0)
    }
}
impl FileLocation for Loc {
    fn location_for_dyld_subcache(&self, _: &str) -> Option<Self> {
        None
    }
    fn location_for_external_object_file(&self, _: &str) -> Option<Self> {
        None
    }
    fn location_for_pdb_from_binary(&self, _: &str) -> Option<Self> {
        None
    }
    fn location_for_source_file(&self, _: &str) -> Option<Self> {
        None
    }
    fn location_for_breakpad_symindex(&self) -> Option<Self> {
        (self.0 == "sym+index").then_some(Loc("index"))
    }
    fn location_for_dwo(&self, _: &str, _: &str) -> Option<Self> {
        None
    }
    fn location_for_dwp(&self) -> Option<Self> {
        None
    }
}

struct Helper {
    sym: Vec<u8>,
    index: Vec<u8>,
}
impl FileAndPathHelper for Helper {
    type F = Vec<u8>;
    type FL = Loc;
    fn get_candidate_paths_for_debug_file(&self, _: &LibraryInfo) -> FileAndPathHelperResult<Vec<CandidatePathInfo<Loc>>> {
        Ok(vec![])
    }
    fn get_candidate_paths_for_binary(&self, _: &LibraryInfo) -> FileAndPathHelperResult<Vec<CandidatePathInfo<Loc>>> {
        Ok(vec![])
    }
    fn get_dyld_shared_cache_paths(&self, _: Option<&str>) -> FileAndPathHelperResult<Vec<Loc>> {
        Ok(vec![])
    }
    fn load_file(&self, l: Loc) -> std::pin::Pin<Box<dyn OptionallySendFuture<Output = FileAndPathHelperResult<Vec<u8>>> + '_>> {
        let d = if l.0 == "index" { self.index.clone() } else { self.sym.clone() };
        Box::pin(async move { Ok(d) })
    }
}

// ---------------------------------------------------------------------------------------------
// running the real code
// ---------------------------------------------------------------------------------------------

fn fnv64(bytes: &[u8]) -> u64 {
    let mut h: u64 = 0xcbf29ce484222325;
    for b in bytes {
        h ^= *b as u64;
        h = h.wrapping_mul(0x100000001b3);
    }
    h
}

enum PartOp {
    Cuts(Vec<usize>),
    Size(usize),
}

/// Chunk boundaries of a partition op for a file of `len` bytes.
fn chunks(op: &PartOp, len: usize) -> Vec<(usize, usize)> {
    let mut v = Vec::new();
    match op {
        PartOp::Cuts(cuts) => {
            let mut prev = 0;
            for c in cuts {
                let c = (*c).min(len).max(prev);
                v.push((prev, c));
                prev = c;
            }
            v.push((prev, len));
        }
        PartOp::Size(n) => {
            let n = (*n).max(1);
            let mut p = 0;
            while p < len {
                v.push((p, (p + n).min(len)));
                p += n;
            }
        }
    }
    v
}

/// Fresh creator, one `consume` per chunk, `finish`. Returns (status, index bytes).
fn run_creator(file: &[u8], chunks: &[(usize, usize)]) -> (&'static str, Vec<u8>) {
    let r = catch_unwind(AssertUnwindSafe(|| {
        let mut c = BreakpadIndexCreator::new();
        for (a, b) in chunks {
            c.consume(&file[*a..*b]);
        }
        c.finish()
    }));
    match r {
        Ok(Ok(bytes)) => ("ok", bytes),
        Ok(Err(_)) => ("err", Vec::new()),
        Err(_) => ("panic", Vec::new()),
    }
}

fn index_lines(bytes: &[u8], out: &mut Vec<String>) {
    out.push(format!("bytes {}", hex(bytes)));
    let dec = decode_symindex(bytes);
    match &dec {
        None => out.push("undecodable".to_string()),
        Some(d) => {
            out.push(format!("hdr {}", d.header.iter().map(|v| v.to_string()).collect::<Vec<_>>().join(" ")));
            out.push(format!("modinfo {}", hex(&d.module_info)));
            for (tag, t) in [("file", &d.files), ("origin", &d.origins)] {
                for (i, l, o) in t {
                    out.push(format!("{tag} {i} {l} {o}"));
                }
            }
            for (a, k, l, o) in &d.syms {
                out.push(format!("sym {a} {k} {l} {o}"));
            }
        }
    }
    let rt = catch_unwind(AssertUnwindSafe(|| match BreakpadIndex::parse_symindex_file(bytes) {
        Err(_) => "roundtrip err 0 0 diff".to_string(),
        Ok(idx) => {
            let re = idx.serialize_to_bytes();
            // (the entry type is not re-exported by samply-symbols, hence a macro instead of a function)
            macro_rules! table {
                ($t:expr) => {
                    $t.iter().map(|e| (e.index.get(), e.line_len.get(), e.offset.get())).collect::<Vec<(u32, u32, u64)>>()
                };
            }
            let parsed = DecodedIndex {
                header: dec.as_ref().map(|d| d.header).unwrap_or([0; 10]), // the header is not a public field
                module_info: idx.module_info_bytes.to_vec(),
                files: table!(idx.files.as_slice()),
                origins: table!(idx.inline_origins.as_slice()),
                syms: idx
                    .symbol_addresses
                    .iter()
                    .zip(idx.symbol_entries.iter())
                    .map(|(a, e)| (a.get(), e.kind.get(), e.line_or_block_len.get(), e.offset.get()))
                    .collect(),
            };
            let same = idx.symbol_addresses.len() == idx.symbol_entries.len() && Some(&parsed) == dec.as_ref();
            format!("roundtrip ok {} {} {}", re.len(), fnv64(&re), if same { "same" } else { "diff" })
        }
    }));
    out.push(rt.unwrap_or_else(|_| "roundtrip panic 0 0 diff".to_string()));
}

/// What `emit_map` needs of a symbol map (samply-symbols' and wholesym's wrappers of the same map).
trait MapApi {
    fn id(&self) -> String;
    fn look(&self, a: u32) -> Option<samply_symbols::SyncAddressInfo>;
    fn iter(&self) -> Vec<(u32, String)>;
}
impl MapApi for samply_symbols::SymbolMap<Helper> {
    fn id(&self) -> String {
        self.debug_id().breakpad().to_string()
    }
    fn look(&self, a: u32) -> Option<samply_symbols::SyncAddressInfo> {
        self.lookup_sync(LookupAddress::Relative(a))
    }
    fn iter(&self) -> Vec<(u32, String)> {
        self.iter_symbols().map(|(a, n)| (a, n.into_owned())).collect()
    }
}
impl MapApi for wholesym::SymbolMap {
    fn id(&self) -> String {
        self.debug_id().breakpad().to_string()
    }
    fn look(&self, a: u32) -> Option<samply_symbols::SyncAddressInfo> {
        self.lookup_sync(LookupAddress::Relative(a))
    }
    fn iter(&self) -> Vec<(u32, String)> {
        self.iter_symbols().map(|(a, n)| (a, n.into_owned())).collect()
    }
}

/// `Some(a)` = lookup of `a`, `None` = `iter_symbols()`.
type Action = Option<u32>;

/// Lines of one loaded symbol map: `<m> ok <id>`, then per action `<p>look …` + `<p>frame …` or `<p>iter …`.
fn emit_map(map: &dyn MapApi, actions: &[Action], m: &str, p: &str, out: &mut Vec<String>, stats: &mut Stats) {
    stats.bump(&format!("{m}_ok"));
    out.push(format!("{m} ok {}", map.id()));
    let opt = |o: Option<String>| o.unwrap_or_else(|| "none".to_string());
    for act in actions {
        let Some(a) = *act else {
            stats.bump("itersyms");
            match catch_unwind(AssertUnwindSafe(|| map.iter())) {
                Err(_) => out.push(format!("{p}iter panic")),
                Ok(v) => {
                    stats.add("iter_symbols", v.len() as u64);
                    out.extend(v.iter().map(|(a, n)| format!("{p}iter {a} {}", hex(n.as_bytes()))));
                }
            }
            continue;
        };
        stats.bump("lookups");
        match catch_unwind(AssertUnwindSafe(|| map.look(a))) {
            Err(_) => {
                stats.bump("look_panic");
                out.push(format!("{p}look {a} panic"));
            }
            Ok(None) => {
                stats.bump("look_none");
                out.push(format!("{p}look {a} none"));
            }
            Ok(Some(info)) => {
                let (n, frames) = match &info.frames {
                    None => ("none".to_string(), &[][..]),
                    Some(FramesLookupResult::Available(fr)) => (fr.len().to_string(), &fr[..]),
                    Some(_) => ("ext".to_string(), &[][..]),
                };
                stats.bump(if info.frames.is_some() { "look_func" } else { "look_public" });
                if frames.len() > 1 {
                    stats.bump("look_frames>1");
                    stats.bump(&format!("look_frames={}", frames.len().min(5)));
                }
                let s = &info.symbol;
                out.push(format!("{p}look {a} sym {} {} {} {n}", s.address, opt(s.size.map(|v| v.to_string())), hex(s.name.as_bytes())));
                for fr in frames {
                    if fr.file_path.is_none() {
                        stats.bump("frame_without_file");
                    }
                    out.push(format!(
                        "{p}frame {} {} {}",
                        opt(fr.function.as_ref().map(|s| hex(s.as_bytes()))),
                        opt(fr.file_path.as_ref().map(|p| hex(p.raw_path().as_bytes()))),
                        opt(fr.line_number.map(|v| v.to_string()))
                    ));
                }
            }
        }
    }
}

/// One symbol map through samply-symbols with the in-memory helper; `index` = bytes offered as `.symindex`.
fn map_lines(file: &[u8], index: Option<&[u8]>, actions: &[Action], m: &str, p: &str, out: &mut Vec<String>, stats: &mut Stats) {
    let helper = Helper { sym: file.to_vec(), index: index.map(|b| b.to_vec()).unwrap_or_default() };
    let loc = Loc(if index.is_some() { "sym+index" } else { "sym" });
    let sm = SymbolManager::with_helper(helper);
    let loaded = catch_unwind(AssertUnwindSafe(|| futures::executor::block_on(sm.load_symbol_map_from_location(loc, None))));
    match loaded {
        Err(_) => {
            stats.bump(&format!("{m}_panic"));
            out.push(format!("{m} panic"));
        }
        Ok(Err(e)) => {
            let kind = match e {
                Error::InvalidInputError(_) => "err:notbreakpad",
                Error::BreakpadParsing(_) => "err:nomodule",
                _ => "err:other",
            };
            stats.bump(&format!("{m}_{kind}"));
            out.push(format!("{m} {kind}"));
        }
        Ok(Ok(map)) => emit_map(&map, actions, m, p, out, stats),
    }
}

static WS_COUNTER: std::sync::atomic::AtomicU64 = std::sync::atomic::AtomicU64::new(0);

/// The text as a local `.sym` file of a `wholesym::SymbolManager` with a symindex cache directory
/// (`ensure_symindex` → `parse_sym_file_into_index`, 2 MiB reads; an existing `.symindex` is reused).
/// `debug_id` = what the self-indexing map reported (the file is stored where that id is looked for);
/// `None` (no self map) ⇒ a fixed id, the load is then expected to fail the way the self map did.
fn wholesym_lines(file: &[u8], existing: Option<&[u8]>, debug_id: Option<&str>, self_status: &str, actions: &[Action], k: usize, out: &mut Vec<String>, stats: &mut Stats) {
    let (m, p) = (format!("w{k}map"), format!("w{k}"));
    let root = std::env::var("VERIF_ROOT").map(std::path::PathBuf::from).unwrap_or_else(|_| std::env::current_dir().unwrap());
    let dir = root.join(".work/C10/tmp").join(format!("ws-{}-{}", std::process::id(), WS_COUNTER.fetch_add(1, std::sync::atomic::Ordering::SeqCst)));
    let id = debug_id.and_then(|s| debugid::DebugId::from_breakpad(s).ok());
    let id_for_path = id.unwrap_or_else(|| debugid::DebugId::from_breakpad("0123456789ABCDEF0123456789ABCDEF0").unwrap());
    let rel = format!("x/{}/x.sym", id_for_path.breakpad());
    let (sym_dir, idx_dir) = (dir.join("syms"), dir.join("symindex"));
    let sym_path = sym_dir.join(&rel);
    let idx_path = idx_dir.join(&rel).with_extension("symindex");
    let prepared = std::fs::create_dir_all(sym_path.parent().unwrap()).and_then(|_| std::fs::write(&sym_path, file)).and_then(|_| match existing {
        Some(b) => std::fs::create_dir_all(idx_path.parent().unwrap()).and_then(|_| std::fs::write(&idx_path, b)),
        None => Ok(()),
    });
    if prepared.is_err() {
        out.push(format!("{m} err:setup"));
        let _ = std::fs::remove_dir_all(&dir);
        return;
    }
    stats.bump(if existing.is_some() { "wholesym_stale" } else { "wholesym_fresh" });
    let loaded = catch_unwind(AssertUnwindSafe(|| {
        let rt = tokio::runtime::Builder::new_current_thread().enable_all().build().unwrap();
        rt.block_on(async {
            let config = wholesym::SymbolManagerConfig::new().breakpad_symbol_dir(sym_dir.clone()).breakpad_symindex_cache_dir(idx_dir.clone());
            let sm = wholesym::SymbolManager::with_config(config);
            sm.load_symbol_map("x", id_for_path).await
        })
    }));
    match loaded {
        Err(_) => out.push(format!("{m} panic")),
        // wholesym reports "no candidate worked"; the reason is the one the self-indexing map gave for the same bytes
        Ok(Err(_)) => out.push(format!("{m} {}", if self_status.starts_with("err:") { self_status } else { "err:load" })),
        Ok(Ok(map)) => emit_map(&map, actions, &m, &p, out, stats),
    }
    out.push(match std::fs::read(&idx_path) {
        Ok(b) => format!("{p}index {} {}", b.len(), fnv64(&b)),
        Err(_) => format!("{p}index absent"),
    });
    let _ = std::fs::remove_dir_all(&dir);
}

// ---------------------------------------------------------------------------------------------
// building cases
// ---------------------------------------------------------------------------------------------

/// One `l` or `rep` op: payload, repeat count (1 for `l`), description.
struct Item {
    bytes: Vec<u8>,
    count: usize,
    desc: String,
}

fn items_of(r: &Rendered) -> Vec<Item> {
    r.lines.iter().map(|l| Item { bytes: l.bytes.clone(), count: 1, desc: l.desc.clone() }).collect()
}

fn file_of(items: &[Item]) -> Vec<u8> {
    let mut v = Vec::new();
    for it in items {
        for _ in 0..it.count {
            v.extend_from_slice(&it.bytes);
        }
    }
    v
}

const ORACLE_MODULE: &[u8] = b"MODULE a b 0123456789ab c\n";

/// `tiebreak` ops. Which (table, key) a line contributes is asked of the real creator, line by
/// line (the line alone after a valid MODULE line), so that accidental duplicates in the `edge` /
/// `junk` families are covered as well as the deliberate ones of `dup`; the survivor is read off
/// the index of the whole file consumed as one chunk. Keys with a single candidate get no op.
fn tiebreaks(items: &[Item], file: &[u8]) -> Vec<String> {
    let mut count: BTreeMap<(u8, u32), usize> = BTreeMap::new();
    for it in items {
        let mut probe = ORACLE_MODULE.to_vec();
        probe.extend_from_slice(&it.bytes);
        probe.push(b'\n');
        let (st, idx) = run_creator(&probe, &[(0, probe.len())]);
        let Some(d) = (st == "ok").then(|| decode_symindex(&idx)).flatten() else { continue };
        let keys = d.syms.iter().map(|s| (0u8, s.0)).chain(d.files.iter().map(|f| (1u8, f.0))).chain(d.origins.iter().map(|f| (2u8, f.0)));
        for k in keys {
            *count.entry(k).or_insert(0) += it.count;
        }
    }
    if !count.values().any(|c| *c >= 2) {
        return Vec::new();
    }
    let (st, idx) = run_creator(file, &[(0, file.len())]);
    let Some(d) = (st == "ok").then(|| decode_symindex(&idx)).flatten() else { return Vec::new() };
    let mut out = Vec::new();
    for ((table, key), c) in count {
        if c < 2 {
            continue;
        }
        let (name, off) = match table {
            0 => ("sym", d.syms.iter().find(|s| s.0 == key).map(|s| s.3)),
            1 => ("file", d.files.iter().find(|f| f.0 == key).map(|f| f.2)),
            _ => ("origin", d.origins.iter().find(|f| f.0 == key).map(|f| f.2)),
        };
        if let Some(off) = off {
            out.push(format!("tiebreak {name} {key} {off}"));
        }
    }
    out
}

fn cuts_op(cuts: &[usize]) -> String {
    let mut s = "part".to_string();
    for c in cuts {
        s.push_str(&format!(" {c}"));
    }
    s
}

/// Cost limits agreed with the Lean side (its model is quadratic in leftover length × chunks).
const LONG_LINE: usize = 5000; // files with a longer line: only partsize ≥ 64 and ≤ 50 cuts per part
const MAX_CUTS: usize = 4000; // per part op, any file
const PARTSIZE1_MAX_LEN: usize = 20000; // no `partsize 1` for longer files
const ALL_CUTS_MAX_LEN: usize = 1500; // thorough: every single-cut partition for files up to this size

fn gen_partitions(rng: &mut Rng, file: &[u8], tier: Tier) -> Vec<String> {
    let len = file.len();
    let nl: Vec<usize> = (0..len).filter(|i| file[*i] == b'\n').collect();
    let mut starts = vec![0];
    starts.extend(nl.iter().map(|p| p + 1));
    let long = starts.windows(2).any(|w| w[1] - w[0] > LONG_LINE) || len - starts.last().unwrap() > LONG_LINE;
    let max_cuts = if long { 50 } else { MAX_CUTS };
    let mut v = vec!["part".to_string()];
    if !long && len <= PARTSIZE1_MAX_LEN {
        v.push("partsize 1".to_string());
    }
    v.push(format!("partsize {}", if long { *rng.pick(&[64, 4096, 65536]) } else { *rng.pick(&[2, 3, 7, 64, 4096]) }));
    for _ in 0..3 {
        let mut c: Vec<usize> = (0..rng.range(1, 30)).map(|_| rng.below(len as u64 + 1) as usize).collect();
        c.sort();
        v.push(cuts_op(&c));
    }
    if !nl.is_empty() {
        let lists: [Vec<usize>; 4] = [
            nl.clone(),                                        // before every \n
            nl.iter().map(|p| p + 1).collect(),                // after every \n
            nl.iter().flat_map(|p| [*p, p + 1]).collect(),     // both
            nl.iter().map(|p| p.saturating_sub(1)).collect(),  // before the \r of CRLF
        ];
        for c in lists.iter().filter(|c| c.len() <= max_cuts) {
            v.push(cuts_op(c));
        }
        for _ in 0..6 {
            let c = (*rng.pick(&nl) + rng.below(5) as usize).saturating_sub(2).min(len); // p-2 ..= p+2
            v.push(format!("part {c}"));
        }
    }
    for _ in 0..2 {
        // repeated cuts: empty chunks
        let mut c = Vec::new();
        for _ in 0..rng.range(1, 6) {
            let p = if !nl.is_empty() && rng.chance(1, 2) { *rng.pick(&nl) + rng.below(2) as usize } else { rng.below(len as u64 + 1) as usize };
            for _ in 0..rng.range(2, 3) {
                c.push(p);
            }
        }
        c.sort();
        v.push(cuts_op(&c));
    }
    v.push("part 0".to_string());
    v.push(format!("part {len}"));
    if tier == Tier::Thorough && len <= ALL_CUTS_MAX_LEN && !long {
        v.extend((0..=len).map(|k| format!("part {k}")));
    }
    v
}

/// `interesting` capped at 150 (the symbol-boundary addresses are kept first) + 10 random ones.
fn gen_lookups(rng: &mut Rng, interesting: &[u32], boundary: &[u32]) -> Vec<String> {
    let mut sel: BTreeSet<u32> = BTreeSet::new();
    if interesting.len() <= 150 {
        sel.extend(interesting);
    } else {
        let mut b = boundary.to_vec();
        rng.shuffle(&mut b);
        sel.extend(b.iter().take(110));
        let mut rest: Vec<u32> = interesting.iter().copied().filter(|a| !sel.contains(a)).collect();
        rng.shuffle(&mut rest);
        let room = 150 - sel.len();
        sel.extend(rest.iter().take(room));
    }
    let mut addrs: Vec<u32> = sel.into_iter().collect();
    for i in 0..10 {
        addrs.push(if i < 5 || interesting.is_empty() {
            rng.next_u64() as u32
        } else {
            rng.pick(interesting).wrapping_add(rng.below(0x40) as u32).wrapping_sub(0x10)
        });
    }
    let line = |c: &[u32]| format!("lookup {}", c.iter().map(|a| a.to_string()).collect::<Vec<_>>().join(" "));
    let mut ops: Vec<String> = addrs.chunks(40).map(line).collect();
    // second pass after `iter_symbols()` has filled the caches through its own code path: a shuffled
    // selection (addresses seen before, so every cache entry is hit again), some addresses twice in a row,
    // and a strictly descending run (a "remember the last index and gallop forward" fast path is wrong
    // exactly there)
    ops.push("itersyms".to_string());
    let mut second = addrs.clone();
    rng.shuffle(&mut second);
    second.truncate(24);
    let twice: Vec<u32> = second.iter().take(4).flat_map(|a| [*a, *a]).collect();
    let mut desc: Vec<u32> = second.clone();
    desc.sort();
    desc.dedup();
    desc.reverse();
    desc.truncate(12);
    second.extend(twice);
    second.extend(desc);
    ops.extend(second.chunks(40).map(line));
    ops
}

/// Addresses mentioned on FUNC / PUBLIC-looking lines in any spelling (tabs, several spaces, …),
/// for the families whose lines the strict describer calls `junk`.
fn extra_addresses(items: &[Item]) -> Vec<u32> {
    let mut v = Vec::new();
    for it in items.iter().filter(|it| it.count == 1 && it.bytes.len() < 300) {
        let text = String::from_utf8_lossy(&it.bytes).to_ascii_uppercase();
        let t = text.trim_start();
        if !(t.starts_with("FUNC") || t.starts_with("PUBLIC")) {
            continue;
        }
        let nums: Vec<u64> = t.split_whitespace().skip(1).take(4).filter_map(|w| u64::from_str_radix(w, 16).ok()).collect();
        for (i, n) in nums.iter().enumerate() {
            v.extend([*n as u32, (*n as u32).wrapping_sub(1), (*n as u32).wrapping_add(1)]);
            if i == 0 && nums.len() > 1 {
                v.extend([n.wrapping_add(nums[1]) as u32, n.wrapping_add(nums[1]).wrapping_sub(1) as u32]);
            }
        }
    }
    v
}

fn build_ops(rng: &mut Rng, tier: Tier, family: &str, reading: u8, items: &[Item], partitions: Option<Vec<String>>, extra_lookups: &[u32]) -> Vec<String> {
    build_ops_with(rng, tier, family, reading, items, partitions, extra_lookups, Vec::new())
}

#[allow(clippy::too_many_arguments)]
fn build_ops_with(rng: &mut Rng, tier: Tier, family: &str, reading: u8, items: &[Item], partitions: Option<Vec<String>>, extra_lookups: &[u32], extra_ops: Vec<String>) -> Vec<String> {
    let file = file_of(items);
    let mut ops = vec![format!("family {family}"), format!("reading {reading}")];
    for it in items {
        if it.count == 1 {
            ops.push(format!("l {} {}", hex(&it.bytes), it.desc));
        } else {
            ops.push(format!("rep {} {} junk", it.count, hex(&it.bytes)));
        }
    }
    ops.extend(tiebreaks(items, &file));
    ops.extend(partitions.unwrap_or_else(|| gen_partitions(rng, &file, tier)));
    ops.extend(extra_ops);
    let descs = || items.iter().filter(|it| it.count == 1).map(|it| it.desc.as_str());
    let mut interesting: BTreeSet<u32> = addresses_of_descs(descs(), false).into_iter().collect();
    interesting.extend(extra_lookups);
    let interesting: Vec<u32> = interesting.into_iter().collect();
    let mut lookups = gen_lookups(rng, &interesting, &addresses_of_descs(descs(), true));
    if family == "big" {
        // the model re-parses the 1 MiB FUNC block for every lookup: first pass only
        let at = lookups.iter().position(|l| l == "itersyms").unwrap_or(lookups.len());
        lookups.truncate(at);
    }
    ops.extend(lookups);
    ops
}

// ---------------------------------------------------------------------------------------------
// families edge and junk
// ---------------------------------------------------------------------------------------------

/// Snippets of one or more lines (no terminators) around the numeric and syntactic limits of the
/// parsers; a snippet starting with FUNC brings its own body so that the edge sits inside a block.
const EDGE_SNIPPETS: &[&[&[u8]]] = &[
    // number of hex digits: 8 / 9 in FUNC fields, 16 / 17 in the PUBLIC address, truncation to u32
    &[b"FUNC 12345678 10 0 f8", b"12345678 10 1 0"],
    &[b"FUNC 123456789 10 0 f9"],
    &[b"FUNC 1000 123456789 0 s9"],
    &[b"FUNC 1000 10 123456789 p9"],
    &[b"FUNC 00001000 00000010 00000000 zeros8", b"0000000000001000 00000010 0000000001 0000000000"],
    &[b"PUBLIC 1234567890abcdef 0 p16"],
    &[b"PUBLIC 1234567890abcdef0 0 p17"],
    &[b"PUBLIC 100001000 0 phigh"],
    &[b"PUBLIC ffffffff 0 plast"],
    &[b"PUBLIC 0 0 pzero"],
    &[b"PUBLIC 2000 123456789 ps9"],
    &[b"FUNC 8a00 20 0 linhi", b"100008a00 20 1 0"],
    &[b"FUNC 8b00 20 0 lin17", b"00000000000008b00 20 1 0"],
    // decimal limits
    &[b"FILE 4294967295 maxidx.c"],
    &[b"FILE 4294967296 over.c"],
    &[b"FILE 12345678901 eleven.c"],
    &[b"FILE 99999999999 eleven9.c"],
    &[b"FILE 007 lead0.c"],
    &[b"FILE 0000000007 ten0.c"],
    &[b"FILE 00000000007 eleven0.c"],
    &[b"FILE +7 plus.c"],
    &[b"FILE -1 neg.c"],
    &[b"INLINE_ORIGIN 4294967295 omax"],
    &[b"INLINE_ORIGIN 4294967296 oover"],
    &[b"FILE 4294967295 maxidx.c", b"INLINE_ORIGIN 4294967295 omax", b"FUNC 3000 20 0 decmax", b"INLINE 0 4294967295 4294967295 4294967295 3000 10", b"3000 10 4294967295 4294967295", b"3010 10 0 0"],
    &[b"FUNC 3100 20 0 decover", b"INLINE 0 4294967296 0 0 3100 8", b"3100 20 1 0"],
    &[b"FUNC 3200 20 0 lineover", b"3200 10 4294967296 0", b"3210 10 1 4294967296", b"3218 8 12345678901 0"],
    // letter case
    &[b"FUNC ABCD 1F 0 upper", b"ABCD F 10 0", b"ABDC 10 11 0"],
    &[b"PUBLIC ABCDEF 0 pupper"],
    &[b"func 4000 10 0 lower"],
    &[b"public 4000 0 lower"],
    &[b"file 0 lower.c"],
    &[b"inline_origin 0 lower"],
    &[b"Func 4000 10 0 mixed"],
    &[b"FUNC 4100 20 0 inlinelower", b"inline 0 1 0 0 4100 8", b"4100 20 1 0"],
    // separators: tabs, several spaces
    &[b"FUNC\t5000\t10\t0\ttabbed", b"5000\t10\t1\t0"],
    &[b"FUNC\t5080\t10\t0\ttabbed2", b"5080 10 1 0"],
    &[b"PUBLIC\t5100\t0\tptab"],
    &[b"FILE\t70\ttab.c"],
    &[b"INLINE_ORIGIN\t70\ttab()"],
    &[b"FUNC  5200   10  0   spaced", b"INLINE  0  3  0  0  5200  8", b"5200  8   3  0", b"5208 8 4 0"],
    &[b"PUBLIC   5300  0  pspaced"],
    &[b"FILE  71  spaced.c"],
    &[b"FUNC 5400 10 0  twospace"],
    &[b"FUNC \t5500 10 0 sptab"],
    &[b"FUNC 5600 10 0 inltab", b"INLINE\t0 1 0 0 5600 8", b"5600 10 1 0"],
    // the `m` flag
    &[b"FUNC m 6000 10 0 fm", b"6000 10 1 0"],
    &[b"PUBLIC m 6100 0 pm"],
    &[b"FUNC m 10 0 notaddr"],
    &[b"FUNC m  6200 10 0 fm2"],
    &[b"PUBLIC m m 6300 0 pmm"],
    &[b"FUNC M 6400 10 0 bigm"],
    &[b"FUNC m6500 10 0 nosep"],
    &[b"PUBLIC a 0 m"],
    // missing fields, trailing spaces
    &[b"FUNC 7000 10 0"],
    &[b"FUNC 7000 10 0 "],
    &[b"FUNC 7000 10"],
    &[b"FUNC 7000"],
    &[b"FUNC"],
    &[b"FUNC "],
    &[b"PUBLIC 7100 0"],
    &[b"PUBLIC 7100 0 "],
    &[b"PUBLIC 7100"],
    &[b"PUBLIC"],
    &[b"FUNC 7200 10 0 trailing  "],
    &[b"PUBLIC 7300 0 ptrailing "],
    &[b"FILE 5"],
    &[b"FILE 5 "],
    &[b"FILE"],
    &[b"FILE "],
    &[b"FILE x y"],
    &[b"INLINE_ORIGIN 3"],
    &[b"INLINE_ORIGIN 3 "],
    &[b"INLINE_ORIGIN"],
    // INLINE / line records inside a block
    &[b"FUNC 8000 20 0 inltrail", b"INLINE 0 1 0 0 8000 4 ", b"8000 20 1 0"],
    &[b"FUNC 8100 20 0 inlodd", b"INLINE 0 1 0 0 8100 4 8108", b"8100 20 1 0"],
    &[b"FUNC 8200 20 0 inlnorange", b"INLINE 0 1 0 0", b"8200 20 1 0"],
    &[b"FUNC 8300 20 0 inlx", b"INLINEX 0 1 0 0 8300 4", b"8300 20 1 0"],
    &[b"FUNC 8400 20 0 inlbare", b"INLINE", b"8400 20 1 0"],
    &[b"FUNC 8500 20 0 inlzero", b"INLINE 0 1 0 0 8500 0", b"INLINE 0 2 0 0 8500 8", b"8500 20 1 0"],
    &[b"FUNC 8600 20 0 inldepthgap", b"INLINE 1 1 0 0 8600 8", b"8600 20 1 0"],
    &[b"FUNC 8700 20 0 linextra", b"8700 10 1 0 extra", b"8710 10 2 0\tx"],
    &[b"FUNC 8800 20 0 linzero", b"8800 0 1 0", b"8800 20 2 0"],
    &[b"FUNC 8900 20 0 lindesc", b"8910 10 2 0", b"8900 10 1 0"],
    &[b"FUNC 8c00 20 0 inlbig", b"INLINE 0 1 0 0 8c00 123456789", b"8c00 20 1 0"],
    &[b"FUNC 8d00 20 0 inloutside", b"INLINE 0 1 0 0 8cf0 40", b"8d00 20 1 0"],
    // INFO / STACK
    &[b"INFO"],
    &[b"INFO "],
    &[b"INFOX y"],
    &[b"INFO CODE_ID"],
    &[b"INFO CODE_ID "],
    &[b"INFO CODE_ID  ABCDEF12 two spaces"],
    &[b"INFO CODE_ID 63C036DBA7000 firefox.exe"],
    &[b"INFO CODE_ID zz"],
    &[b"INFO\tCODE_ID 1234 tab"],
    &[b"FUNC 9000 20 0 stackless", b"9000 10 1 0", b"STACK", b"9010 10 2 0"],
    &[b"FUNC 9100 20 0 stacked", b"9100 10 1 0", b"STACK ", b"9110 10 2 0"],
    &[b"FUNC 9200 20 0 stackx", b"9200 10 1 0", b"STACKX CFI", b"9210 10 2 0"],
    &[b"FUNC 9300 20 0 infomid", b"9300 10 1 0", b"INFO mid", b"9310 10 2 0"],
    &[b"FUNC 9400 20 0 stacktab", b"9400 10 1 0", b"STACK\tCFI", b"9410 10 2 0"],
    &[b"STACK CFI INIT 1000 20 .cfa: $rsp 8 +"],
    &[b"STACK WIN 4 1000 20 3 0 0 0 0 0 1"],
    // leading blanks, empty lines, CR-only lines, CR inside a line
    &[b" FUNC a000 10 0 leadsp"],
    &[b" PUBLIC a000 0 leadsp"],
    &[b" FILE 0 leadsp"],
    &[b"\tFUNC a000 10 0 leadtab"],
    &[b"FUNC a100 10 0 bodylead", b" a100 10 1 0", b"a100 10 2 0"],
    &[b""],
    &[b"", b""],
    &[b"\r"],
    &[b"\r\r\r"],
    &[b" "],
    &[b"FUNC a200 10 0 crmid\rname"],
    &[b"FUNC a300 10 0 emptybody", b"", b"\r", b"a300 10 1 0"],
    &[b"PUBLIC a400 0 cr\r\rmid"],
    // more MODULE lines
    &[b"MODULE Linux x86_64 000000000000000000000000000000000 second"],
    &[b"MODULE"],
    &[b"MODULE "],
    // NUL, 0xff, invalid UTF-8
    &[b"\xff\xff\xff"],
    &[b"\x00"],
    &[b"\x00\x00FUNC b000 10 0 nul"],
    &[b"FUNC b000 10 0 bad\xffutf8", b"b000 10 1 0"],
    &[b"PUBLIC b100 0 bad\xc3"],
    &[b"FILE 72 bad\xff.c", b"INLINE_ORIGIN 72 bad\xfe()", b"FUNC b300 10 0 usesbad", b"INLINE 0 5 72 72 b300 8", b"b300 10 1 72"],
    &[b"FUNC b200 10 0 nul\x00inname"],
    &[b"FUNC b2\x0000 10 0 nulinaddr"],
    // address arithmetic near 2^32, size 0
    &[b"FUNC ffffff00 200 0 wrap", b"INLINE 0 1 0 0 ffffff80 100", b"ffffff00 100 1 0"],
    &[b"FUNC ffffffff 1 0 lastbyte", b"INLINE 0 1 0 0 ffffffff 1", b"ffffffff 1 1 0"],
    &[b"FUNC ffffffff ffffffff 0 maxmax"],
    &[b"FUNC c000 0 0 zerosize", b"c000 0 1 0"],
    &[b"FUNC 0 ffffffff 0 whole"],
    // look-alike tags, 0x prefixes, non-hex
    &[b"FUNCTION d000 10 0 x"],
    &[b"PUBLICX d000 0 x"],
    &[b"FILES 1 x"],
    &[b"INLINE_ORIGINS 1 x"],
    &[b"FUNC 0xd000 10 0 x"],
    &[b"PUBLIC 0x1 0 x"],
    &[b"FUNC d100 1g 0 badhex"],
    &[b"FUNC g 10 0 badhex"],
];

/// MODULE-line variants: debug ids of every interesting length (valid: 9..=16, 33..=40 digits),
/// invalid UTF-8, missing / empty name, tab after the tag, lower-case id.
fn module_variant(rng: &mut Rng) -> Vec<u8> {
    let id = |n: usize| -> String { "0123456789ABCDEF0123456789ABCDEF0123456789".chars().take(n).collect() };
    match rng.below(8) {
        0..=3 => format!("MODULE Linux x86_64 {} idlen", id(*rng.pick(&[8usize, 9, 16, 17, 31, 32, 33, 40, 41]))).into_bytes(),
        4 => b"MODULE Linux x86_64 0123456789ab bad\xffname".to_vec(),
        5 => rng.pick(&[&b"MODULE a b 0123456789ab"[..], b"MODULE a b 0123456789ab ", b"MODULE a  b   0123456789ab   spaced name ", b"MODULE a b"]).to_vec(),
        6 => rng.pick(&[&b"MODULE\ta b 0123456789ab tab"[..], b"MODULE a\tb c 0123456789ab tabinos", b"MODULEX a b 0123456789ab x", b"module a b 0123456789ab lower"]).to_vec(),
        _ => b"MODULE a b 0123456789abcdef0123456789abcdef0 lowerid".to_vec(),
    }
}

fn random_term(rng: &mut Rng) -> &'static [u8] {
    match rng.below(8) {
        0..=4 => b"\n",
        5 | 6 => b"\r\n",
        _ => b"\r\r\n",
    }
}

fn small_wf(rng: &mut Rng, max_symbols: u64) -> SymFile {
    SymFile::random(rng, &GenOptions { max_symbols, ..Default::default() })
}

fn gen_edge(rng: &mut Rng) -> Vec<Vec<u8>> {
    let base = small_wf(rng, 4);
    let mut lines: Vec<Vec<u8>> = base.lines().into_iter().map(|l| l.0).collect();
    let variant = rng.below(20);
    match variant {
        0 => lines.clear(),                                                     // only snippets, no MODULE at all
        1 => lines.insert(0, rng.pick(EDGE_SNIPPETS)[0].to_vec()),              // junk before the MODULE line
        2 => lines.insert(0, b"".to_vec()),                                     // empty first line
        3..=6 => {
            let valid = lines[0].clone();
            lines[0] = module_variant(rng);
            if rng.chance(1, 2) {
                lines.insert(rng.range(1, lines.len() as u64) as usize, valid); // a valid MODULE line later on
            }
        }
        _ => {}
    }
    if variant == 7 {
        // a file that is one single unterminated line
        return vec![if rng.chance(1, 2) { lines[0].clone() } else { rng.pick(EDGE_SNIPPETS)[0].to_vec() }];
    }
    for _ in 0..rng.range(1, 5) {
        let at = if lines.is_empty() { 0 } else { rng.range(1, lines.len() as u64) as usize };
        let snip: Vec<Vec<u8>> = rng.pick(EDGE_SNIPPETS).iter().map(|l| l.to_vec()).collect();
        lines.splice(at..at, snip);
    }
    let uniform = if rng.chance(1, 2) { Some(random_term(rng)) } else { None };
    let n = lines.len();
    let unterminated = rng.chance(1, 4);
    for (i, l) in lines.iter_mut().enumerate() {
        if i + 1 < n || !unterminated {
            l.extend_from_slice(uniform.unwrap_or_else(|| random_term(rng)));
        }
    }
    lines
}

fn gen_junk(rng: &mut Rng) -> Vec<Vec<u8>> {
    let mut base = small_wf(rng, 8);
    // FUNC records in ascending address order (other records stay where they are): when a mutation
    // removes or breaks a FUNC line its body merges into the previous block, which then still has
    // ascending line records.
    let mut funcs: Vec<Record> = base.records.iter().filter(|r| matches!(r, Record::Func { .. })).cloned().collect();
    funcs.sort_by_key(|r| if let Record::Func { addr, .. } = r { *addr } else { 0 });
    let mut it = funcs.into_iter();
    for r in base.records.iter_mut() {
        if matches!(r, Record::Func { .. }) {
            *r = it.next().unwrap();
        }
    }
    let mut lines: Vec<Vec<u8>> = base.render().lines.into_iter().map(|l| l.bytes).collect();
    let split_term = |l: &[u8]| -> usize { strip_terminator(l).len() };
    // Lines inside a FUNC block (line records, INLINE records) are never moved, copied elsewhere or
    // changed byte-wise: the lookup binary-searches them, and on out-of-order or duplicate keys the
    // result is whatever std's binary search / unstable sort happens to do (not part of the model).
    // Deleting, truncating and joining keep the order and stay in.
    let is_body = |l: &[u8]| -> bool {
        l.first().is_some_and(|b| b.is_ascii_hexdigit()) || l.starts_with(b"INLINE ") || l.starts_with(b"FUNC ")
    };
    for _ in 0..rng.range(1, 6) {
        if lines.is_empty() {
            break;
        }
        let i = rng.below(lines.len() as u64) as usize;
        match rng.below(8) {
            0 => {
                // insert a junk line: printable garbage, a record-like fragment, or raw bytes
                let mut l: Vec<u8> = match rng.below(3) {
                    0 => (0..rng.range(0, 30)).map(|_| rng.range(0x20, 0x7e) as u8).collect(),
                    1 => rng.pick(EDGE_SNIPPETS)[0].to_vec(),
                    _ => (0..rng.range(1, 20)).map(|_| rng.below(256) as u8).filter(|b| *b != b'\n').collect(),
                };
                l.extend_from_slice(random_term(rng));
                lines.insert(i, l);
            }
            1 => {
                lines.remove(i);
            }
            2 if !is_body(&lines[i]) => {
                let at = rng.below(lines.len() as u64 + 1) as usize;
                let mut copy = lines[i].clone();
                if !copy.ends_with(b"\n") {
                    copy.push(b'\n');
                }
                lines.insert(at.min(lines.len() - 1), copy); // never behind an unterminated last line
            }
            3 => {
                // truncate the content, keep the terminator
                let c = split_term(&lines[i]);
                let keep = rng.below(c as u64 + 1) as usize;
                lines[i].drain(keep..c);
            }
            4 | 5 if !is_body(&lines[i]) => {
                // change one byte (never from or to \n, so lines stay lines)
                let j = rng.below(lines[i].len() as u64) as usize;
                let nb = if rng.chance(1, 2) { lines[i][j] ^ (1 << rng.below(8)) } else { rng.below(256) as u8 };
                if lines[i][j] != b'\n' && nb != b'\n' {
                    lines[i][j] = nb;
                }
            }
            6 => {
                // join with the next line
                if i + 1 < lines.len() {
                    let next = lines.remove(i + 1);
                    let c = split_term(&lines[i]);
                    lines[i].truncate(c);
                    lines[i].extend(next);
                }
            }
            7 => {
                let j = rng.below(lines.len() as u64) as usize;
                if lines[i].ends_with(b"\n") && lines[j].ends_with(b"\n") && !is_body(&lines[i]) && !is_body(&lines[j]) {
                    lines.swap(i, j);
                }
            }
            _ => {}
        }
    }
    if rng.chance(1, 3) {
        // cut the tail at a random byte
        let total: usize = lines.iter().map(|l| l.len()).sum();
        let mut cut = rng.below(total as u64 + 1) as usize;
        let mut kept = Vec::new();
        for l in lines {
            if cut == 0 {
                break;
            }
            let take = cut.min(l.len());
            kept.push(l[..take].to_vec());
            cut -= take;
        }
        lines = kept;
    }
    lines
}

// ---------------------------------------------------------------------------------------------
// family stored: damaged / foreign `.symindex` bytes, wholesym's local-file path
// ---------------------------------------------------------------------------------------------

fn put32(b: &mut [u8], at: usize, v: u32) {
    b[at..at + 4].copy_from_slice(&v.to_le_bytes());
}
fn get32(b: &[u8], at: usize) -> u32 {
    u32::from_le_bytes([b[at], b[at + 1], b[at + 2], b[at + 3]])
}

/// `(kind, bytes)` of stored indexes derived from the valid index `valid` of the text and the valid index
/// `foreign` of another text with the same MODULE line. Kinds `empty`, `trunc`, `magic`, `counts` cannot be
/// accepted by any reader of the format (the judge demands that the map ignores them); `foreign`,
/// `garbage`, `padded` may parse — for them only the model speaks (and "no panic").
/// Header: magic 0..8, then u32s: version 8, mi_off 12, mi_len 16, file_count 20, file_off 24,
/// origin_count 28, origin_off 32, sym_count 36, addr_off 40, entries_off 44.
fn bad_indexes(rng: &mut Rng, valid: Option<&[u8]>, foreign: Option<&[u8]>) -> Vec<(&'static str, Vec<u8>)> {
    let mut v: Vec<(&'static str, Vec<u8>)> = vec![("empty", Vec::new())];
    let Some(valid) = valid.filter(|b| b.len() >= 48) else {
        v.push(("garbage", (0..rng.range(1, 80)).map(|_| rng.below(256) as u8).collect()));
        v.push(("magic", b"SYMINDEX".to_vec())); // nothing but the magic: too short for a header
        return v;
    };
    let len = valid.len();
    // truncation at every table boundary, just before / after, and at random places
    let mut cuts: Vec<usize> = vec![1, 7, 8, 47, 48, len - 1, len - 15, len - 16];
    for at in [12usize, 24, 32, 40, 44] {
        let off = get32(valid, at) as usize;
        cuts.extend([off, off + 1, off.saturating_sub(1)]);
    }
    cuts.push(48 + get32(valid, 16) as usize);
    cuts.push(rng.below(len as u64) as usize);
    cuts.retain(|c| *c < len);
    cuts.sort();
    cuts.dedup();
    rng.shuffle(&mut cuts);
    for c in cuts.into_iter().take(4) {
        v.push(("trunc", valid[..c].to_vec()));
    }
    v.push(("trunc", valid[..len - 1].to_vec()));
    let mut m = valid.to_vec();
    match rng.below(3) {
        0 => m[0] = b'T',
        1 => m[7] = b'Y',
        _ => m[..8].copy_from_slice(b"symindex"),
    }
    v.push(("magic", m));
    let mut c = valid.to_vec();
    match rng.below(4) {
        0 => put32(&mut c, 36, get32(valid, 36) + 1),      // one symbol more than there are entries: table ends 16 bytes past EOF
        1 => put32(&mut c, 20, 0x1000_0000),               // file_count * 16 overflows u32
        2 => put32(&mut c, 16, len as u32),                // module info reaches past EOF
        _ => put32(&mut c, 44, len as u32 + 1),            // symbol entries start past EOF
    }
    v.push(("counts", c));
    if let Some(f) = foreign {
        v.push(("foreign", f.to_vec()));
    }
    let mut g = valid.to_vec();
    for _ in 0..rng.range(1, 3) {
        let at = rng.range(8, len as u64 - 1) as usize;
        g[at] = if rng.chance(1, 2) { g[at] ^ (1 << rng.below(8)) } else { rng.below(256) as u8 };
    }
    v.push(("garbage", g));
    let mut pd = valid.to_vec();
    pd.extend((0..rng.range(1, 20)).map(|_| rng.below(256) as u8));
    v.push(("padded", pd));
    v
}

/// `valid` with its module-info block replaced by `mi` (tables unchanged, offsets shifted, padding to 4).
fn with_module_info(valid: &[u8], mi: &[u8]) -> Vec<u8> {
    let old_file_off = get32(valid, 24) as usize;
    let pad = (4 - mi.len() % 4) % 4;
    let new_file_off = 48 + mi.len() + pad;
    let mut out = valid[..48].to_vec();
    put32(&mut out, 12, 48);
    put32(&mut out, 16, mi.len() as u32);
    for at in [24usize, 32, 40, 44] {
        put32(&mut out, at, (get32(valid, at) as usize - old_file_off + new_file_off) as u32);
    }
    out.extend_from_slice(mi);
    out.extend(std::iter::repeat(0u8).take(pad));
    out.extend_from_slice(&valid[old_file_off..]);
    out
}

/// Position and length of the debug-id token of a MODULE line (`MODULE` blanks os blanks arch blanks id).
fn id_token(line: &[u8]) -> Option<(usize, usize)> {
    let mut p = line.strip_prefix(b"MODULE").map(|_| 6)?;
    let skip = |p: &mut usize, f: &dyn Fn(u8) -> bool| {
        let s = *p;
        while *p < line.len() && f(line[*p]) {
            *p += 1;
        }
        *p > s
    };
    for _ in 0..2 {
        if !skip(&mut p, &|c| c == b' ') || !skip(&mut p, &|c| c != b' ') {
            return None;
        }
    }
    if !skip(&mut p, &|c| c == b' ') {
        return None;
    }
    let start = p;
    skip(&mut p, &|c| c.is_ascii_hexdigit()).then_some((start, p - start))
}

/// Doctored copies of the valid index (fix d2664d76): the module-info block gets a second MODULE line.
///   two-module:        that line states ANOTHER debug id (one digit changed, or the other id form); since
///                      `parse_symindex_file` reports the id of the LAST MODULE line the index must be ignored
///   two-module-sameid: the second line spells the SAME `DebugId` differently (letter case flipped, a leading
///                      zero in the appendix) => the index is used (model only)
fn two_module_indexes(rng: &mut Rng, valid: &[u8]) -> Vec<(&'static str, Vec<u8>)> {
    let mut v = Vec::new();
    let (mi_off, mi_len) = (get32(valid, 12) as usize, get32(valid, 16) as usize);
    let Some(mi) = valid.get(mi_off..mi_off + mi_len) else { return v };
    let first: Vec<u8> = mi.split(|b| *b == b'\n').next().unwrap_or_default().to_vec();
    let Some((at, n)) = id_token(&first) else { return v };
    let place = |rng: &mut Rng, second: &[u8]| -> Vec<u8> {
        // as the last line, or directly behind the first line (INFO lines follow)
        let mut lines: Vec<Vec<u8>> = mi.split(|b| *b == b'\n').map(|l| l.to_vec()).collect();
        let pos = if rng.chance(1, 2) { lines.len() } else { 1 };
        lines.insert(pos, second.to_vec());
        lines.join(&b'\n')
    };
    for _ in 0..2 {
        let mut second = first.clone();
        match rng.below(3) {
            0 | 1 => {
                let k = at + rng.below(n as u64) as usize;
                second[k] = if second[k] == b'0' { b'1' } else { b'0' };
            }
            _ => {
                // the other id form: 33 digits <-> 9 digits
                let new_id: Vec<u8> = if n <= 16 { b"0123456789ABCDEF0123456789ABCDEF0".to_vec() } else { second[at..at + 9].to_vec() };
                second.splice(at..at + n, new_id);
            }
        }
        v.push(("two-module", with_module_info(valid, &place(rng, &second))));
    }
    let mut same = first.clone();
    for c in &mut same[at..at + n] {
        *c = if c.is_ascii_lowercase() { c.to_ascii_uppercase() } else { c.to_ascii_lowercase() };
    }
    if (33..40).contains(&n) && rng.chance(1, 2) {
        same.insert(at + 32, b'0');
    }
    if same != first {
        v.push(("two-module-sameid", with_module_info(valid, &place(rng, &same))));
    }
    v
}

/// `stored` / `wholesym` ops for the text `file` (an abstract file `f` when there is one: the foreign index
/// then belongs to another random file with the same MODULE line, so that its debug id matches).
fn stored_ops(rng: &mut Rng, file: &[u8], f: Option<&SymFile>) -> Vec<String> {
    let (st, valid) = run_creator(file, &[(0, file.len())]);
    let valid = (st == "ok").then_some(valid);
    let foreign = f.and_then(|f| {
        let mut g = small_wf(rng, 10);
        g.module = f.module.clone();
        let t = g.render().bytes;
        let (st, b) = run_creator(&t, &[(0, t.len())]);
        (st == "ok" && t != file).then_some(b)
    });
    let mut bad = bad_indexes(rng, valid.as_deref(), foreign.as_deref());
    // Valid indexes of OTHER files (fix 3f61c23c: `make_index_storage` uses a parsable index only if its MODULE
    // line is the beginning of the .sym file).
    //   foreign-module: the MODULE line differs (other id / other name / other letter case / one byte longer /
    //                   one byte shorter) and is not a prefix of ours  => must behave like the self-indexing map
    //   foreign-prefix: the foreign MODULE line is ours without its last byte: the prefix test of the repaired
    //                   code accepts it (model: used); no judge clause
    //   foreign:        same MODULE line (also: CRLF-terminated where ours is LF or vice versa — the CRs are not
    //                   part of the stored line) => used
    let index_of = |t: &[u8]| -> Option<Vec<u8>> {
        let (st, b) = run_creator(t, &[(0, t.len())]);
        (st == "ok").then_some(b)
    };
    match f.and_then(|f| f.module.clone().map(|m| (f, m))) {
        Some((f, m)) => {
            let mut variants: Vec<u64> = (0..6).collect();
            rng.shuffle(&mut variants);
            for v in variants.into_iter().take(3) {
                let mut m2 = m.clone();
                let kind = match v {
                    0 => {
                        // another debug id: one hex digit changed
                        let at = rng.below(m2.id.len().max(1) as u64) as usize;
                        if let Some(d) = m2.id.get_mut(at) {
                            *d = if *d == b'0' { b'1' } else { b'0' };
                        }
                        "foreign-module"
                    }
                    1 => {
                        match m2.name.last_mut() {
                            Some(c) => *c = if *c == b'q' { b'r' } else { b'q' },
                            None => m2.name.push(b'q'),
                        }
                        "foreign-module"
                    }
                    2 => {
                        m2.os = if m2.os.iter().any(|c| c.is_ascii_lowercase()) { m2.os.to_ascii_uppercase() } else { m2.os.to_ascii_lowercase() };
                        "foreign-module"
                    }
                    3 => {
                        m2.name.push(b'x'); // one byte longer
                        "foreign-module"
                    }
                    4 => {
                        m2.os.remove(0); // one byte shorter, differs from ours at the 8th byte
                        "foreign-module"
                    }
                    _ => {
                        if m2.name.len() < 2 {
                            continue;
                        }
                        m2.name.pop(); // our MODULE line without its last byte
                        "foreign-prefix"
                    }
                };
                let mut g = small_wf(rng, 10);
                g.module = Some(m2);
                if let Some(b) = index_of(&g.render().bytes) {
                    bad.push((kind, b));
                }
            }
            let mut g = small_wf(rng, 10);
            g.module = Some(m);
            g.terms = vec![if f.terms.iter().all(|t| matches!(t, Term::Lf)) { Term::CrLf } else { Term::Lf }];
            let t = g.render().bytes;
            if t != file {
                if let Some(b) = index_of(&t) {
                    bad.push(("foreign", b));
                }
            }
        }
        None => {
            // literal / junk texts: the index of a random well-formed file (random id, so another MODULE line)
            let g = small_wf(rng, 10);
            let r = g.render();
            let first = strip_terminator(&r.lines[0].bytes).to_vec();
            if !first.is_empty() && !file.starts_with(&first) {
                if let Some(b) = index_of(&r.bytes) {
                    bad.push(("foreign-module", b));
                }
            }
        }
    }
    if let Some(valid) = valid.as_deref().filter(|b| b.len() >= 48) {
        bad.extend(two_module_indexes(rng, valid));
    }
    let mut ops: Vec<String> = bad.iter().map(|(k, b)| format!("stored {k} {}", hex(b))).collect();
    ops.push("wholesym fresh".to_string());
    for kind in ["trunc", "foreign", "foreign-module", "two-module", if rng.chance(1, 2) { "empty" } else { "counts" }] {
        let c: Vec<&(&str, Vec<u8>)> = bad.iter().filter(|(k, _)| *k == kind).collect();
        if !c.is_empty() {
            let (k, b) = *rng.pick(&c);
            ops.push(format!("wholesym stale {k} {}", hex(b)));
        }
    }
    ops
}

// ---------------------------------------------------------------------------------------------
// fixed cases
// ---------------------------------------------------------------------------------------------

/// Raw lines of a literal text (split after every \n).
fn raw_lines(text: &[u8]) -> Vec<Vec<u8>> {
    text.split_inclusive(|c| *c == b'\n').map(|l| l.to_vec()).collect()
}

/// Cut positions reproducing a chunking given as a list of chunks.
fn cuts_of_chunks(chunks: &[&[u8]]) -> Vec<usize> {
    let mut pos = 0;
    chunks[..chunks.len() - 1]
        .iter()
        .map(|c| {
            pos += c.len();
            pos
        })
        .collect()
}

const TEST1: &[&[u8]] = &[
    b"MODULE Linux x86_64 39CA3106713C8D0FFEE4605AFA2526670 libmozsandbox.so\nINFO CODE_ID ",
    b"0631CA393C710F8DFEE4605AFA2526671AD4EF17\nFILE 0 hg:hg.mozilla.org/mozilla-central:se",
    b"curity/sandbox/chromium/base/strings/safe_sprintf.cc:f150bc1f71d09e1e1941065951f0f5a3",
    b"8628f080",
];
const TEST2: &[&[u8]] = &[
    b"MODULE windows x86_64 F1E853FD662672044C4C44205044422E1 firefox.pdb\nIN",
    b"FO CODE_ID 63C036DBA7000 firefox.exe\nINFO GENERATOR mozilla/dump_syms ",
    b"2.1.1\nFILE 0 /builds/worker/workspace/obj-build/browser/app/d:/agent/_",
    b"work/2/s/src/vctools/delayimp/dloadsup.h\nFILE 1 /builds/worker/workspa",
    b"ce/obj-build/browser/app/d:/agent/_work/2/s/src/externalapis/windows/10",
    b"/sdk/inc/winnt.h\nINLINE_ORIGIN 0 DloadLock()\nINLINE_ORIGIN 1 DloadUnl",
    b"ock()\nINLINE_ORIGIN 2 WritePointerRelease(void**, void*)\nINLINE_ORIGI",
    b"N 3 WriteRelease64(long long*, long long)\nFUNC 2b754 aa 0 DloadAcquire",
    b"SectionWriteAccess()\nINLINE 0 658 0 0 2b76a 3d\nINLINE 0 665 0 1 2b7ca",
    b" 17 2b7e6 12\nINLINE 1 345 0 2 2b7ed b\nINLINE 2 8358 1 3 2b7ed b\n2b75",
    b"4 6 644 0\n2b75a 10 650 0\n2b76a e 299 0\n2b778 14 300 0\n2b78c 2 301 0",
    b"\n2b78e 2 306 0\n2b790 c 305 0\n2b79c b 309 0\n2b7a7 10 660 0\n2b7b7 2 ",
    b"661 0\n2b7b9 11 662 0\n2b7ca 9 340 0\n2b7d3 e 341 0\n2b7e1 c 668 0\n2b7",
    b"ed b 7729 1\n2b7f8 6 668 0",
];

/// The > 1 MiB files: MODULE, FILE, a FUNC whose body is `rep`-eated line records up to shortly
/// before the 1 MiB boundary, a PUBLIC line straddling the boundary, a FUNC after it, an
/// unterminated last PUBLIC (variant 0); variant 2: the same with CRLF, the boundary between the
/// \r and the \n of the PUBLIC line; variant 1: > 2 MiB, first boundary 5 bytes into a repeated
/// line, second boundary inside a FUNC line.
fn big_case(variant: u64) -> Case {
    const MIB: usize = 1 << 20;
    // variants >= 3: generated — LF or CRLF, the 1 MiB boundary anywhere in the PUBLIC line or its terminator
    // (mid-token, before / between / after `\r` `\n`), or the two-boundary layout of variant 1 shifted
    let mut vr = Rng::new(0xB16_0000 + variant);
    let crlf = variant == 2 || (variant >= 3 && vr.chance(1, 2));
    let two_mib = variant == 1 || (variant >= 3 && vr.chance(1, 3));
    let nl: &[u8] = if crlf { b"\r\n" } else { b"\n" };
    let line = |s: &str| -> Vec<u8> { [s.as_bytes(), nl].concat() };
    let len_of = |raw: &[(Vec<u8>, usize)]| -> usize { raw.iter().map(|(b, c)| b.len() * c).sum() };
    // append `rec` lines (one `rep`) + one zero-padded spelling of it so that the file is exactly `target` bytes long
    let fill = |raw: &mut Vec<(Vec<u8>, usize)>, target: usize, rec: &str| {
        let (r, gap) = (rec.len() + nl.len(), target - len_of(raw));
        let count = gap / r - 1;
        raw.push((line(rec), count));
        raw.push((line(&format!("{}{rec}", "0".repeat(gap - count * r - r))), 1));
    };
    let mut raw: Vec<(Vec<u8>, usize)> = vec![
        (line("MODULE Linux x86_64 BE4E976C325246EE9D6B7847A670B2A90 big"), 1),
        (line("FILE 0 big.c"), 1),
        (line("FUNC 1000 100 0 bigfunc"), 1),
    ];
    let public = "PUBLIC 200000 0 public_symbol_on_the_chunk_boundary";
    if two_mib {
        let rec = "1000 4 1 0";
        let shift = if variant >= 3 { vr.range(0, (rec.len() + nl.len()) as u64) as usize } else { 5 };
        fill(&mut raw, MIB - shift - 10 * (rec.len() + nl.len()), rec);
        raw.push((line(rec), 60)); // the 11th of these starts 5 bytes before the boundary
        raw.push((line(public), 1));
        raw.push((line("FUNC 300000 100 0 second"), 1));
        fill(&mut raw, 2 * MIB - if variant >= 3 { vr.range(0, 50) as usize } else { 10 }, "300000 4 2 0");
        raw.push((line("FUNC 400000 10 0 function_on_the_second_boundary"), 1));
        raw.push((line("400000 10 9 0"), 1));
    } else {
        // variant 0: the boundary lies 20 bytes into the PUBLIC line; variant 2: between its \r and \n
        let into = match variant {
            0 => 20,
            2 => public.len() + 1,
            _ => vr.range(0, (public.len() + nl.len()) as u64) as usize,
        };
        fill(&mut raw, MIB - into, "1000 4 1 0");
        raw.push((line(public), 1));
        raw.push((line("FUNC 300000 10 0 after"), 1));
        raw.push((line("300000 10 7 0"), 1));
        raw.push((b"PUBLIC 300010 0 last_unterminated".to_vec(), 1));
    }
    // descriptions: describer for single lines, `junk` for repeats
    let mut in_func = false;
    let items: Vec<Item> = raw
        .into_iter()
        .map(|(bytes, count)| {
            let desc = if count == 1 { describe_std_line(strip_terminator(&bytes), &mut in_func) } else { "junk".to_string() };
            Item { bytes, count, desc }
        })
        .collect();
    let parts = vec![
        "part".to_string(),
        format!("partsize {MIB}"),
        "partsize 65536".to_string(),
        format!("part {} {} {}", MIB - 1, MIB, MIB + 1),
        format!("part {} {}", 2 * MIB, 2 * MIB + 1),
    ];
    let mut rng = Rng::new(77 + variant);
    // the same file under wholesym: `parse_sym_file_into_index` reads it in 2 MiB pieces
    let extra = vec!["wholesym fresh".to_string()];
    let ops = build_ops_with(&mut rng, Tier::Quick, "big", 0, &items, Some(parts), &[0x1000, 0x1003, 0x1004, 0x10ff, 0x1100, 0x2000], extra);
    Case { name: format!("big{variant}"), ops }
}

fn literal_case(name: &str, reading: u8, text: &[u8], extra_parts: &[String]) -> Case {
    let items = items_of(&render_raw_lines(&raw_lines(text)));
    let mut rng = Rng::new(fnv64(name.as_bytes()));
    let mut parts = gen_partitions(&mut rng, text, Tier::Quick);
    parts.extend_from_slice(extra_parts);
    let extra = extra_addresses(&items);
    // the unit-test file of symbol_map.rs has a line record that ends before its FUNC does: family line-gap
    let family = if name == "overeager-demangle" { "line-gap" } else { "fixed" };
    let mut extra_ops = vec!["wholesym fresh".to_string()];
    if !text.is_empty() {
        extra_ops.extend(stored_ops(&mut rng, text, None));
    }
    Case { name: name.to_string(), ops: build_ops_with(&mut rng, Tier::Quick, family, reading, &items, Some(parts), &extra, extra_ops) }
}

// ---------------------------------------------------------------------------------------------

const FAMILIES: [(&str, u64); 8] =
    [("wf", 31), ("origin-in-func", 7), ("line-gap", 10), ("dup", 13), ("edge", 15), ("junk", 13), ("stored", 11), ("dense", 8)];

impl Prop for C10 {
    fn id(&self) -> &'static str {
        "C10"
    }
    fn case_count(&self, tier: Tier) -> u64 {
        match tier {
            Tier::Quick => 300,
            Tier::Thorough => 2000,
        }
    }
    fn fixed_cases(&self, tier: Tier) -> Vec<Case> {
        let mut v = Vec::new();
        // the two unit tests of index.rs with their own chunking
        for (name, chunks) in [("test1", TEST1), ("test2", TEST2)] {
            v.push(literal_case(name, 1, &chunks.concat(), &[cuts_op(&cuts_of_chunks(chunks))]));
        }
        let m = "MODULE Linux x86_64 BE4E976C325246EE9D6B7847A670B2A90 x";
        let literals: Vec<(&str, u8, Vec<u8>)> = vec![
            ("empty", 0, Vec::new()),
            ("module-only-nl", 1, b"MODULE a b 0123456789ab c\n".to_vec()),
            ("module-only", 1, b"MODULE a b 0123456789ab c".to_vec()),
            ("last-func-no-nl", 1, format!("{m}\nFILE 0 a.c\nPUBLIC 10 0 p\nFUNC 1000 20 0 f").into_bytes()),
            ("last-func-body-no-nl", 1, format!("{m}\nFILE 0 a.c\nFUNC 1000 20 0 f\n1000 20 7 0").into_bytes()),
            ("ends-in-cr", 1, format!("{m}\r\nFILE 0 a.c\r\nFUNC 1000 20 0 f\r\n1000 20 7 0\r").into_bytes()),
            ("ends-in-crcr", 0, format!("{m}\nPUBLIC 10 0 p\r\r").into_bytes()),
            ("only-newlines", 0, b"\n\r\n\n".to_vec()),
            ("overeager-demangle", 1, format!("{m}\nFILE 0 filename\nFUNC 1160 45 0 f\n1160 c 16 0").into_bytes()),
        ];
        for (name, reading, text) in literals {
            let all_cuts: Vec<String> = (0..=text.len()).map(|k| format!("part {k}")).collect();
            v.push(literal_case(name, reading, &text, &all_cuts));
        }
        // ten small well-formed files (half of them CRLF) with EVERY single-cut partition
        for i in 0..10u64 {
            let mut rng = Rng::new(0xC10_0000 + i);
            let mut f;
            loop {
                f = small_wf(&mut rng, 3);
                if f.render().bytes.len() <= 700 && f.records.iter().any(|r| matches!(r, Record::Func { .. })) {
                    break;
                }
            }
            f.terms = vec![if i % 2 == 0 { Term::Lf } else { Term::CrLf }];
            f.final_newline = i % 3 != 2;
            let r = f.render();
            let mut parts = vec!["part".to_string(), "partsize 1".to_string()];
            parts.extend((0..=r.bytes.len()).map(|k| format!("part {k}")));
            v.push(Case { name: format!("allcuts{i}"), ops: build_ops(&mut rng, tier, "wf", 1, &items_of(&r), Some(parts), &[]) });
        }
        // > 1 MiB: the three hand-placed layouts and generated ones (thorough only: 3)
        for variant in 0..if tier == Tier::Quick { 3 } else { 6 } {
            v.push(big_case(variant));
        }
        v
    }
    fn generate(&self, rng: &mut Rng, tier: Tier, _index: u64) -> Vec<String> {
        let mut pick = rng.below(FAMILIES.iter().map(|f| f.1).sum());
        let family = FAMILIES.iter().find(|f| {
            let hit = pick < f.1;
            pick = pick.saturating_sub(f.1);
            hit
        });
        let family = family.map(|f| f.0).unwrap_or("wf");
        match family {
            "edge" | "junk" => {
                let raw = if family == "edge" { gen_edge(rng) } else { gen_junk(rng) };
                let items = items_of(&render_raw_lines(&raw));
                let extra = extra_addresses(&items);
                // one in six: damaged stored indexes for a file that is not well-formed either
                let extra_ops = if rng.chance(1, 6) { stored_ops(rng, &file_of(&items), None) } else { Vec::new() };
                build_ops_with(rng, tier, family, 0, &items, None, &extra, extra_ops)
            }
            "stored" => {
                let mut f = small_wf(rng, 5);
                for _ in 0..20 {
                    if f.records.iter().any(|r| matches!(r, Record::Func { .. })) {
                        break;
                    }
                    f = small_wf(rng, 5);
                }
                let r = f.render();
                let len = r.bytes.len();
                let parts = vec!["part".to_string(), "partsize 7".to_string(), format!("part {}", rng.below(len as u64 + 1)), format!("partsize {}", rng.range(1, 64))];
                let extra_ops = stored_ops(rng, &r.bytes, Some(&f));
                build_ops_with(rng, tier, family, 1, &items_of(&r), Some(parts), &[], extra_ops)
            }
            _ => {
                let o = GenOptions {
                    max_symbols: 40,
                    origin_in_func: family == "origin-in-func",
                    line_gaps: family == "line-gap",
                    dups: family == "dup",
                    long_line: if family == "wf" { 40 } else { 0 },
                    medium_line: 12,
                    dense: family == "dense",
                };
                let o = if family == "dense" { GenOptions { max_symbols: 6, ..o } } else { o };
                let mut f = SymFile::random(rng, &o);
                // the families that are about FUNC bodies need at least one FUNC
                for _ in 0..20 {
                    if family == "wf" || family == "dup" || family == "dense" && f.records.iter().any(|r| matches!(r, Record::Func { body, .. } if body.len() > 12)) || family != "dense" && f.records.iter().any(|r| matches!(r, Record::Func { .. })) {
                        break;
                    }
                    f = SymFile::random(rng, &o);
                }
                build_ops(rng, tier, family, 1, &items_of(&f.render()), None, &[])
            }
        }
    }
    fn execute(&self, ops: &[String], stats: &mut Stats) -> Vec<String> {
        // --- replay: only the bytes of l / rep, the partition ops and the lookups are used
        let mut file: Vec<u8> = Vec::new();
        let mut parts: Vec<PartOp> = Vec::new();
        let mut actions: Vec<Action> = Vec::new();
        let mut stored: Vec<(String, Vec<u8>)> = Vec::new();
        let mut ws: Vec<Option<(String, Vec<u8>)>> = Vec::new();
        let (mut crlf, mut lines, mut last_terminated, mut max_line) = (0u64, 0u64, true, 0usize);
        for op in ops {
            let w: Vec<&str> = op.split_whitespace().collect();
            match w.first().copied() {
                Some("family") => stats.bump(&format!("family_{}", w.get(1).unwrap_or(&"?"))),
                Some("reading") => stats.bump(&format!("reading_{}", w.get(1).unwrap_or(&"?"))),
                Some("l") => {
                    let b = unhex(w.get(1).unwrap_or(&"-"));
                    lines += 1;
                    crlf += b.ends_with(b"\r\n") as u64;
                    last_terminated = b.ends_with(b"\n");
                    max_line = max_line.max(b.len());
                    stats.bump(&format!("line_{}", w.get(2).unwrap_or(&"?")));
                    file.extend_from_slice(&b);
                }
                Some("rep") => {
                    let n: usize = w.get(1).and_then(|s| s.parse().ok()).unwrap_or(0);
                    let b = unhex(w.get(2).unwrap_or(&"-"));
                    stats.add("rep_lines", n as u64);
                    for _ in 0..n {
                        file.extend_from_slice(&b);
                    }
                }
                Some("tiebreak") => stats.bump(&format!("tiebreak_{}", w.get(1).unwrap_or(&"?"))),
                Some("part") => parts.push(PartOp::Cuts(w[1..].iter().filter_map(|s| s.parse().ok()).collect())),
                Some("partsize") => parts.push(PartOp::Size(w.get(1).and_then(|s| s.parse().ok()).unwrap_or(1))),
                Some("lookup") => actions.extend(w[1..].iter().filter_map(|s| s.parse::<u32>().ok()).map(Some)),
                Some("itersyms") => actions.push(None),
                Some("stored") => {
                    stats.bump(&format!("stored_{}", w.get(1).unwrap_or(&"?")));
                    stored.push((w.get(1).unwrap_or(&"?").to_string(), unhex(w.get(2).unwrap_or(&"-"))));
                }
                Some("wholesym") => match w.get(1).copied() {
                    Some("stale") => ws.push(Some((w.get(2).unwrap_or(&"?").to_string(), unhex(w.get(3).unwrap_or(&"-"))))),
                    _ => ws.push(None),
                },
                _ => stats.bump("unknown_ops"),
            }
        }
        stats.bump(match file.len() {
            0 => "text_len=0",
            1..=99 => "text_len<100",
            100..=999 => "text_len<1k",
            1000..=9999 => "text_len<10k",
            10000..=99999 => "text_len<100k",
            100000..=1048576 => "text_len<=1MiB",
            _ => "text_len>1MiB",
        });
        if lines > 0 && crlf == lines {
            stats.bump("files_all_crlf");
        } else if crlf > 0 {
            stats.bump("files_some_crlf");
        }
        if !last_terminated {
            stats.bump("files_unterminated_last_line");
        }
        if max_line > LONG_LINE {
            stats.bump("files_with_line>5000");
        } else if max_line >= 1000 {
            stats.bump("files_with_line>=1000");
        }

        // --- the creator under every partition
        let mut out = Vec::new();
        let mut first: Option<Vec<u8>> = None;
        let mut last: Option<Vec<u8>> = None;
        for (i, p) in parts.iter().enumerate() {
            let ch = chunks(p, file.len());
            stats.bump("partitions");
            stats.add("chunks", ch.len() as u64);
            stats.add("empty_chunks", ch.iter().filter(|(a, b)| a == b).count() as u64);
            let (status, bytes) = run_creator(&file, &ch);
            stats.bump(&format!("part_{status}"));
            if i > 0 && first.as_ref().is_some_and(|f| *f != bytes) {
                stats.bump("partitions_differing_from_part0");
            }
            let h = if status == "ok" { fnv64(&bytes) } else { 0 };
            out.push(format!("part {i} {status} {} {h}", bytes.len()));
            let bytes = (status == "ok").then_some(bytes);
            if i == 0 {
                first = bytes.clone();
            }
            last = bytes;
        }
        // --- the index of part 0, decoded independently, and the parse/serialize round trip
        if let Some(bytes) = &first {
            index_lines(bytes, &mut out);
            stats.add("symbols", out.iter().filter(|l| l.starts_with("sym ")).count() as u64);
        }
        // --- symbol maps without and with a stored index
        let self_at = out.len();
        map_lines(&file, None, &actions, "selfmap", "", &mut out, stats);
        let self_line: Vec<String> = out[self_at].split(' ').map(|s| s.to_string()).collect();
        map_lines(&file, last.as_deref(), &actions, "storedmap", "s", &mut out, stats);
        // --- damaged / foreign stored indexes
        for (k, (_, bytes)) in stored.iter().enumerate() {
            map_lines(&file, Some(bytes), &actions, &format!("x{k}map"), &format!("x{k}"), &mut out, stats);
        }
        // --- the same text as a local .sym file of wholesym (2 MiB read loop, .symindex cache)
        for (k, e) in ws.iter().enumerate() {
            let id = (self_line.get(1).map(|s| s.as_str()) == Some("ok")).then(|| self_line[2].as_str());
            wholesym_lines(&file, e.as_ref().map(|e| e.1.as_slice()), id, self_line.get(1).map(|s| s.as_str()).unwrap_or("?"), &actions, k, &mut out, stats);
        }
        out
    }
    fn nontrivial(&self, ops: &[String], out: &[String]) -> bool {
        ops.iter().filter(|o| o.starts_with("part")).count() >= 2
            && out.first().is_some_and(|l| l.starts_with("part 0 ok "))
            && out.iter().any(|l| l.starts_with("sym "))
            // a successful lookup through either map (a regression that breaks only the self-indexing map must
            // still reach the judge instead of tripping the "too few non-trivial cases" gate)
            && out.iter().any(|l| (l.starts_with("look ") || l.starts_with("slook ")) && l.split(' ').nth(2) == Some("sym"))
    }
}

fn main() {
    verif_harness::runner::run_main(&C10);
}
