//! C16 — drives the real `wholesym/src/file_creation.rs` (compiled into this binary by path; its only
//! dependencies are fs4, thiserror, tokio) in three layers:
//!
//! (a) `trace <scenario> …`: one `create_file_cleanly` call in a re-exec'd child under `strace -f`; the system
//!     calls on dest / dest.part / dest.lock are canonicalised and printed, the Lean model prints the labels of
//!     the same run of its transition system.
//! (b) `round mode=threads|procs …`: 2…8 concurrent creators of one destination as tokio tasks or as separate
//!     processes. The harness owns the write callback: the k-th creator to ENTER the callback gets the k-th
//!     fate (ok / fail@j / kill@j / cancel@j) and payload size, so the summary does not depend on who wins a
//!     race. Late creators (and waiters that get cancelled) start while the first successful writer is parked
//!     mid-write; `pre=<point>x<D>` kills D creators on entry to a chosen system call (strace --inject);
//!     `lead=<point>:<usec>` delays one creator at a chosen system call. An observer thread polls the final
//!     path all the time and every writer re-reads it after every chunk.
//! (c) `symindex managers=<M> …`: the one call site reachable offline — several `wholesym::SymbolManager`s
//!     load the same local Breakpad `.sym` at once, which makes each of them create the `.symindex` through
//!     `create_file_cleanly`.
//! (d) `download fault=none|fsize:<N>|abort:<N> funcs=<F> tail=<T> size=<S> seed=<s>`: the other call site — a
//!     `wholesym::SymbolManager` in a re-exec'd child downloads a Breakpad `.sym` from an HTTP server run by this
//!     harness on 127.0.0.1 into a cache directory (`downloader.rs::download_to_file` owns the write callback
//!     handed to `create_file_cleanly`). The body arrives in two pieces (the last `tail` bytes separately).
//!     `fsize:<N>`: the child runs with RLIMIT_FSIZE = N (SIGXFSZ ignored), so the write that crosses byte N
//!     fails with EFBIG — with N inside the last piece it is the LAST write of the download that fails;
//!     `abort:<N>`: the server closes the connection after N body bytes. Then a fault-free retry.
//!
//! Output formats: see lean/SamplyModel/Iface/C16.lean.
use std::collections::HashMap;
use std::io::{BufRead, BufReader, Write};
use std::path::{Path, PathBuf};
use std::process::{Child, ChildStdin, Command, Stdio};
use std::sync::atomic::{AtomicBool, AtomicU64, Ordering};
use std::sync::{Arc, Mutex};
use std::time::{Duration, Instant};
use verif_harness::common::*;

#[allow(dead_code)]
#[path = "../../../repo-link/wholesym/src/file_creation.rs"]
mod file_creation;
use file_creation::{create_file_cleanly, CleanFileCreationError};

#[derive(Debug, thiserror::Error)]
#[error("{0}")]
struct CbErr(String);

#[derive(Clone, Copy, PartialEq, Debug)]
enum Fate {
    Ok,
    Fail(usize),
    Kill(usize),
    Cancel(usize),
    /// the writer succeeds; its rename is made to fail from outside (strace error injection)
    RFail,
    /// solo children only: the creating future is dropped by the child itself after k chunks
    Drop(usize),
}

impl Fate {
    fn parse(s: &str) -> Fate {
        let (a, b) = s.split_once('@').unwrap_or((s, "0"));
        let k = b.parse().unwrap_or(0);
        match a {
            "fail" => Fate::Fail(k),
            "kill" => Fate::Kill(k),
            "cancel" => Fate::Cancel(k),
            "rfail" => Fate::RFail,
            "drop" => Fate::Drop(k),
            _ => Fate::Ok,
        }
    }
    fn show(&self) -> String {
        match self {
            Fate::Ok => "ok".into(),
            Fate::Fail(k) => format!("fail@{k}"),
            Fate::Kill(k) => format!("kill@{k}"),
            Fate::Cancel(k) => format!("cancel@{k}"),
            Fate::RFail => "rfail".into(),
            Fate::Drop(k) => format!("drop@{k}"),
        }
    }
}

#[derive(Clone, PartialEq, Debug)]
enum Outcome {
    Created,
    Existing,
    Err(String),
    Killed,
    Cancelled,
}

enum Made {
    Created,
    Existing,
}

fn err_kind<E: std::error::Error + Send + Sync + 'static>(e: &CleanFileCreationError<E>) -> &'static str {
    match e {
        CleanFileCreationError::InvalidPath => "invalidpath",
        CleanFileCreationError::LockFileCreation(_) => "lockfile",
        CleanFileCreationError::TempFileCreation(_) => "tempfile",
        CleanFileCreationError::LockFileLocking(_) => "locking",
        CleanFileCreationError::CallbackIndicatedError(_) => "callback",
        CleanFileCreationError::RenameError(_) => "rename",
    }
}

// ---------------------------------------------------------------------------------------------
// payloads and classification of what is visible at a path

/// payload of writer `id` in the round with seed `seed`: `chunks` chunks, the first one starting with a header
/// that names the writer; all payloads of a round are distinct, and any proper prefix / mixture is detected.
fn payload_chunks(seed: u64, id: u64, chunks: usize) -> Vec<Vec<u8>> {
    let mut rng = Rng::new(seed ^ id.wrapping_mul(0x9E37_79B9_7F4A_7C15) ^ ((chunks as u64) << 48));
    (0..chunks)
        .map(|c| {
            let len = 300 + rng.below(5000) as usize;
            let mut v = Vec::with_capacity(len + 40);
            if c == 0 {
                v.extend_from_slice(format!("C16 {seed} {id} {chunks}\n").as_bytes());
            }
            while v.len() < len {
                v.extend_from_slice(&rng.next_u64().to_le_bytes());
            }
            v
        })
        .collect()
}

#[derive(Clone, Copy, PartialEq, Debug)]
enum Class {
    Absent,
    Complete(u64),
    Bad,
}

/// set while a round runs in which some writer's payload is empty (`sizes` contains 0): only then is an empty file
/// at the final path one writer's complete payload
static EMPTY_OK: AtomicBool = AtomicBool::new(false);

fn classify(bytes: &[u8], seed: u64) -> Class {
    if bytes.is_empty() && EMPTY_OK.load(Ordering::SeqCst) {
        return Class::Complete(u64::MAX);
    }
    let Some(nl) = bytes.iter().position(|&b| b == b'\n') else { return Class::Bad };
    let Ok(head) = std::str::from_utf8(&bytes[..nl]) else { return Class::Bad };
    let w: Vec<&str> = head.split(' ').collect();
    if w.len() != 4 || w[0] != "C16" || w[1] != seed.to_string() {
        return Class::Bad;
    }
    let (Ok(id), Ok(chunks)) = (w[2].parse::<u64>(), w[3].parse::<usize>()) else { return Class::Bad };
    if chunks == 0 || chunks > 64 {
        return Class::Bad;
    }
    let full: Vec<u8> = payload_chunks(seed, id, chunks).concat();
    if full == bytes {
        Class::Complete(id)
    } else {
        Class::Bad
    }
}

/// what an observer sees at `path` right now (a directory counts as "no file", like `is_file()` in the code)
fn read_class(path: &Path, seed: u64) -> Class {
    // open + fstat + read: no path-based stat, so that the harness's own look at the destination is easy to
    // tell apart from the code's `metadata(dest)` in the system-call traces
    use std::io::Read;
    match std::fs::File::open(path) {
        Err(e) if e.kind() == std::io::ErrorKind::NotFound => Class::Absent,
        Err(_) => Class::Bad,
        Ok(mut f) => match f.metadata() {
            Ok(m) if m.is_file() => {
                let mut b = Vec::with_capacity(m.len() as usize + 16);
                match f.read_to_end(&mut b) {
                    Ok(_) => classify(&b, seed),
                    Err(_) => Class::Bad,
                }
            }
            Ok(_) => Class::Absent,
            Err(_) => Class::Bad,
        },
    }
}

fn class_word(c: Class) -> &'static str {
    match c {
        Class::Absent => "absent",
        Class::Complete(_) => "complete",
        Class::Bad => "bad",
    }
}

fn with_suffix(dest: &Path, suffix: &str) -> PathBuf {
    let name = dest.file_name().unwrap().to_string_lossy();
    dest.with_file_name(format!("{name}.{suffix}"))
}

fn presence(p: &Path) -> &'static str {
    if p.is_file() {
        "present"
    } else {
        "absent"
    }
}

fn final_line(dest: &Path, seed: u64) -> String {
    format!(
        "final dest={} part={} lock={}",
        class_word(read_class(dest, seed)),
        presence(&with_suffix(dest, "part")),
        presence(&with_suffix(dest, "lock"))
    )
}

/// polls the final path until stopped; returns (#observations, #bad)
struct Observer {
    stop: Arc<AtomicBool>,
    handle: Option<std::thread::JoinHandle<(u64, u64, u64)>>,
}

impl Observer {
    fn start<F: Fn(&Path) -> Class + Send + 'static>(dest: PathBuf, classify_fn: F) -> Observer {
        let stop = Arc::new(AtomicBool::new(false));
        let stop2 = stop.clone();
        let handle = std::thread::spawn(move || {
            let (mut n, mut bad, mut complete) = (0u64, 0u64, 0u64);
            loop {
                let done = stop2.load(Ordering::SeqCst);
                match classify_fn(&dest) {
                    Class::Bad => bad += 1,
                    Class::Complete(_) => complete += 1,
                    Class::Absent => {}
                }
                n += 1;
                if done {
                    break;
                }
                if n % 8 == 0 {
                    std::thread::sleep(Duration::from_micros(50));
                } else {
                    std::thread::yield_now();
                }
            }
            (n, bad, complete)
        });
        Observer { stop, handle: Some(handle) }
    }
    fn finish(mut self) -> (u64, u64, u64) {
        self.stop.store(true, Ordering::SeqCst);
        self.handle.take().unwrap().join().unwrap_or((0, 1, 0))
    }
}

// ---------------------------------------------------------------------------------------------
// round bookkeeping shared by the thread mode and the process mode

fn now_ns() -> u64 {
    // CLOCK_MONOTONIC is system-wide: timestamps taken in different processes are comparable
    let mut ts = libc::timespec { tv_sec: 0, tv_nsec: 0 };
    unsafe {
        libc::clock_gettime(libc::CLOCK_MONOTONIC, &mut ts);
    }
    ts.tv_sec as u64 * 1_000_000_000 + ts.tv_nsec as u64
}

#[derive(Default)]
struct Ctl {
    arrivals: usize,
    /// writers currently inside the callback as far as the controller has been told (used for settling only)
    active: i64,
    /// [entered the callback, left it / was dropped / was killed) per writer, timestamps taken by the writer
    /// itself (or by the harness right before it kills / drops it)
    open: HashMap<usize, u64>,
    intervals: Vec<(u64, u64)>,
    writes_ok: usize,
    cb_obs_bad: usize,
    seen_bad: usize,
    gate_reached: bool,
    gate_child: Option<usize>,
    abort_wanted: Vec<usize>,
    started: usize,
    finished: usize,
}

struct RoundCfg {
    seed: u64,
    dest: PathBuf,
    fates: Vec<Fate>,
    sizes: Vec<usize>,
    gate_idx: Option<usize>,
}

impl Ctl {
    fn leave(&mut self, creator: usize, t: u64) {
        if let Some(t0) = self.open.remove(&creator) {
            self.intervals.push((t0, t));
            self.active -= 1;
        }
    }
    /// the largest number of writers that were inside the write callback at the same time
    fn max_active(&mut self) -> usize {
        let now = now_ns();
        let still: Vec<usize> = self.open.keys().copied().collect();
        for c in still {
            self.leave(c, now);
        }
        let mut ev: Vec<(u64, i32)> = Vec::new();
        for (a, b) in &self.intervals {
            ev.push((*a, 1));
            ev.push((*b, -1));
        }
        ev.sort();
        let (mut cur, mut best) = (0i32, 0i32);
        for (_, d) in ev {
            cur += d;
            best = best.max(cur);
        }
        best as usize
    }
}

impl RoundCfg {
    /// a creator enters the write callback: it is the `idx`-th to do so and gets that fate and size
    fn arrive(&self, ctl: &Mutex<Ctl>, creator: usize, t: u64) -> (usize, Fate, usize, bool) {
        let mut c = ctl.lock().unwrap();
        let idx = c.arrivals;
        c.arrivals += 1;
        c.active += 1;
        c.open.insert(creator, t);
        let fate = self.fates.get(idx).copied().unwrap_or(Fate::Ok);
        let chunks = if self.sizes.is_empty() { 1 } else { self.sizes[idx % self.sizes.len()] };
        (idx, fate, chunks, self.gate_idx == Some(idx))
    }
}

fn kv<'a>(ws: &'a [&'a str], key: &str) -> Option<&'a str> {
    ws.iter().find_map(|w| w.split_once('=').filter(|(k, _)| *k == key).map(|(_, v)| v))
}

fn kv_num(ws: &[&str], key: &str, dflt: usize) -> usize {
    kv(ws, key).and_then(|v| v.parse().ok()).unwrap_or(dflt)
}

fn list(s: &str) -> Vec<&str> {
    if s == "-" || s.is_empty() {
        Vec::new()
    } else {
        s.split(',').collect()
    }
}

fn flock_tids_of(pid: u32) -> Vec<u32> {
    let mut v = Vec::new();
    if let Ok(rd) = std::fs::read_dir(format!("/proc/{pid}/task")) {
        for e in rd.flatten() {
            if let Ok(comm) = std::fs::read_to_string(e.path().join("comm")) {
                if comm.trim() == "flock" {
                    if let Some(t) = e.file_name().to_str().and_then(|t| t.parse().ok()) {
                        v.push(t);
                    }
                }
            }
        }
    }
    v
}

fn flock_threads_of(pid: u32) -> usize {
    flock_tids_of(pid).len()
}

static DIR_COUNTER: AtomicU64 = AtomicU64::new(0);

/// process groups of the children of the current case; a watchdog kills them if the case hangs (which only a
/// broken protocol can cause, e.g. a lock that is never released)
static CHILD_GROUPS: Mutex<Vec<u32>> = Mutex::new(Vec::new());
static WATCHDOG_KILLS: AtomicU64 = AtomicU64::new(0);

struct Watchdog {
    done: Arc<AtomicBool>,
}

impl Watchdog {
    fn start(limit: Duration) -> Watchdog {
        CHILD_GROUPS.lock().unwrap().clear();
        let done = Arc::new(AtomicBool::new(false));
        let d2 = done.clone();
        std::thread::spawn(move || {
            let t = Instant::now();
            while !d2.load(Ordering::SeqCst) {
                if t.elapsed() > limit {
                    for pg in CHILD_GROUPS.lock().unwrap().iter() {
                        unsafe {
                            libc::kill(-(*pg as i32), libc::SIGKILL);
                        }
                    }
                    WATCHDOG_KILLS.fetch_add(1, Ordering::SeqCst);
                    return;
                }
                std::thread::sleep(Duration::from_millis(20));
            }
        });
        Watchdog { done }
    }
}

impl Drop for Watchdog {
    fn drop(&mut self) {
        self.done.store(true, Ordering::SeqCst);
    }
}

fn work_dir() -> PathBuf {
    let root = std::env::var("VERIF_ROOT").unwrap_or_else(|_| {
        // harness/ is the cwd of a manual run
        std::env::current_dir().unwrap().parent().unwrap().to_string_lossy().to_string()
    });
    let d = PathBuf::from(root).join(".work").join("C16").join("tmp").join(format!(
        "{}-{}",
        std::process::id(),
        DIR_COUNTER.fetch_add(1, Ordering::SeqCst)
    ));
    let _ = std::fs::remove_dir_all(&d);
    std::fs::create_dir_all(&d).unwrap();
    d.canonicalize().unwrap()
}

// ---------------------------------------------------------------------------------------------
// thread mode: creators are tokio tasks of one multi-threaded runtime

struct ShT {
    cfg: RoundCfg,
    ctl: Mutex<Ctl>,
    gate: tokio::sync::Notify,
    /// creators with an index >= this one suspend inside `handle_existing_fn` and get their future dropped there
    ce_from: usize,
}

async fn write_cb_threads(sh: Arc<ShT>, c: usize, mut file: std::fs::File) -> Result<Made, CbErr> {
    let (idx, fate, chunks, is_gate) = sh.cfg.arrive(&sh.ctl, c, now_ns());
    let payload = payload_chunks(sh.cfg.seed, idx as u64, chunks);
    for k in 0..=chunks {
        match fate {
            Fate::Fail(f) if k >= f.min(chunks) => {
                sh.ctl.lock().unwrap().leave(c, now_ns());
                return Err(CbErr("injected write failure".into()));
            }
            Fate::Cancel(f) | Fate::Kill(f) if k >= f.min(chunks) => {
                // ask the controller to drop this future; never resumes. The writer counts as gone from now on:
                // the lock is released by the drop itself, before the controller could do any bookkeeping.
                {
                    let mut ctl = sh.ctl.lock().unwrap();
                    ctl.leave(c, now_ns());
                    ctl.abort_wanted.push(c);
                }
                std::future::pending::<()>().await;
            }
            _ => {}
        }
        if k == chunks {
            break;
        }
        file.write_all(&payload[k]).map_err(|e| CbErr(e.to_string()))?;
        if read_class(&sh.cfg.dest, sh.cfg.seed) == Class::Bad {
            sh.ctl.lock().unwrap().cb_obs_bad += 1;
        }
        if is_gate && k == 0 {
            sh.ctl.lock().unwrap().gate_reached = true;
            sh.gate.notified().await;
        }
        tokio::task::yield_now().await;
    }
    drop(file);
    {
        let mut ctl = sh.ctl.lock().unwrap();
        ctl.leave(c, now_ns());
        ctl.writes_ok += 1;
    }
    Ok(Made::Created)
}

async fn creator_threads(sh: Arc<ShT>, c: usize) -> Outcome {
    let dest = sh.cfg.dest.clone();
    let (sh2, sh3) = (sh.clone(), sh.clone());
    let r = create_file_cleanly(
        &dest,
        move |file| write_cb_threads(sh2, c, file),
        move || async move {
            if !matches!(read_class(&sh3.cfg.dest, sh3.cfg.seed), Class::Complete(_)) {
                sh3.ctl.lock().unwrap().seen_bad += 1;
            }
            if c >= sh3.ce_from {
                // await point :126: ask the controller to drop this future; never resumes
                sh3.ctl.lock().unwrap().abort_wanted.push(c);
                std::future::pending::<()>().await;
            }
            Ok::<Made, CbErr>(Made::Existing)
        },
    )
    .await;
    let o = match r {
        Ok(m) => {
            if !matches!(read_class(&dest, sh.cfg.seed), Class::Complete(_)) {
                sh.ctl.lock().unwrap().seen_bad += 1;
            }
            match m {
                Made::Created => Outcome::Created,
                Made::Existing => Outcome::Existing,
            }
        }
        Err(e) => Outcome::Err(err_kind(&e).to_string()),
    };
    sh.ctl.lock().unwrap().finished += 1;
    o
}

fn run_round_threads(cfg: RoundCfg, n: usize, late: usize, cw: usize, ce: usize, stats: &mut Stats) -> (Vec<Outcome>, Ctl) {
    let rt = tokio::runtime::Builder::new_multi_thread().worker_threads(4).enable_all().build().unwrap();
    let sh = Arc::new(ShT { cfg, ctl: Mutex::new(Ctl::default()), gate: tokio::sync::Notify::new(), ce_from: n + cw });
    let total = n + cw;
    let early = n - late;
    let outcomes = rt.block_on(async {
        let mut handles: Vec<Option<tokio::task::JoinHandle<Outcome>>> = (0..total).map(|_| None).collect();
        let mut results: Vec<Option<Outcome>> = vec![None; total];
        for (c, h) in handles.iter_mut().enumerate().take(early) {
            sh.ctl.lock().unwrap().started += 1;
            *h = Some(tokio::spawn(creator_threads(sh.clone(), c)));
        }
        let tick = Duration::from_micros(200);
        // drop the futures of writers whose fate says so
        async fn process_aborts(
            sh: &Arc<ShT>,
            handles: &mut [Option<tokio::task::JoinHandle<Outcome>>],
            results: &mut [Option<Outcome>],
        ) {
            let wanted: Vec<usize> = std::mem::take(&mut sh.ctl.lock().unwrap().abort_wanted);
            for c in wanted {
                if let Some(h) = handles[c].take() {
                    h.abort();
                    let r = h.await;
                    results[c] = Some(match r {
                        Ok(o) => o,
                        Err(_) => Outcome::Cancelled,
                    });
                    sh.ctl.lock().unwrap().finished += 1;
                }
            }
        }
        let t0 = Instant::now();
        loop {
            process_aborts(&sh, &mut handles, &mut results).await;
            let (gate, fin) = {
                let c = sh.ctl.lock().unwrap();
                (c.gate_reached, c.finished)
            };
            if gate || fin >= early || late + cw == 0 || t0.elapsed() > Duration::from_secs(20) {
                break;
            }
            tokio::time::sleep(tick).await;
        }
        if late + cw > 0 {
            for (c, h) in handles.iter_mut().enumerate().skip(early) {
                sh.ctl.lock().unwrap().started += 1;
                *h = Some(tokio::spawn(creator_threads(sh.clone(), c)));
            }
            // settle: every started creator is finished, inside the callback, or blocked in its flock thread
            let t1 = Instant::now();
            loop {
                process_aborts(&sh, &mut handles, &mut results).await;
                let (started, finished, active) = {
                    let c = sh.ctl.lock().unwrap();
                    (c.started as i64, c.finished as i64, c.active)
                };
                if flock_threads_of(std::process::id()) as i64 >= started - finished - active {
                    break;
                }
                if t1.elapsed() > Duration::from_secs(3) {
                    stats.bump("settle_timeouts");
                    break;
                }
                tokio::time::sleep(tick).await;
            }
            // the `cw` creators are cancelled while they wait for the lock
            for c in n..total {
                if let Some(h) = handles[c].take() {
                    h.abort();
                    results[c] = Some(match h.await {
                        Ok(o) => o,
                        Err(_) => {
                            sh.ctl.lock().unwrap().finished += 1;
                            Outcome::Cancelled
                        }
                    });
                }
            }
            sh.gate.notify_one();
        }
        let t2 = Instant::now();
        loop {
            process_aborts(&sh, &mut handles, &mut results).await;
            let fin = sh.ctl.lock().unwrap().finished;
            if fin >= total || t2.elapsed() > Duration::from_secs(20) {
                break;
            }
            tokio::time::sleep(tick).await;
        }
        for c in 0..total {
            if let Some(h) = handles[c].take() {
                match tokio::time::timeout(Duration::from_secs(5), h).await {
                    Ok(Ok(o)) => results[c] = Some(o),
                    Ok(Err(_)) => results[c] = Some(Outcome::Cancelled),
                    Err(_) => results[c] = Some(Outcome::Err("stuck".into())),
                }
            }
        }
        // the detached flock threads of cancelled waiters take and drop the lock; wait for them
        let t3 = Instant::now();
        while flock_threads_of(std::process::id()) > 0 && t3.elapsed() < Duration::from_secs(5) {
            tokio::time::sleep(tick).await;
        }
        // `ce` more creators, one after the other: each finds the destination (if somebody created it), suspends in
        // its existing-file handler and gets its future dropped there; if nobody created it, it creates it
        for c in total..total + ce {
            let mut hs = vec![Some(tokio::spawn(creator_threads(sh.clone(), c)))];
            let mut rs = vec![None];
            let t4 = Instant::now();
            loop {
                // abort_wanted holds global creator indices; this loop owns exactly creator c
                let wanted: Vec<usize> = std::mem::take(&mut sh.ctl.lock().unwrap().abort_wanted);
                if wanted.contains(&c) {
                    if let Some(h) = hs[0].take() {
                        h.abort();
                        rs[0] = Some(match h.await {
                            Ok(o) => o,
                            Err(_) => Outcome::Cancelled,
                        });
                    }
                    break;
                }
                if hs[0].as_ref().map(|h| h.is_finished()).unwrap_or(true) || t4.elapsed() > Duration::from_secs(20) {
                    break;
                }
                tokio::time::sleep(tick).await;
            }
            if let Some(h) = hs[0].take() {
                rs[0] = Some(match tokio::time::timeout(Duration::from_secs(5), h).await {
                    Ok(Ok(o)) => o,
                    Ok(Err(_)) => Outcome::Cancelled,
                    Err(_) => Outcome::Err("stuck".into()),
                });
            }
            results.push(rs.pop().unwrap());
        }
        results.into_iter().map(|o| o.unwrap_or(Outcome::Err("lost".into()))).collect::<Vec<_>>()
    });
    rt.shutdown_timeout(Duration::from_secs(2));
    let sh = Arc::try_unwrap(sh).ok().expect("round state still shared");
    (outcomes, sh.ctl.into_inner().unwrap())
}

/// a solo creator in this process (used for the retry of thread-mode rounds)
fn solo_in_process(dest: &Path, seed: u64, id: u64, chunks: usize) -> Outcome {
    let rt = tokio::runtime::Builder::new_current_thread().enable_all().build().unwrap();
    let dest2 = dest.to_path_buf();
    rt.block_on(async move {
        let r = create_file_cleanly(
            &dest2,
            |mut file: std::fs::File| async move {
                for ch in payload_chunks(seed, id, chunks) {
                    file.write_all(&ch).map_err(|e| CbErr(e.to_string()))?;
                }
                drop(file);
                Ok::<Made, CbErr>(Made::Created)
            },
            || async { Ok::<Made, CbErr>(Made::Existing) },
        )
        .await;
        match r {
            Ok(Made::Created) => Outcome::Created,
            Ok(Made::Existing) => Outcome::Existing,
            Err(e) => Outcome::Err(err_kind(&e).to_string()),
        }
    })
}

// ---------------------------------------------------------------------------------------------
// process mode: creators are re-exec'd children of this binary

/// `--c16-child <dest> <seed> <id> arrive` | `… solo:<chunks>:<fate>`
extern "C" fn noop_handler(_: libc::c_int) {}

fn child_main(args: &[String]) -> ! {
    if std::env::var("C16_EMPTY_OK").is_ok() {
        EMPTY_OK.store(true, Ordering::SeqCst);
    }
    // SIGUSR1 without SA_RESTART: a signal sent to a thread that is blocked in flock(2) makes the call return
    // EINTR (the retry loops of file_creation.rs:189-200 / :233-244)
    unsafe {
        let mut sa: libc::sigaction = std::mem::zeroed();
        sa.sa_sigaction = noop_handler as *const () as usize;
        sa.sa_flags = 0;
        libc::sigemptyset(&mut sa.sa_mask);
        libc::sigaction(libc::SIGUSR1, &sa, std::ptr::null_mut());
    }
    let dest = PathBuf::from(&args[0]);
    let seed: u64 = args[1].parse().unwrap();
    let id: u64 = args[2].parse().unwrap();
    let mode = args[3].clone();
    let say = |s: &str| {
        let mut o = std::io::stdout().lock();
        let _ = writeln!(o, "{s}");
        let _ = o.flush();
    };
    let rt = tokio::runtime::Builder::new_current_thread().enable_all().build().unwrap();
    let dest_owned = dest.clone();
    let dest2: &Path = &dest_owned;
    let drop_me = Arc::new(tokio::sync::Notify::new());
    let drop_me2 = drop_me.clone();
    let r = rt.block_on(async {
        let fut = create_file_cleanly(
            &dest,
            |mut file: std::fs::File| async move {
                let (idx, fate, chunks, is_gate) = if let Some(rest) = mode.strip_prefix("solo:") {
                    let (c, f) = rest.split_once(':').unwrap_or((rest, "ok"));
                    (id, Fate::parse(f), c.parse::<usize>().unwrap_or(1), false)
                } else {
                    say(&format!("ARRIVE {}", now_ns()));
                    let mut line = String::new();
                    std::io::stdin().lock().read_line(&mut line).unwrap();
                    let w: Vec<&str> = line.split_whitespace().collect();
                    (w[0].parse::<u64>().unwrap(), Fate::parse(w[1]), w[2].parse::<usize>().unwrap(), w[3] == "1")
                };
                let payload = payload_chunks(seed, idx, chunks);
                for k in 0..=chunks {
                    match fate {
                        Fate::Fail(f) if k >= f.min(chunks) => {
                            say(&format!("LEAVE 0 {}", now_ns()));
                            return Err(CbErr("injected write failure".into()));
                        }
                        Fate::Drop(f) if k >= f.min(chunks) => {
                            // ask the main task to drop this future; never resumes
                            drop_me2.notify_one();
                            std::future::pending::<()>().await;
                        }
                        Fate::Kill(f) | Fate::Cancel(f) if k >= f.min(chunks) => {
                            say(&format!("PARKED {}", std::process::id()));
                            loop {
                                std::thread::sleep(Duration::from_secs(3600));
                            }
                        }
                        _ => {}
                    }
                    if k == chunks {
                        break;
                    }
                    file.write_all(&payload[k]).map_err(|e| CbErr(e.to_string()))?;
                    if read_class(dest2, seed) == Class::Bad {
                        say("OBSBAD");
                    }
                    if is_gate && k == 0 {
                        say("GATE");
                        let mut line = String::new();
                        std::io::stdin().lock().read_line(&mut line).unwrap();
                    }
                }
                drop(file);
                say(&format!("LEAVE 1 {}", now_ns()));
                Ok::<Made, CbErr>(Made::Created)
            },
            || async move {
                let c = read_class(dest2, seed);
                say(&format!("SAW {}", if matches!(c, Class::Complete(_)) { "ok" } else { "bad" }));
                Ok::<Made, CbErr>(Made::Existing)
            },
        );
        tokio::select! {
            r = fut => Some(r),
            _ = drop_me.notified() => None,
        }
    });
    let Some(r) = r else {
        say("RESULT cancelled");
        std::process::exit(0);
    };
    match r {
        Ok(m) => {
            let c = read_class(dest2, seed);
            say(&format!(
                "RESULT {} {}",
                match m {
                    Made::Created => "created",
                    Made::Existing => "existing",
                },
                if matches!(c, Class::Complete(_)) { "ok" } else { "bad" }
            ));
        }
        Err(e) => say(&format!("RESULT err {}", err_kind(&e))),
    }
    std::process::exit(0);
}

/// strace arguments that act on entry to the system call named by `point`
fn strace_inject(dest: &Path, point: &str, action: &str) -> Option<Vec<String>> {
    let (path, set, when): (PathBuf, &str, Option<usize>) = match point {
        "flock" => (with_suffix(dest, "lock"), "flock", Some(1)),
        "stat" => (dest.to_path_buf(), "statx,newfstatat", Some(1)),
        "openpart" => (with_suffix(dest, "part"), "openat", Some(1)),
        "closepart" => (with_suffix(dest, "part"), "close", Some(1)),
        "rename" => (with_suffix(dest, "part"), "rename,renameat,renameat2", Some(1)),
        "closelock" => (with_suffix(dest, "lock"), "close", Some(1)),
        "unlinklock" => (with_suffix(dest, "lock"), "unlink,unlinkat", Some(1)),
        p if p.starts_with("write") => (with_suffix(dest, "part"), "write", p[5..].parse().ok()),
        _ => return None,
    };
    let when = when?;
    Some(vec![
        "-f".into(),
        "-o".into(),
        "/dev/null".into(),
        "-P".into(),
        path.to_string_lossy().to_string(),
        "-e".into(),
        format!("trace={set}"),
        "-e".into(),
        format!("inject={set}:{action}:when={when}"),
    ])
}

struct Kid {
    child: Child,
    stdin: Arc<Mutex<ChildStdin>>,
    reader: Option<std::thread::JoinHandle<Outcome>>,
}

struct ShP {
    cfg: RoundCfg,
    ctl: Mutex<Ctl>,
}

fn spawn_kid(sh: &Arc<ShP>, c: usize, id: u64, mode: &str, strace: Option<Vec<String>>) -> Kid {
    let exe = std::env::current_exe().unwrap();
    let mut cmd = match strace {
        Some(sargs) => {
            let mut cmd = Command::new("strace");
            cmd.args(sargs).arg(&exe);
            cmd
        }
        None => Command::new(&exe),
    };
    if EMPTY_OK.load(Ordering::SeqCst) {
        cmd.env("C16_EMPTY_OK", "1");
    }
    cmd.arg("--c16-child")
        .arg(&sh.cfg.dest)
        .arg(sh.cfg.seed.to_string())
        .arg(id.to_string())
        .arg(mode)
        .stdin(Stdio::piped())
        .stdout(Stdio::piped())
        .stderr(Stdio::null());
    std::os::unix::process::CommandExt::process_group(&mut cmd, 0);
    let mut child = cmd.spawn().expect("spawn creator child");
    CHILD_GROUPS.lock().unwrap().push(child.id());
    let stdin = Arc::new(Mutex::new(child.stdin.take().unwrap()));
    let stdout = child.stdout.take().unwrap();
    let (sh2, stdin2) = (sh.clone(), stdin.clone());
    let reader = std::thread::spawn(move || {
        let mut outcome: Option<Outcome> = None;
        let stamp = |w: &[&str], i: usize| w.get(i).and_then(|t| t.parse::<u64>().ok()).unwrap_or_else(now_ns);
        for line in BufReader::new(stdout).lines() {
            let Ok(line) = line else { break };
            let w: Vec<&str> = line.split_whitespace().collect();
            match w.first().copied() {
                Some("ARRIVE") => {
                    let (idx, fate, chunks, gate) = sh2.cfg.arrive(&sh2.ctl, c, stamp(&w, 1));
                    let _ = writeln!(stdin2.lock().unwrap(), "{idx} {} {chunks} {}", fate.show(), gate as u8);
                }
                Some("OBSBAD") => sh2.ctl.lock().unwrap().cb_obs_bad += 1,
                Some("GATE") => {
                    let mut ctl = sh2.ctl.lock().unwrap();
                    ctl.gate_reached = true;
                    ctl.gate_child = Some(c);
                }
                Some("PARKED") => {
                    // SIGKILL the writer mid-write (it counts as gone from now on: the kernel releases its lock
                    // before this thread could notice the death)
                    sh2.ctl.lock().unwrap().leave(c, now_ns());
                    if let Some(pid) = w.get(1).and_then(|p| p.parse::<i32>().ok()) {
                        unsafe {
                            libc::kill(pid, libc::SIGKILL);
                        }
                    }
                }
                Some("LEAVE") => {
                    let mut ctl = sh2.ctl.lock().unwrap();
                    ctl.leave(c, stamp(&w, 2));
                    if w.get(1) == Some(&"1") {
                        ctl.writes_ok += 1;
                    }
                }
                Some("SAW") => {
                    if w.get(1) != Some(&"ok") {
                        sh2.ctl.lock().unwrap().seen_bad += 1;
                    }
                }
                Some("RESULT") => {
                    if matches!(w.get(1), Some(&"created") | Some(&"existing")) && w.get(2) != Some(&"ok") {
                        sh2.ctl.lock().unwrap().seen_bad += 1;
                    }
                    outcome = Some(match w.get(1).copied() {
                        Some("created") => Outcome::Created,
                        Some("existing") => Outcome::Existing,
                        _ => Outcome::Err(w.get(2).unwrap_or(&"?").to_string()),
                    });
                }
                _ => {}
            }
        }
        sh2.ctl.lock().unwrap().leave(c, now_ns());
        outcome.unwrap_or(Outcome::Killed)
    });
    sh.ctl.lock().unwrap().started += 1;
    Kid { child, stdin, reader: Some(reader) }
}

fn finish_kid(sh: &ShP, k: &mut Kid) -> Outcome {
    let o = k.reader.take().map(|r| r.join().unwrap_or(Outcome::Err("reader".into()))).unwrap_or(Outcome::Err("lost".into()));
    let _ = k.child.wait();
    sh.ctl.lock().unwrap().finished += 1;
    o
}

#[allow(clippy::too_many_arguments)]
fn run_round_procs(
    cfg: RoundCfg,
    n: usize,
    late: usize,
    cw: usize,
    sig: usize,
    sigx: usize,
    pre: Option<(String, usize, usize)>,
    lead: Option<(String, usize)>,
    stats: &mut Stats,
) -> (Option<(usize, usize)>, Vec<Outcome>, Ctl) {
    let sh = Arc::new(ShP { cfg, ctl: Mutex::new(Ctl::default()) });
    let tick = Duration::from_micros(300);
    // wave 0: creators that are killed on entry to a system call
    let mut pre_result = None;
    if let Some((point, d, presize)) = pre {
        let mut kids: Vec<Kid> = (0..d)
            .map(|i| {
                let inj = strace_inject(&sh.cfg.dest, &point, "signal=KILL");
                spawn_kid(&sh, 1000 + i, 100 + i as u64, &format!("solo:{presize}:ok"), inj)
            })
            .collect();
        let outs: Vec<Outcome> = kids.iter_mut().map(|k| finish_kid(&sh, k)).collect();
        let killed = outs.iter().filter(|o| **o == Outcome::Killed).count();
        pre_result = Some((killed, d - killed));
        let mut ctl = sh.ctl.lock().unwrap();
        *ctl = Ctl { cb_obs_bad: ctl.cb_obs_bad, seen_bad: ctl.seen_bad, ..Ctl::default() };
    }
    let early = n - late;
    // kids n..n+cw are waiters that get SIGKILLed while they are blocked in flock
    let mut kids: Vec<Option<Kid>> = (0..n + cw).map(|_| None).collect();
    let mut first = 0;
    if let Some((point, usec)) = &lead {
        // creator 0 runs under strace with a delay at the chosen system call; it starts alone and the others
        // start once it is inside its write callback
        let inj = if point == "renamefail" {
            // the rename of creator 0 fails (the system call is not executed): RenameError after a good write
            strace_inject(&sh.cfg.dest, "rename", "error=EIO")
        } else {
            strace_inject(&sh.cfg.dest, point, &format!("delay_enter={usec}"))
        };
        kids[0] = Some(spawn_kid(&sh, 0, 0, "arrive", inj));
        first = 1;
        let t = Instant::now();
        loop {
            let c = sh.ctl.lock().unwrap();
            if c.arrivals >= 1 || t.elapsed() > Duration::from_secs(10) {
                break;
            }
            drop(c);
            std::thread::sleep(tick);
        }
    }
    for (c, k) in kids.iter_mut().enumerate().take(early).skip(first) {
        *k = Some(spawn_kid(&sh, c, c as u64, "arrive", None));
    }
    let readers_done = |kids: &Vec<Option<Kid>>| -> usize {
        kids.iter().flatten().filter(|k| k.reader.as_ref().map(|r| r.is_finished()).unwrap_or(true)).count()
    };
    if late + cw > 0 {
        let t0 = Instant::now();
        loop {
            let gate = sh.ctl.lock().unwrap().gate_reached;
            if gate || readers_done(&kids) >= early || t0.elapsed() > Duration::from_secs(20) {
                break;
            }
            std::thread::sleep(tick);
        }
        for (c, k) in kids.iter_mut().enumerate().skip(early) {
            *k = Some(spawn_kid(&sh, c, c as u64, "arrive", None));
        }
        let t1 = Instant::now();
        loop {
            let (started, active) = {
                let c = sh.ctl.lock().unwrap();
                (c.started as i64, c.active)
            };
            let finished = readers_done(&kids) as i64;
            let waiting: usize = kids.iter().flatten().map(|k| flock_threads_of(k.child.id())).sum();
            if waiting as i64 >= started - finished - active {
                break;
            }
            if t1.elapsed() > Duration::from_secs(3) {
                stats.bump("settle_timeouts");
                break;
            }
            std::thread::sleep(tick);
        }
        // signals (no SA_RESTART) to every thread that is blocked in flock: the call returns EINTR and is retried
        for round in 0..sig {
            for k in kids.iter().flatten() {
                let pid = k.child.id();
                for tid in flock_tids_of(pid) {
                    unsafe {
                        libc::syscall(libc::SYS_tgkill, pid as libc::c_long, tid as libc::c_long, libc::SIGUSR1 as libc::c_long);
                    }
                    stats.bump("eintr_signals_sent");
                }
            }
            std::thread::sleep(Duration::from_millis(if round + 1 < sig { 4 } else { 8 }));
        }
        // the last `sigx` late creators are signalled until their flock thread has been interrupted five times and
        // gives up ("File locking was interrupted too many times", file_creation.rs:233-244): err:locking
        for c in (early..n).rev().take(sigx) {
            if let Some(k) = &kids[c] {
                let pid = k.child.id();
                let t = Instant::now();
                while t.elapsed() < Duration::from_secs(5) && !k.reader.as_ref().map(|r| r.is_finished()).unwrap_or(true) {
                    for tid in flock_tids_of(pid) {
                        unsafe {
                            libc::syscall(libc::SYS_tgkill, pid as libc::c_long, tid as libc::c_long, libc::SIGUSR1 as libc::c_long);
                        }
                        stats.bump("eintr_signals_sent");
                    }
                    std::thread::sleep(Duration::from_millis(2));
                }
            }
        }
        // the `cw` waiters are killed while they are blocked in flock
        for k in kids.iter().skip(n).flatten() {
            unsafe {
                libc::kill(k.child.id() as i32, libc::SIGKILL);
            }
        }
        if cw > 0 {
            // their readers see EOF; only then may the lock holder go on (a killed waiter must not be granted the lock)
            let t2 = Instant::now();
            while t2.elapsed() < Duration::from_secs(5)
                && !kids.iter().skip(n).flatten().all(|k| k.reader.as_ref().map(|r| r.is_finished()).unwrap_or(true))
            {
                std::thread::sleep(tick);
            }
        }
        let gate_child = sh.ctl.lock().unwrap().gate_child;
        if let Some(g) = gate_child {
            if let Some(k) = &kids[g] {
                let _ = writeln!(k.stdin.lock().unwrap(), "GO");
            }
        }
    }
    let outs: Vec<Outcome> = kids
        .iter_mut()
        .map(|k| match k {
            Some(k) => finish_kid(&sh, k),
            None => Outcome::Err("notstarted".into()),
        })
        .collect();
    let sh = Arc::try_unwrap(sh).ok().expect("round state still shared");
    (pre_result, outs, sh.ctl.into_inner().unwrap())
}

/// a solo creator child; returns (outcome, strace output if traced)
fn solo_child(dest: &Path, seed: u64, id: u64, chunks: usize, fate: &str, trace_to: Option<&Path>) -> Outcome {
    let exe = std::env::current_exe().unwrap();
    let mut cmd = match trace_to {
        Some(out) => {
            let mut cmd = Command::new("strace");
            cmd.arg("-f")
                .arg("-o")
                .arg(out)
                .arg("-e")
                .arg("trace=openat,flock,statx,newfstatat,rename,renameat,renameat2,unlink,unlinkat,close,write,fcntl,dup,dup2,dup3")
                .arg(&exe);
            cmd
        }
        None => Command::new(&exe),
    };
    if EMPTY_OK.load(Ordering::SeqCst) {
        cmd.env("C16_EMPTY_OK", "1");
    }
    cmd.arg("--c16-child")
        .arg(dest)
        .arg(seed.to_string())
        .arg(id.to_string())
        .arg(format!("solo:{chunks}:{fate}"))
        .stdin(Stdio::null())
        .stdout(Stdio::piped())
        .stderr(Stdio::null());
    std::os::unix::process::CommandExt::process_group(&mut cmd, 0);
    let child = cmd.spawn().expect("spawn solo child");
    CHILD_GROUPS.lock().unwrap().push(child.id());
    let out = child.wait_with_output().expect("solo child output");
    let text = String::from_utf8_lossy(&out.stdout);
    for l in text.lines() {
        let w: Vec<&str> = l.split_whitespace().collect();
        if w.first() == Some(&"RESULT") {
            return match w.get(1).copied() {
                Some("created") => Outcome::Created,
                Some("existing") => Outcome::Existing,
                Some("cancelled") => Outcome::Cancelled,
                _ => Outcome::Err(w.get(2).unwrap_or(&"?").to_string()),
            };
        }
    }
    Outcome::Killed
}

// ---------------------------------------------------------------------------------------------
// (b) one round

fn outcome_word(o: &Outcome) -> String {
    match o {
        Outcome::Created => "created".into(),
        Outcome::Existing => "existing".into(),
        Outcome::Err(k) => format!("err:{k}"),
        Outcome::Killed => "killed".into(),
        Outcome::Cancelled => "cancelled".into(),
    }
}

fn run_round(ws: &[&str], stats: &mut Stats) -> Vec<String> {
    let mode = kv(ws, "mode").unwrap_or("threads");
    let n = kv_num(ws, "n", 2);
    let late = kv_num(ws, "late", 0).min(n.saturating_sub(1));
    let cw = kv_num(ws, "cw", 0);
    let sig = if mode == "procs" { kv_num(ws, "sig", 0).min(3) } else { 0 };
    let sigx = if mode == "procs" { kv_num(ws, "sigx", 0).min(late) } else { 0 };
    let ce = if mode == "threads" { kv_num(ws, "ce", 0) } else { 0 };
    let fates: Vec<Fate> = list(kv(ws, "fates").unwrap_or("-")).into_iter().map(Fate::parse).collect();
    let sizes: Vec<usize> = list(kv(ws, "sizes").unwrap_or("-")).into_iter().filter_map(|s| s.parse().ok()).collect();
    let seed = kv_num(ws, "seed", 1) as u64;
    let wants_rfail = kv(ws, "lead").map(|l| l.starts_with("renamefail:")).unwrap_or(false);
    if fates.iter().enumerate().any(|(i, f)| (*f == Fate::RFail) != (wants_rfail && i == 0)) || (wants_rfail && (fates.is_empty() || mode != "procs")) {
        return vec!["bad-op".into()];
    }
    let dir = work_dir();
    let dest = dir.join("cache.bin");
    let first_ok = fates.iter().take_while(|f| **f != Fate::Ok).count();
    let gate_idx = if late + cw > 0 { Some(first_ok) } else { None };
    EMPTY_OK.store(sizes.contains(&0), Ordering::SeqCst);
    let cfg = RoundCfg { seed, dest: dest.clone(), fates: fates.clone(), sizes, gate_idx };
    let mut out = Vec::new();
    let observer = Observer::start(dest.clone(), move |p| read_class(p, seed));
    let (pre_result, outcomes, mut ctl) = if mode == "procs" {
        let pre = kv(ws, "pre").filter(|p| *p != "-").and_then(|p| {
            let (point, d) = p.split_once('x')?;
            Some((point.to_string(), d.parse().ok()?, kv_num(ws, "presize", 2)))
        });
        let lead = kv(ws, "lead").filter(|p| *p != "-").and_then(|p| {
            let (point, usec) = p.split_once(':')?;
            Some((point.to_string(), usec.parse().ok()?))
        });
        run_round_procs(cfg, n, late, cw, sig, sigx, pre, lead, stats)
    } else {
        let (o, c) = run_round_threads(cfg, n, late, cw, ce, stats);
        (None, o, c)
    };
    let fin = final_line(&dest, seed);
    // retry: a fresh solo creator whose writer succeeds
    let retry = if mode == "procs" {
        solo_child(&dest, seed, 1000, 2, "ok", None)
    } else {
        solo_in_process(&dest, seed, 1000, 2)
    };
    let after_retry = read_class(&dest, seed);
    let (n_obs, obs_bad, obs_complete) = observer.finish();
    if let Some((k, f)) = pre_result {
        out.push(format!("pre killed={k} finished={f}"));
    }
    let count = |p: &dyn Fn(&Outcome) -> bool| outcomes.iter().filter(|o| p(o)).count();
    out.push(format!(
        "outcomes created={} existing={} err={} killed={} cancelled={} err_rename={}",
        count(&|o| *o == Outcome::Created),
        count(&|o| *o == Outcome::Existing),
        count(&|o| matches!(o, Outcome::Err(_))),
        count(&|o| *o == Outcome::Killed),
        count(&|o| *o == Outcome::Cancelled),
        count(&|o| *o == Outcome::Err("rename".into()))
    ));
    out.push(format!("writes_ok={}", ctl.writes_ok));
    out.push(format!("max_active={}", ctl.max_active()));
    out.push(format!("observations bad={}", obs_bad + ctl.cb_obs_bad as u64));
    out.push(if ctl.seen_bad == 0 { "seen ok".to_string() } else { "seen bad".to_string() });
    out.push(fin);
    out.push(format!("retry {} dest={}", outcome_word(&retry), class_word(after_retry)));
    stats.add("observations", n_obs);
    stats.add("observations_dest_complete", obs_complete);
    stats.bump(&format!("round_mode_{mode}"));
    stats.bump(&format!("round_n_{n}"));
    stats.add("arrivals", ctl.arrivals as u64);
    for o in &outcomes {
        stats.bump(&format!("outcome_{}", outcome_word(o).replace(':', "_")));
    }
    for f in &fates {
        stats.bump(&format!("fate_{}", f.show().split('@').next().unwrap()));
    }
    if late > 0 {
        stats.bump("rounds_with_late_creators");
    }
    if cw > 0 {
        stats.bump(if mode == "procs" { "rounds_with_killed_waiters" } else { "rounds_with_cancelled_waiters" });
    }
    if sig > 0 {
        stats.bump("rounds_with_eintr_signals");
    }
    if sigx > 0 {
        stats.bump("rounds_with_eintr_exhaustion");
    }
    if ce > 0 {
        stats.bump("rounds_with_cancel_in_existing_handler");
    }
    if EMPTY_OK.swap(false, Ordering::SeqCst) {
        stats.bump("rounds_with_empty_payload");
    }
    if let Some(p) = kv(ws, "pre").filter(|p| *p != "-") {
        stats.bump(&format!("pre_kill_{}", p.split('x').next().unwrap().trim_end_matches(char::is_numeric)));
    }
    if wants_rfail {
        stats.bump("rounds_with_rename_failure");
    } else if kv(ws, "lead").filter(|p| *p != "-").is_some() {
        stats.bump("rounds_with_delay_injection");
    }
    let _ = std::fs::remove_dir_all(&dir);
    out
}

// ---------------------------------------------------------------------------------------------
// (a) syscall trace of one creator

fn quoted(s: &str) -> Vec<String> {
    let mut v = Vec::new();
    let mut rest = s;
    while let Some(a) = rest.find('"') {
        let r = &rest[a + 1..];
        let Some(b) = r.find('"') else { break };
        v.push(r[..b].to_string());
        rest = &r[b + 1..];
    }
    v
}

fn canonical_trace(text: &str, dest: &Path) -> Vec<String> {
    let names: Vec<(String, &str, &str)> = vec![
        (dest.to_string_lossy().to_string(), "dest", "D"),
        (with_suffix(dest, "part").to_string_lossy().to_string(), "part", "P"),
        (with_suffix(dest, "lock").to_string_lossy().to_string(), "lock", "L"),
    ];
    let name_of = |p: &str| names.iter().find(|(full, _, _)| full == p).map(|(_, n, f)| (*n, *f));
    let mut pending: HashMap<String, String> = HashMap::new();
    let mut fds: HashMap<i64, &str> = HashMap::new();
    let mut out = Vec::new();
    for raw in text.lines() {
        let (pid, rest) = match raw.split_once(' ') {
            Some((p, r)) if p.chars().all(|c| c.is_ascii_digit()) => (p.to_string(), r.trim_start().to_string()),
            _ => ("0".to_string(), raw.to_string()),
        };
        let line = if let Some(i) = rest.find(" <unfinished ...>") {
            pending.insert(pid, rest[..i].to_string());
            continue;
        } else if rest.starts_with("<... ") {
            let tail = rest.split_once("resumed>").map(|(_, t)| t).unwrap_or("");
            format!("{}{}", pending.remove(&pid).unwrap_or_default(), tail)
        } else {
            rest
        };
        let Some(par) = line.find('(') else { continue };
        let call = &line[..par];
        let ret: i64 = line
            .rsplit_once(" = ")
            .and_then(|(_, r)| r.split_whitespace().next())
            .and_then(|r| r.parse().ok())
            .unwrap_or(-1);
        let args = &line[par + 1..];
        let first_num = || -> i64 { args.split(|c: char| c == ',' || c == ')').next().and_then(|a| a.trim().parse().ok()).unwrap_or(-1) };
        match call {
            "openat" | "open" => {
                let q = quoted(args);
                let Some((name, fdname)) = q.first().and_then(|p| name_of(p)) else { continue };
                let writes = args.contains("O_WRONLY") || args.contains("O_RDWR") || args.contains("O_CREAT");
                if !writes {
                    continue; // the harness's own read-only look at the destination
                }
                let mut flags = Vec::new();
                for (f, w) in [("O_CREAT", "creat"), ("O_TRUNC", "trunc"), ("O_EXCL", "excl"), ("O_APPEND", "append")] {
                    if args.contains(f) {
                        flags.push(w);
                    }
                }
                let fl = if flags.is_empty() { "plain".to_string() } else { flags.join(",") };
                if ret >= 0 {
                    fds.insert(ret, fdname);
                    out.push(format!("open {name} {fl}"));
                } else {
                    out.push(format!("open {name} {fl} -> err"));
                }
            }
            "flock" => {
                if let Some(f) = fds.get(&first_num()) {
                    let op = if args.contains("LOCK_EX") && args.contains("LOCK_NB") {
                        "ex,nb"
                    } else if args.contains("LOCK_EX") {
                        "ex"
                    } else if args.contains("LOCK_UN") {
                        "un"
                    } else {
                        "other"
                    };
                    let r = if ret == 0 {
                        "ok"
                    } else if line.contains("EAGAIN") || line.contains("EWOULDBLOCK") {
                        "wouldblock"
                    } else {
                        "err"
                    };
                    out.push(format!("flock {f} {op} -> {r}"));
                }
            }
            "statx" | "newfstatat" | "stat" | "lstat" => {
                let q = quoted(args);
                let Some((name, _)) = q.first().and_then(|p| name_of(p)) else { continue };
                let r = if ret == 0 && line.contains("S_IFREG") { "file" } else { "nofile" };
                out.push(format!("stat {name} -> {r}"));
            }
            "write" => {
                if let Some(f) = fds.get(&first_num()) {
                    out.push(format!("write {f}"));
                }
            }
            "fcntl" | "dup" | "dup2" | "dup3" => {
                // a second descriptor of one of the three files (e.g. File::try_clone) keeps it open
                let is_dup = call != "fcntl" || args.contains("F_DUPFD");
                if let (true, Some(f)) = (is_dup && ret >= 0, fds.get(&first_num()).copied()) {
                    fds.insert(ret, f);
                    out.push(format!("dup {f}"));
                }
            }
            "close" => {
                if let Some(f) = fds.remove(&first_num()) {
                    out.push(format!("close {f}"));
                }
            }
            "rename" | "renameat" | "renameat2" => {
                let q = quoted(args);
                let ns: Vec<&str> = q.iter().filter_map(|p| name_of(p).map(|(n, _)| n)).collect();
                if !ns.is_empty() {
                    let a = q.first().and_then(|p| name_of(p)).map(|(n, _)| n).unwrap_or("other");
                    let b = q.get(1).and_then(|p| name_of(p)).map(|(n, _)| n).unwrap_or("other");
                    out.push(format!("rename {a} {b} -> {}", if ret == 0 { "ok" } else { "err" }));
                }
            }
            "unlink" | "unlinkat" => {
                let q = quoted(args);
                if let Some((name, _)) = q.first().and_then(|p| name_of(p)) {
                    out.push(format!("unlink {name}"));
                }
            }
            _ => {}
        }
    }
    out
}

fn first_child_of(pid: u32) -> Option<u32> {
    std::fs::read_to_string(format!("/proc/{pid}/task/{pid}/children"))
        .ok()
        .and_then(|s| s.split_whitespace().next().and_then(|p| p.parse().ok()))
}

fn run_trace(ws: &[&str], stats: &mut Stats) -> Vec<String> {
    let scenario = ws.get(1).copied().unwrap_or("success");
    let chunks = kv_num(ws, "chunks", 2).max(1);
    let failat = kv_num(ws, "failat", 1);
    let seed = 7u64;
    let dir = work_dir();
    let dest = dir.join("cache.bin");
    let trace_file = dir.join("strace.out");
    let mut fate = "ok".to_string();
    match scenario {
        "writer_error" => fate = format!("fail@{failat}"),
        "cancelled" => fate = format!("drop@{failat}"),
        "existing" => {
            solo_in_process(&dest, seed, 1, chunks);
        }
        "rename_error" => std::fs::create_dir(&dest).unwrap(), // rename(file, directory) fails; is_file() is false
        "part_open_error" => std::fs::create_dir(with_suffix(&dest, "part")).unwrap(),
        "lock_open_error" => std::fs::create_dir(with_suffix(&dest, "lock")).unwrap(),
        _ => {}
    }
    let outcome;
    if scenario == "blocked_existing" || scenario == "blocked_absent" {
        // somebody else (a real creator in this process) is parked inside its write callback and holds the lock
        let other_fate = if scenario == "blocked_existing" { Fate::Ok } else { Fate::Fail(1) };
        let cfg = RoundCfg { seed, dest: dest.clone(), fates: vec![other_fate], sizes: vec![chunks], gate_idx: Some(0) };
        let sh = Arc::new(ShT { cfg, ctl: Mutex::new(Ctl::default()), gate: tokio::sync::Notify::new(), ce_from: usize::MAX });
        let rt = tokio::runtime::Builder::new_multi_thread().worker_threads(2).enable_all().build().unwrap();
        let h = rt.spawn(creator_threads(sh.clone(), 0));
        let t = Instant::now();
        while !sh.ctl.lock().unwrap().gate_reached && t.elapsed() < Duration::from_secs(10) {
            std::thread::sleep(Duration::from_micros(300));
        }
        let (dest2, tf2) = (dest.clone(), trace_file.clone());
        let traced = std::thread::spawn(move || solo_child(&dest2, seed, 0, chunks, "ok", Some(&tf2)));
        // wait until the traced child blocks in its flock thread
        let t = Instant::now();
        let me = std::process::id();
        loop {
            let mut blocked = false;
            if let Ok(s) = std::fs::read_to_string(format!("/proc/{me}/task/{me}/children")) {
                for strace_pid in s.split_whitespace().filter_map(|p| p.parse::<u32>().ok()) {
                    if let Some(kid) = first_child_of(strace_pid) {
                        blocked |= flock_threads_of(kid) > 0;
                    }
                }
            }
            // threads other than the main one may have spawned strace: look at all tasks
            if !blocked {
                if let Ok(rd) = std::fs::read_dir(format!("/proc/{me}/task")) {
                    for e in rd.flatten() {
                        if let Ok(s) = std::fs::read_to_string(e.path().join("children")) {
                            for strace_pid in s.split_whitespace().filter_map(|p| p.parse::<u32>().ok()) {
                                if let Some(kid) = first_child_of(strace_pid) {
                                    blocked |= flock_threads_of(kid) > 0;
                                }
                            }
                        }
                    }
                }
            }
            if blocked {
                break;
            }
            if t.elapsed() > Duration::from_secs(10) {
                stats.bump("trace_block_timeouts");
                break;
            }
            std::thread::sleep(Duration::from_micros(500));
        }
        sh.gate.notify_one();
        let _ = rt.block_on(h);
        outcome = traced.join().unwrap();
        rt.shutdown_timeout(Duration::from_secs(2));
    } else {
        outcome = solo_child(&dest, seed, 0, chunks, &fate, Some(&trace_file));
    }
    let text = std::fs::read_to_string(&trace_file).unwrap_or_default();
    let mut out = canonical_trace(&text, &dest);
    stats.add("trace_syscalls", out.len() as u64);
    stats.bump(&format!("trace_{scenario}"));
    out.push(format!("result {}", outcome_word(&outcome)));
    out.push(final_line(&dest, seed));
    let _ = std::fs::remove_dir_all(&dir);
    out
}

// ---------------------------------------------------------------------------------------------
// (c) the real call site: `.symindex` creation for a local Breakpad symbol directory

fn sym_file_text(funcs: usize, seed: u64, id_hex: &str, name: &str) -> String {
    let mut rng = Rng::new(seed);
    let mut s = format!("MODULE Linux x86_64 {id_hex} {name}\nINFO CODE_ID {}\nFILE 0 /src/a.c\nFILE 1 /src/b.c\n", &id_hex[..32]);
    let mut addr = 0x1000u64;
    for f in 0..funcs {
        let size = 0x10 + rng.below(0x200);
        s.push_str(&format!("FUNC {addr:x} {size:x} 0 function_number_{f}_{}\n", rng.below(1 << 30)));
        let mut off = 0;
        let mut line = 1 + rng.below(500);
        while off < size {
            let l = (1 + rng.below(0x20)).min(size - off);
            s.push_str(&format!("{:x} {l:x} {line} {}\n", addr + off, rng.below(2)));
            off += l;
            line += rng.below(3);
        }
        addr += size + rng.below(0x40);
        if rng.chance(1, 4) {
            s.push_str(&format!("PUBLIC {addr:x} 0 public_symbol_{f}\n"));
            addr += 0x10;
        }
    }
    s
}

fn run_symindex(ws: &[&str], stats: &mut Stats) -> Vec<String> {
    let managers = kv_num(ws, "managers", 2);
    let funcs = kv_num(ws, "funcs", 100);
    let seed = kv_num(ws, "seed", 1) as u64;
    let dir = work_dir();
    let name = "libverif.so";
    let id_hex = format!("{:032X}0", (seed as u128).wrapping_mul(0x9E37_79B9_7F4A_7C15_F39C_C060_5CED_C835) | 1);
    let debug_id = debugid::DebugId::from_breakpad(&id_hex).expect("debug id");
    let sym_dir = dir.join("syms");
    let idx_dir = dir.join("symindex");
    let rel = format!("{name}/{}/{name}.sym", debug_id.breakpad());
    let sym_path = sym_dir.join(&rel);
    std::fs::create_dir_all(sym_path.parent().unwrap()).unwrap();
    let text = sym_file_text(funcs, seed, &debug_id.breakpad().to_string(), name);
    std::fs::write(&sym_path, &text).unwrap();
    // the index this `.sym` must produce, built independently of the file-creation path
    let mut creator = samply_symbols::BreakpadIndexCreator::new();
    for ch in text.as_bytes().chunks(1000) {
        creator.consume(ch);
    }
    let expected: Arc<Vec<u8>> = Arc::new(creator.finish().expect("index of generated .sym"));
    let symindex_path = idx_dir.join(&rel).with_extension("symindex");
    let exp2 = expected.clone();
    let observer = Observer::start(symindex_path.clone(), move |p| match std::fs::read(p) {
        Ok(b) => {
            if b == *exp2 {
                Class::Complete(0)
            } else {
                Class::Bad
            }
        }
        Err(_) => Class::Absent,
    });
    let load = move |sym_dir: PathBuf, idx_dir: PathBuf| -> bool {
        let rt = tokio::runtime::Builder::new_current_thread().enable_all().build().unwrap();
        rt.block_on(async move {
            let config = wholesym::SymbolManagerConfig::new().breakpad_symbol_dir(sym_dir).breakpad_symindex_cache_dir(idx_dir);
            let sm = wholesym::SymbolManager::with_config(config);
            match sm.load_symbol_map(name, debug_id).await {
                Ok(map) => map.lookup(wholesym::LookupAddress::Relative(0x1004)).await.is_some(),
                Err(_) => false,
            }
        })
    };
    let barrier = Arc::new(std::sync::Barrier::new(managers));
    let threads: Vec<_> = (0..managers)
        .map(|_| {
            let (a, b, bar) = (sym_dir.clone(), idx_dir.clone(), barrier.clone());
            std::thread::spawn(move || {
                bar.wait();
                load(a, b)
            })
        })
        .collect();
    let ok = threads.into_iter().map(|t| t.join().unwrap_or(false)).filter(|b| *b).count();
    let first = std::fs::read(&symindex_path).ok();
    // a repeated load must find and keep the same index
    let again = load(sym_dir.clone(), idx_dir.clone());
    let second = std::fs::read(&symindex_path).ok();
    let (n_obs, bad, complete) = observer.finish();
    let class = match &second {
        None => "absent",
        Some(b) if *b == *expected => "complete",
        Some(_) => "bad",
    };
    stats.add("symindex_observations", n_obs);
    stats.add("symindex_observations_complete", complete);
    stats.add("symindex_bytes", expected.len() as u64);
    stats.bump(&format!("symindex_managers_{managers}"));
    let leftovers = presence(&with_suffix(&symindex_path, "part")) == "present" || presence(&with_suffix(&symindex_path, "lock")) == "present";
    if leftovers {
        stats.bump("symindex_leftover_part_or_lock");
    }
    let _ = std::fs::remove_dir_all(&dir);
    vec![
        format!("symindex results ok={ok}"),
        format!("observations bad={bad}"),
        format!("final symindex={class} stable={}", if again && first == second { "yes" } else { "no" }),
    ]
}


// ---------------------------------------------------------------------------------------------
// (d) the download call site

/// `--c16-download-child <base url> <cache dir> <name> <breakpad id> <fsize|->`: one `load_symbol_map` through
/// a Breakpad symbol server; exit code 0 = loaded and a lookup succeeded, 1 = failed
fn download_child_main(args: &[String]) -> ! {
    let (url, cache, name, id) = (args[0].clone(), PathBuf::from(&args[1]), args[2].clone(), args[3].clone());
    if let Ok(limit) = args[4].parse::<u64>() {
        unsafe {
            libc::signal(libc::SIGXFSZ, libc::SIG_IGN);
            let lim = libc::rlimit { rlim_cur: limit, rlim_max: limit };
            libc::setrlimit(libc::RLIMIT_FSIZE, &lim);
        }
    }
    let debug_id = debugid::DebugId::from_breakpad(&id).expect("debug id");
    let rt = tokio::runtime::Builder::new_current_thread().enable_all().build().unwrap();
    let ok = rt.block_on(async move {
        let config = wholesym::SymbolManagerConfig::new().breakpad_symbol_server(url, cache);
        let sm = wholesym::SymbolManager::with_config(config);
        match sm.load_symbol_map(&name, debug_id).await {
            Ok(map) => map.lookup(wholesym::LookupAddress::Relative(0x1004)).await.is_some(),
            Err(_) => false,
        }
    });
    std::process::exit(if ok { 0 } else { 1 });
}

/// one-connection-at-a-time HTTP/1.1 server: any GET of a path ending in `.sym` gets `body` (first
/// `body.len() - tail` bytes, a pause, then the rest); with `abort = Some(n)` the connection is closed after
/// `n` body bytes although Content-Length announced all of them
struct SymServer {
    port: u16,
    stop: Arc<AtomicBool>,
    abort: Arc<Mutex<Option<usize>>>,
    /// while set, the second piece of the body is held back (the connection stays open)
    hold: Arc<AtomicBool>,
    /// another body to serve instead of the one given at start ("the file on the server was replaced")
    body_override: Arc<Mutex<Option<Arc<Vec<u8>>>>>,
    handle: Option<std::thread::JoinHandle<()>>,
}

impl SymServer {
    fn start(body: Arc<Vec<u8>>, tail: usize) -> Option<SymServer> {
        use std::io::Read;
        let listener = std::net::TcpListener::bind("127.0.0.1:0").ok()?;
        let port = listener.local_addr().ok()?.port();
        listener.set_nonblocking(true).ok()?;
        let stop = Arc::new(AtomicBool::new(false));
        let abort = Arc::new(Mutex::new(None::<usize>));
        let hold = Arc::new(AtomicBool::new(false));
        let body_override = Arc::new(Mutex::new(None::<Arc<Vec<u8>>>));
        let (stop2, abort2, hold2, over2) = (stop.clone(), abort.clone(), hold.clone(), body_override.clone());
        let handle = std::thread::spawn(move || {
            while !stop2.load(Ordering::SeqCst) {
                let Ok((mut conn, _)) = listener.accept() else {
                    std::thread::sleep(Duration::from_millis(2));
                    continue;
                };
                let _ = conn.set_nonblocking(false);
                let _ = conn.set_read_timeout(Some(Duration::from_secs(5)));
                let mut req = Vec::new();
                let mut buf = [0u8; 1024];
                while !req.windows(4).any(|w| w == b"\r\n\r\n") {
                    match conn.read(&mut buf) {
                        Ok(0) | Err(_) => break,
                        Ok(n) => req.extend_from_slice(&buf[..n]),
                    }
                }
                let line = String::from_utf8_lossy(&req).lines().next().unwrap_or("").to_string();
                let path = line.split_whitespace().nth(1).unwrap_or("");
                if !line.starts_with("GET ") || !path.ends_with(".sym") {
                    let _ = conn.write_all(b"HTTP/1.1 404 Not Found\r\nContent-Length: 0\r\nConnection: close\r\n\r\n");
                    continue;
                }
                let body: Arc<Vec<u8>> = over2.lock().unwrap().clone().unwrap_or_else(|| body.clone());
                let tail = tail.min(body.len());
                let head = format!("HTTP/1.1 200 OK\r\nContent-Type: text/plain\r\nContent-Length: {}\r\nConnection: close\r\n\r\n", body.len());
                let _ = conn.write_all(head.as_bytes());
                let cut = body.len().saturating_sub(tail);
                match *abort2.lock().unwrap() {
                    Some(n) => {
                        let n = n.min(body.len());
                        let _ = conn.write_all(&body[..n.min(cut)]);
                        let _ = conn.flush();
                        if n > cut {
                            std::thread::sleep(Duration::from_millis(30));
                            let _ = conn.write_all(&body[cut..n]);
                        }
                        // close with unsent bytes outstanding
                        let _ = conn.shutdown(std::net::Shutdown::Both);
                    }
                    None => {
                        let _ = conn.write_all(&body[..cut]);
                        let _ = conn.flush();
                        std::thread::sleep(Duration::from_millis(30));
                        let t = Instant::now();
                        while hold2.load(Ordering::SeqCst) && !stop2.load(Ordering::SeqCst) && t.elapsed() < Duration::from_secs(40) {
                            std::thread::sleep(Duration::from_millis(2));
                        }
                        let _ = conn.write_all(&body[cut..]);
                        let _ = conn.flush();
                    }
                }
            }
        });
        Some(SymServer { port, stop, abort, hold, body_override, handle: Some(handle) })
    }
}

impl Drop for SymServer {
    fn drop(&mut self) {
        self.stop.store(true, Ordering::SeqCst);
        if let Some(h) = self.handle.take() {
            let _ = h.join();
        }
    }
}

fn run_download(ws: &[&str], stats: &mut Stats) -> Vec<String> {
    let funcs = kv_num(ws, "funcs", 100);
    let tail = kv_num(ws, "tail", 4096);
    let seed = kv_num(ws, "seed", 1) as u64;
    let fault = kv(ws, "fault").unwrap_or("none").to_string();
    let dir = work_dir();
    let name = "libverif.so";
    let id_hex = format!("{:032X}0", (seed as u128).wrapping_mul(0x9E37_79B9_7F4A_7C15_F39C_C060_5CED_C835) | 1);
    let debug_id = debugid::DebugId::from_breakpad(&id_hex).expect("debug id");
    let text = sym_file_text(funcs, seed, &debug_id.breakpad().to_string(), name);
    if kv_num(ws, "size", text.len()) != text.len() {
        // the op line must state the size the generator computed (the model needs it)
        let _ = std::fs::remove_dir_all(&dir);
        return vec!["bad-op".into()];
    }
    let body = Arc::new(text.into_bytes());
    let cache = dir.join("cache");
    let rel = format!("{name}/{}/{name}.sym", debug_id.breakpad());
    let dest = cache.join(&rel);
    let Some(server) = SymServer::start(body.clone(), tail.min(body.len())) else {
        let _ = std::fs::remove_dir_all(&dir);
        return vec!["download err:server".into()];
    };
    let body2 = body.clone();
    let observer = Observer::start(dest.clone(), move |p| match std::fs::read(p) {
        Ok(b) => {
            if b == *body2 {
                Class::Complete(0)
            } else {
                Class::Bad
            }
        }
        Err(_) => Class::Absent,
    });
    let exe = std::env::current_exe().unwrap();
    let url = format!("http://127.0.0.1:{}/", server.port);
    let run_child = |fsize: &str| -> &'static str {
        let mut cmd = Command::new(&exe);
        cmd.arg("--c16-download-child").arg(&url).arg(&cache).arg(name).arg(debug_id.breakpad().to_string()).arg(fsize);
        for v in ["http_proxy", "https_proxy", "HTTP_PROXY", "HTTPS_PROXY", "all_proxy", "ALL_PROXY"] {
            cmd.env_remove(v);
        }
        cmd.env("NO_PROXY", "127.0.0.1,localhost").env("no_proxy", "127.0.0.1,localhost");
        cmd.stdin(Stdio::null()).stdout(Stdio::null()).stderr(Stdio::null());
        match cmd.status() {
            Ok(st) if st.code() == Some(0) => "ok",
            Ok(st) if st.code() == Some(1) => "err",
            Ok(_) => "crashed",
            Err(_) => "err:spawn",
        }
    };
    let classify = |p: &Path| -> String {
        match std::fs::read(p) {
            Ok(b) if b == *body => "complete".to_string(),
            Ok(b) => format!("partial:{}", b.len()),
            Err(_) => "absent".to_string(),
        }
    };
    let fsize = fault.strip_prefix("fsize:").unwrap_or("-").to_string();
    if let Some(n) = fault.strip_prefix("abort:").and_then(|n| n.parse::<usize>().ok()) {
        *server.abort.lock().unwrap() = Some(n);
    }
    let first = run_child(&fsize);
    let after_first = classify(&dest);
    *server.abort.lock().unwrap() = None;
    let retry = run_child("-");
    let after_retry = classify(&dest);
    let (n_obs, bad, _complete) = observer.finish();
    drop(server);
    stats.add("download_observations", n_obs);
    stats.bump(&format!("download_fault_{}", fault.split(':').next().unwrap_or("?")));
    stats.bump(&format!("download_first_{first}_{}", after_first.split(':').next().unwrap_or("?")));
    let _ = std::fs::remove_dir_all(&dir);
    vec![
        format!("download child={first}"),
        format!("observations bad={bad}"),
        format!("final dest={after_first}"),
        format!("retry child={retry} dest={after_retry}"),
    ]
}


// ---------------------------------------------------------------------------------------------
// (e) the `.symindex` call site under a write fault

/// `--c16-symindex-child <sym dir> <symindex dir> <name> <breakpad id> <fsize|->`: one `load_symbol_map` of a
/// local `.sym`, which makes `BreakpadSymbolDownloader::ensure_symindex` write the `.symindex` through
/// `create_file_cleanly` (breakpad.rs:204-222); exit code 0 = map loaded and a lookup succeeded
fn symindex_child_main(args: &[String]) -> ! {
    let (sym_dir, idx_dir, name, id) = (PathBuf::from(&args[0]), PathBuf::from(&args[1]), args[2].clone(), args[3].clone());
    if let Ok(limit) = args[4].parse::<u64>() {
        unsafe {
            libc::signal(libc::SIGXFSZ, libc::SIG_IGN);
            let lim = libc::rlimit { rlim_cur: limit, rlim_max: limit };
            libc::setrlimit(libc::RLIMIT_FSIZE, &lim);
        }
    }
    let debug_id = debugid::DebugId::from_breakpad(&id).expect("debug id");
    let rt = tokio::runtime::Builder::new_current_thread().enable_all().build().unwrap();
    let ok = rt.block_on(async move {
        let config = wholesym::SymbolManagerConfig::new().breakpad_symbol_dir(sym_dir).breakpad_symindex_cache_dir(idx_dir);
        let sm = wholesym::SymbolManager::with_config(config);
        match sm.load_symbol_map(&name, debug_id).await {
            Ok(map) => map.lookup(wholesym::LookupAddress::Relative(0x1004)).await.is_some(),
            Err(_) => false,
        }
    });
    std::process::exit(if ok { 0 } else { 1 });
}

fn symindex_setup(funcs: usize, seed: u64) -> (String, debugid::DebugId, String, Vec<u8>) {
    let name = "libverif.so".to_string();
    let id_hex = format!("{:032X}0", (seed as u128).wrapping_mul(0x9E37_79B9_7F4A_7C15_F39C_C060_5CED_C835) | 1);
    let debug_id = debugid::DebugId::from_breakpad(&id_hex).expect("debug id");
    let text = sym_file_text(funcs, seed, &debug_id.breakpad().to_string(), &name);
    let mut creator = samply_symbols::BreakpadIndexCreator::new();
    for ch in text.as_bytes().chunks(1000) {
        creator.consume(ch);
    }
    let index = creator.finish().expect("index of generated .sym");
    (name, debug_id, text, index)
}

fn run_symindex_fault(ws: &[&str], stats: &mut Stats) -> Vec<String> {
    let funcs = kv_num(ws, "funcs", 100);
    let seed = kv_num(ws, "seed", 1) as u64;
    let fsize = kv(ws, "fsize").unwrap_or("-").to_string();
    let dir = work_dir();
    let (name, debug_id, text, expected) = symindex_setup(funcs, seed);
    if kv_num(ws, "isize", expected.len()) != expected.len() {
        let _ = std::fs::remove_dir_all(&dir);
        return vec!["bad-op".into()];
    }
    let sym_dir = dir.join("syms");
    let idx_dir = dir.join("symindex");
    let rel = format!("{name}/{}/{name}.sym", debug_id.breakpad());
    let sym_path = sym_dir.join(&rel);
    std::fs::create_dir_all(sym_path.parent().unwrap()).unwrap();
    std::fs::write(&sym_path, &text).unwrap();
    let symindex_path = idx_dir.join(&rel).with_extension("symindex");
    let expected = Arc::new(expected);
    let exp2 = expected.clone();
    let observer = Observer::start(symindex_path.clone(), move |p| match std::fs::read(p) {
        Ok(b) => {
            if b == *exp2 {
                Class::Complete(0)
            } else {
                Class::Bad
            }
        }
        Err(_) => Class::Absent,
    });
    let exe = std::env::current_exe().unwrap();
    let run_child = |fsize: &str| -> &'static str {
        let mut cmd = Command::new(&exe);
        cmd.arg("--c16-symindex-child").arg(&sym_dir).arg(&idx_dir).arg(&name).arg(debug_id.breakpad().to_string()).arg(fsize);
        cmd.stdin(Stdio::null()).stdout(Stdio::null()).stderr(Stdio::null());
        match cmd.status() {
            Ok(st) if st.code() == Some(0) => "ok",
            Ok(st) if st.code() == Some(1) => "err",
            Ok(_) => "crashed",
            Err(_) => "err:spawn",
        }
    };
    let classify = |p: &Path| -> String {
        match std::fs::read(p) {
            Ok(b) if b == *expected => "complete".to_string(),
            Ok(b) => format!("partial:{}", b.len()),
            Err(_) => "absent".to_string(),
        }
    };
    let first = run_child(&fsize);
    let after_first = classify(&symindex_path);
    let retry = run_child("-");
    let after_retry = classify(&symindex_path);
    let (n_obs, bad, _c) = observer.finish();
    stats.add("symindexfault_observations", n_obs);
    stats.bump(&format!("symindexfault_first_{}", after_first.split(':').next().unwrap_or("?")));
    let _ = std::fs::remove_dir_all(&dir);
    vec![
        format!("symindexfault lookup={first}"),
        format!("observations bad={bad}"),
        format!("final symindex={after_first}"),
        format!("retry lookup={retry} symindex={after_retry}"),
    ]
}

/// the `symindexfault` op with the limit placed relative to the size of the index (`where_` in per mille)
fn symindexfault_line(where_: u64, funcs: usize, seed: u64) -> String {
    let (_, _, _, index) = symindex_setup(funcs, seed);
    let isize = index.len() as u64;
    let fsize = match where_ {
        1000 => isize,
        999 => isize - 1,
        w => isize * w / 1000,
    };
    format!("symindexfault fsize={fsize} funcs={funcs} isize={isize} seed={seed}")
}


// ---------------------------------------------------------------------------------------------
// (f) a creator cancelled while a write of its `tokio::fs::File` is in flight

/// two versions of one module's `.sym` (same debug id) and their indexes
fn two_versions(fa: usize, fb: usize, seed: u64) -> (String, debugid::DebugId, String, Vec<u8>, String, Vec<u8>) {
    let name = "libverif.so".to_string();
    let id_hex = format!("{:032X}0", (seed as u128).wrapping_mul(0x9E37_79B9_7F4A_7C15_F39C_C060_5CED_C835) | 1);
    let debug_id = debugid::DebugId::from_breakpad(&id_hex).expect("debug id");
    let index_of = |text: &str| {
        let mut creator = samply_symbols::BreakpadIndexCreator::new();
        for ch in text.as_bytes().chunks(1000) {
            creator.consume(ch);
        }
        creator.finish().expect("index of generated .sym")
    };
    let text_a = sym_file_text(fa, seed, &debug_id.breakpad().to_string(), &name);
    let text_b = sym_file_text(fb, seed ^ 0x5555, &debug_id.breakpad().to_string(), &name);
    let (ia, ib) = (index_of(&text_a), index_of(&text_b));
    (name, debug_id, text_a, ia, text_b, ib)
}

fn cancelwrite_line(fa: usize, fb: usize, seed: u64) -> String {
    let (_, _, _, ia, _, ib) = two_versions(fa, fb, seed);
    format!("cancelwrite site=symindex a={fa} b={fb} isizea={} isizeb={} seed={seed}", ia.len(), ib.len())
}

/// `--c16-cancelwrite-child <site> <sym dir | server url> <symindex dir | cache dir> <name> <breakpad id> <part path>`:
/// creator A of the `.symindex` (site `symindex`: `load_symbol_map` -> `ensure_symindex` -> `write_symindex` ->
/// `create_file_cleanly`) or of a downloaded `.sym` (site `download`: `load_symbol_map` ->
/// `downloader.rs::download_to_file` -> `create_file_cleanly`) on a runtime whose blocking pool has ONE thread. Dialogue with the parent (lines on stdin / stdout):
///   STARTED                     A is running (it will block on `dest.lock`, which the parent holds)
///   < BLOCK, > BLOCKED          the only blocking-pool thread is now occupied: the next `tokio::fs` operation queues
///   (parent releases the lock: A locks, opens `.part`, `write_all` hands its write to the pool, `flush().await` pends)
///   > CANCELLED <how> <len>     `.part` was seen, A's future has been dropped; <len> = size of `.part` now
///   < GO, > DONE                the pool thread is released: the queued write is executed; pool drained
fn cancelwrite_child_main(args: &[String]) -> ! {
    let (site, p1, p2, name, id, part) =
        (args[0].clone(), args[1].clone(), PathBuf::from(&args[2]), args[3].clone(), args[4].clone(), PathBuf::from(&args[5]));
    let debug_id = debugid::DebugId::from_breakpad(&id).expect("debug id");
    let say = |s: &str| {
        let mut o = std::io::stdout().lock();
        let _ = writeln!(o, "{s}");
        let _ = o.flush();
    };
    let wait_line = || {
        tokio::task::block_in_place(|| {
            let mut line = String::new();
            let _ = std::io::stdin().lock().read_line(&mut line);
            line
        })
    };
    let rt = tokio::runtime::Builder::new_multi_thread().worker_threads(2).max_blocking_threads(1).enable_all().build().unwrap();
    rt.block_on(async move {
        let a = tokio::spawn(async move {
            let config = if site == "download" {
                wholesym::SymbolManagerConfig::new().breakpad_symbol_server(p1, p2)
            } else {
                wholesym::SymbolManagerConfig::new().breakpad_symbol_dir(PathBuf::from(p1)).breakpad_symindex_cache_dir(p2)
            };
            let sm = wholesym::SymbolManager::with_config(config);
            sm.load_symbol_map(&name, debug_id).await.is_ok()
        });
        say("STARTED");
        wait_line();
        let (tx, rx) = std::sync::mpsc::channel::<()>();
        let (stx, srx) = tokio::sync::oneshot::channel::<()>();
        let blocker = tokio::task::spawn_blocking(move || {
            let _ = stx.send(());
            let _ = rx.recv();
        });
        let _ = srx.await;
        say("BLOCKED");
        let t = Instant::now();
        while !part.exists() && !a.is_finished() && t.elapsed() < Duration::from_secs(30) {
            tokio::time::sleep(Duration::from_millis(1)).await;
        }
        // from open(.part) to the first poll of write_all there is no await point; leave it ample time
        tokio::time::sleep(Duration::from_millis(250)).await;
        a.abort();
        let how = match a.await {
            Err(e) if e.is_cancelled() => "cancelled",
            Err(_) => "panicked",
            Ok(_) => "finished",
        };
        let len = std::fs::metadata(&part).map(|m| m.len() as i64).unwrap_or(-1);
        say(&format!("CANCELLED {how} {len}"));
        wait_line();
        let _ = tx.send(());
        let _ = blocker.await;
        let _ = tokio::task::spawn_blocking(|| ()).await;
        say("DONE");
    });
    std::process::exit(0);
}

fn load_local(sym_dir: PathBuf, idx_dir: PathBuf, name: &str, debug_id: debugid::DebugId) -> bool {
    let rt = tokio::runtime::Builder::new_current_thread().enable_all().build().unwrap();
    rt.block_on(async move {
        let config = wholesym::SymbolManagerConfig::new().breakpad_symbol_dir(sym_dir).breakpad_symindex_cache_dir(idx_dir);
        let sm = wholesym::SymbolManager::with_config(config);
        match sm.load_symbol_map(name, debug_id).await {
            Ok(map) => map.lookup(wholesym::LookupAddress::Relative(0x1004)).await.is_some(),
            Err(_) => false,
        }
    })
}

fn load_via_server(url: String, cache: PathBuf, name: &str, debug_id: debugid::DebugId) -> bool {
    let rt = tokio::runtime::Builder::new_current_thread().enable_all().build().unwrap();
    rt.block_on(async move {
        let config = wholesym::SymbolManagerConfig::new().breakpad_symbol_server(url, cache);
        let sm = wholesym::SymbolManager::with_config(config);
        match sm.load_symbol_map(name, debug_id).await {
            Ok(map) => map.lookup(wholesym::LookupAddress::Relative(0x1004)).await.is_some(),
            Err(_) => false,
        }
    })
}

fn cancelwrite_download_line(fa: usize, fb: usize, seed: u64) -> String {
    let (_, _, ta, _, tb, _) = two_versions(fa, fb, seed);
    format!("cancelwrite site=download a={fa} b={fb} isizea={} isizeb={} seed={seed}", ta.len(), tb.len())
}

/// the `cancelwrite` scenario on the downloader call site: A's download is cancelled in `stream.read().await`
/// (the server holds the rest of the body back) with its first `write_all` queued; B downloads another version
fn run_cancelwrite_download(ws: &[&str], stats: &mut Stats) -> Vec<String> {
    use std::os::fd::AsRawFd;
    let fa = kv_num(ws, "a", 300);
    let fb = kv_num(ws, "b", 600);
    let seed = kv_num(ws, "seed", 1) as u64;
    let dir = work_dir();
    let (name, debug_id, text_a, _, text_b, _) = two_versions(fa, fb, seed);
    if kv_num(ws, "isizea", text_a.len()) != text_a.len() || kv_num(ws, "isizeb", text_b.len()) != text_b.len() || text_a == text_b {
        let _ = std::fs::remove_dir_all(&dir);
        return vec!["bad-op".into()];
    }
    let (body_a, body_b) = (Arc::new(text_a.into_bytes()), Arc::new(text_b.into_bytes()));
    let cache = dir.join("cache");
    let rel = format!("{name}/{}/{name}.sym", debug_id.breakpad());
    let dest = cache.join(&rel);
    std::fs::create_dir_all(dest.parent().unwrap()).unwrap();
    let part_path = with_suffix(&dest, "part");
    let Some(server) = SymServer::start(body_a.clone(), body_a.len() / 2) else {
        let _ = std::fs::remove_dir_all(&dir);
        return vec!["cancelwrite err:server".into()];
    };
    server.hold.store(true, Ordering::SeqCst);
    let url = format!("http://127.0.0.1:{}/", server.port);
    let lock_file = std::fs::OpenOptions::new().write(true).create(true).truncate(false).open(with_suffix(&dest, "lock")).unwrap();
    unsafe {
        libc::flock(lock_file.as_raw_fd(), libc::LOCK_EX);
    }
    let exp = body_b.clone();
    let observer = Observer::start(dest.clone(), move |p| match std::fs::read(p) {
        Ok(b) => {
            if b == *exp {
                Class::Complete(0)
            } else {
                Class::Bad
            }
        }
        Err(_) => Class::Absent,
    });
    let classify = |p: &Path| -> &'static str {
        match std::fs::read(p) {
            Ok(b) if b == *body_b => "complete",
            Ok(_) => "bad",
            Err(_) => "absent",
        }
    };
    let exe = std::env::current_exe().unwrap();
    let mut cmd = Command::new(&exe);
    cmd.arg("--c16-cancelwrite-child").arg("download").arg(&url).arg(&cache).arg(&name).arg(debug_id.breakpad().to_string()).arg(&part_path);
    for v in ["http_proxy", "https_proxy", "HTTP_PROXY", "HTTPS_PROXY", "all_proxy", "ALL_PROXY"] {
        cmd.env_remove(v);
    }
    cmd.env("NO_PROXY", "127.0.0.1,localhost").env("no_proxy", "127.0.0.1,localhost");
    cmd.stdin(Stdio::piped()).stdout(Stdio::piped()).stderr(Stdio::null());
    std::os::unix::process::CommandExt::process_group(&mut cmd, 0);
    let mut child = cmd.spawn().expect("spawn cancelwrite child");
    CHILD_GROUPS.lock().unwrap().push(child.id());
    let mut to_child = child.stdin.take().unwrap();
    let mut from_child = BufReader::new(child.stdout.take().unwrap());
    let mut expect = |word: &str| -> Option<String> {
        let mut line = String::new();
        loop {
            line.clear();
            match from_child.read_line(&mut line) {
                Ok(0) | Err(_) => return None,
                Ok(_) if line.starts_with(word) => return Some(line.trim().to_string()),
                Ok(_) => {}
            }
        }
    };
    let mut how = "lost".to_string();
    let mut part_len = "-1".to_string();
    let (mut b_ok, mut after_b) = (false, "absent");
    if expect("STARTED").is_some() {
        let t = Instant::now();
        while flock_threads_of(child.id()) == 0 && t.elapsed() < Duration::from_secs(30) {
            std::thread::sleep(Duration::from_micros(500));
        }
        let _ = writeln!(to_child, "BLOCK");
        if expect("BLOCKED").is_some() {
            drop(lock_file);
            if let Some(l) = expect("CANCELLED") {
                let w: Vec<&str> = l.split_whitespace().collect();
                how = w.get(1).unwrap_or(&"?").to_string();
                part_len = w.get(2).unwrap_or(&"?").to_string();
                // the file on the server is replaced; creator B downloads it in this process
                *server.body_override.lock().unwrap() = Some(body_b.clone());
                server.hold.store(false, Ordering::SeqCst);
                b_ok = load_via_server(url.clone(), cache.clone(), &name, debug_id);
                after_b = classify(&dest);
                let _ = writeln!(to_child, "GO");
                let _ = expect("DONE");
            }
        }
    }
    server.hold.store(false, Ordering::SeqCst);
    let _ = child.kill();
    let _ = child.wait();
    let fin = classify(&dest);
    let (n_obs, bad, _c) = observer.finish();
    drop(server);
    stats.add("cancelwrite_observations", n_obs);
    stats.bump(&format!("cancelwrite_download_final_{fin}"));
    let _ = std::fs::remove_dir_all(&dir);
    vec![
        format!("cancelwrite a={how} part_at_cancel={part_len}"),
        format!("after_b lookup={} symindex={after_b}", if b_ok { "ok" } else { "err" }),
        format!("observations bad={}", bad.min(1)),
        format!("final symindex={fin}"),
    ]
}

fn run_cancelwrite(ws: &[&str], stats: &mut Stats) -> Vec<String> {
    use std::os::fd::AsRawFd;
    if kv(ws, "site") == Some("download") {
        return run_cancelwrite_download(ws, stats);
    }
    let fa = kv_num(ws, "a", 20);
    let fb = kv_num(ws, "b", 200);
    let seed = kv_num(ws, "seed", 1) as u64;
    let dir = work_dir();
    let (name, debug_id, text_a, index_a, text_b, index_b) = two_versions(fa, fb, seed);
    if kv_num(ws, "isizea", index_a.len()) != index_a.len() || kv_num(ws, "isizeb", index_b.len()) != index_b.len() || index_a == index_b {
        let _ = std::fs::remove_dir_all(&dir);
        return vec!["bad-op".into()];
    }
    let sym_dir = dir.join("syms");
    let idx_dir = dir.join("symindex");
    let rel = format!("{name}/{}/{name}.sym", debug_id.breakpad());
    let sym_path = sym_dir.join(&rel);
    std::fs::create_dir_all(sym_path.parent().unwrap()).unwrap();
    std::fs::write(&sym_path, &text_a).unwrap();
    let symindex_path = idx_dir.join(&rel).with_extension("symindex");
    std::fs::create_dir_all(symindex_path.parent().unwrap()).unwrap();
    let part_path = with_suffix(&symindex_path, "part");
    // the harness plays an earlier creator that holds the lock (and then gives up without creating the file)
    let lock_file = std::fs::OpenOptions::new().write(true).create(true).truncate(false).open(with_suffix(&symindex_path, "lock")).unwrap();
    unsafe {
        libc::flock(lock_file.as_raw_fd(), libc::LOCK_EX);
    }
    let index_b = Arc::new(index_b);
    let exp = index_b.clone();
    let observer = Observer::start(symindex_path.clone(), move |p| match std::fs::read(p) {
        Ok(b) => {
            if b == *exp {
                Class::Complete(0)
            } else {
                Class::Bad
            }
        }
        Err(_) => Class::Absent,
    });
    let classify = |p: &Path| -> &'static str {
        match std::fs::read(p) {
            Ok(b) if b == *index_b => "complete",
            Ok(_) => "bad",
            Err(_) => "absent",
        }
    };
    let exe = std::env::current_exe().unwrap();
    let mut cmd = Command::new(&exe);
    cmd.arg("--c16-cancelwrite-child").arg("symindex").arg(&sym_dir).arg(&idx_dir).arg(&name).arg(debug_id.breakpad().to_string()).arg(&part_path);
    cmd.stdin(Stdio::piped()).stdout(Stdio::piped()).stderr(Stdio::null());
    std::os::unix::process::CommandExt::process_group(&mut cmd, 0);
    let mut child = cmd.spawn().expect("spawn cancelwrite child");
    CHILD_GROUPS.lock().unwrap().push(child.id());
    let mut to_child = child.stdin.take().unwrap();
    let mut from_child = BufReader::new(child.stdout.take().unwrap());
    let mut expect = |word: &str| -> Option<String> {
        let mut line = String::new();
        loop {
            line.clear();
            match from_child.read_line(&mut line) {
                Ok(0) | Err(_) => return None,
                Ok(_) if line.starts_with(word) => return Some(line.trim().to_string()),
                Ok(_) => {}
            }
        }
    };
    let mut how = "lost".to_string();
    let mut part_len = "-1".to_string();
    let (mut b_ok, mut after_b) = (false, "absent");
    if expect("STARTED").is_some() {
        let t = Instant::now();
        while flock_threads_of(child.id()) == 0 && t.elapsed() < Duration::from_secs(30) {
            std::thread::sleep(Duration::from_micros(500));
        }
        let _ = writeln!(to_child, "BLOCK");
        if expect("BLOCKED").is_some() {
            drop(lock_file);
            if let Some(l) = expect("CANCELLED") {
                let w: Vec<&str> = l.split_whitespace().collect();
                how = w.get(1).unwrap_or(&"?").to_string();
                part_len = w.get(2).unwrap_or(&"?").to_string();
                // creator B: another version of the module's .sym, loaded by a fresh SymbolManager in this process
                std::fs::write(&sym_path, &text_b).unwrap();
                b_ok = load_local(sym_dir.clone(), idx_dir.clone(), &name, debug_id);
                after_b = classify(&symindex_path);
                let _ = writeln!(to_child, "GO");
                let _ = expect("DONE");
            }
        }
    }
    let _ = child.kill();
    let _ = child.wait();
    let fin = classify(&symindex_path);
    let (n_obs, bad, _c) = observer.finish();
    stats.add("cancelwrite_observations", n_obs);
    stats.bump(&format!("cancelwrite_final_{fin}"));
    stats.bump(if index_a.len() < index_b.len() { "cancelwrite_a_shorter" } else { "cancelwrite_a_longer" });
    let _ = std::fs::remove_dir_all(&dir);
    vec![
        format!("cancelwrite a={how} part_at_cancel={part_len}"),
        format!("after_b lookup={} symindex={after_b}", if b_ok { "ok" } else { "err" }),
        format!("observations bad={}", bad.min(1)),
        format!("final symindex={fin}"),
    ]
}

// ---------------------------------------------------------------------------------------------
// (g) waiters must not occupy the runtime's blocking pool (file_creation.rs:208-212)

/// threads of `pid` that are inside flock(2) right now (x86_64: system call 73)
fn threads_in_flock(pid: u32) -> usize {
    let mut n = 0;
    if let Ok(rd) = std::fs::read_dir(format!("/proc/{pid}/task")) {
        for e in rd.flatten() {
            if let Ok(sc) = std::fs::read_to_string(e.path().join("syscall")) {
                if sc.split_whitespace().next() == Some("73") {
                    n += 1;
                }
            }
        }
    }
    n
}

/// `--c16-poolwait-child <dest> <seed> <K> <W>`: one runtime whose blocking pool has K threads. Creator 0 enters its
/// write callback (which writes through a `tokio::fs::File`, like the real callbacks) and waits for `GO`; W more
/// creators of the same destination then wait for the lock. If waiting for the lock used the blocking pool, the
/// holder's write could never run.
fn poolwait_child_main(args: &[String]) -> ! {
    let dest = PathBuf::from(&args[0]);
    let seed: u64 = args[1].parse().unwrap();
    let k: usize = args[2].parse().unwrap();
    let w: usize = args[3].parse().unwrap();
    let say = |s: &str| {
        let mut o = std::io::stdout().lock();
        let _ = writeln!(o, "{s}");
        let _ = o.flush();
    };
    let rt = tokio::runtime::Builder::new_multi_thread().worker_threads(2).max_blocking_threads(k).enable_all().build().unwrap();
    rt.block_on(async move {
        let (htx, hrx) = tokio::sync::oneshot::channel::<()>();
        let (gtx, grx) = tokio::sync::oneshot::channel::<()>();
        let d0 = dest.clone();
        let holder = tokio::spawn(async move {
            create_file_cleanly(
                &d0,
                |file: std::fs::File| async move {
                    use tokio::io::AsyncWriteExt;
                    let _ = htx.send(());
                    let _ = grx.await;
                    let mut f = tokio::fs::File::from_std(file);
                    for ch in payload_chunks(seed, 0, 2) {
                        f.write_all(&ch).await.map_err(|e| CbErr(e.to_string()))?;
                    }
                    f.flush().await.map_err(|e| CbErr(e.to_string()))?;
                    Ok::<Made, CbErr>(Made::Created)
                },
                || async { Ok::<Made, CbErr>(Made::Existing) },
            )
            .await
        });
        let _ = hrx.await;
        let waiters: Vec<_> = (0..w)
            .map(|_| {
                let d = dest.clone();
                tokio::spawn(async move {
                    create_file_cleanly(
                        &d,
                        |mut file: std::fs::File| async move {
                            for ch in payload_chunks(seed, 1, 1) {
                                file.write_all(&ch).map_err(|e| CbErr(e.to_string()))?;
                            }
                            Ok::<Made, CbErr>(Made::Created)
                        },
                        || async { Ok::<Made, CbErr>(Made::Existing) },
                    )
                    .await
                })
            })
            .collect();
        say("WAITING");
        tokio::task::block_in_place(|| {
            let mut line = String::new();
            let _ = std::io::stdin().lock().read_line(&mut line);
        });
        let _ = gtx.send(());
        let (mut created, mut existing, mut err) = (0, 0, 0);
        for h in std::iter::once(holder).chain(waiters) {
            match h.await {
                Ok(Ok(Made::Created)) => created += 1,
                Ok(Ok(Made::Existing)) => existing += 1,
                _ => err += 1,
            }
        }
        say(&format!("RESULT {created} {existing} {err}"));
    });
    std::process::exit(0);
}

fn run_poolwait(ws: &[&str], stats: &mut Stats) -> Vec<String> {
    let k = kv_num(ws, "k", 2).max(1);
    let w = kv_num(ws, "waiters", 3);
    let seed = kv_num(ws, "seed", 1) as u64;
    let dir = work_dir();
    let dest = dir.join("cache.bin");
    let exe = std::env::current_exe().unwrap();
    let mut cmd = Command::new(&exe);
    cmd.arg("--c16-poolwait-child").arg(&dest).arg(seed.to_string()).arg(k.to_string()).arg(w.to_string());
    cmd.stdin(Stdio::piped()).stdout(Stdio::piped()).stderr(Stdio::null());
    std::os::unix::process::CommandExt::process_group(&mut cmd, 0);
    let mut child = cmd.spawn().expect("spawn poolwait child");
    CHILD_GROUPS.lock().unwrap().push(child.id());
    let mut to_child = child.stdin.take().unwrap();
    let stdout = child.stdout.take().unwrap();
    let (tx, rx) = std::sync::mpsc::channel::<String>();
    std::thread::spawn(move || {
        for l in BufReader::new(stdout).lines().map_while(Result::ok) {
            let _ = tx.send(l);
        }
    });
    let mut result: Option<(usize, usize, usize)> = None;
    if let Ok(l) = rx.recv_timeout(Duration::from_secs(20)) {
        if l.starts_with("WAITING") {
            // all waiters that can wait do so: W threads in flock (the real code), or as many as the pool has
            let t = Instant::now();
            while threads_in_flock(child.id()) < w.min(k) && t.elapsed() < Duration::from_secs(5) {
                std::thread::sleep(Duration::from_millis(1));
            }
            std::thread::sleep(Duration::from_millis(30));
            stats.add("poolwait_threads_in_flock", threads_in_flock(child.id()) as u64);
            let _ = writeln!(to_child, "GO");
            if let Ok(l) = rx.recv_timeout(Duration::from_secs(8)) {
                let v: Vec<usize> = l.split_whitespace().skip(1).filter_map(|x| x.parse().ok()).collect();
                if l.starts_with("RESULT") && v.len() == 3 {
                    result = Some((v[0], v[1], v[2]));
                }
            }
        }
    }
    unsafe {
        libc::kill(-(child.id() as i32), libc::SIGKILL);
    }
    let _ = child.wait();
    let fin = final_line(&dest, seed);
    stats.bump(&format!("poolwait_k_{k}"));
    let _ = std::fs::remove_dir_all(&dir);
    match result {
        Some((c, e, r)) => vec![format!("poolwait created={c} existing={e} err={r} stuck=0"), fin],
        None => vec![format!("poolwait created=0 existing=0 err=0 stuck={}", w + 1), fin],
    }
}

// ---------------------------------------------------------------------------------------------

pub struct C16;

const KILL_POINTS: [&str; 9] = ["flock", "stat", "openpart", "write1", "write2", "closepart", "rename", "closelock", "unlinklock"];

/// the `download` op for a kind of fault, with the byte positions worked out from the generated `.sym` text
fn download_line(what: &str, funcs: usize, tail: usize, seed: u64) -> String {
    let id_hex = format!("{:032X}0", (seed as u128).wrapping_mul(0x9E37_79B9_7F4A_7C15_F39C_C060_5CED_C835) | 1);
    let debug_id = debugid::DebugId::from_breakpad(&id_hex).expect("debug id");
    let size = sym_file_text(funcs, seed, &debug_id.breakpad().to_string(), "libverif.so").len();
    let tail = tail.min(size / 2).max(1);
    let cut = size - tail;
    let fault = match what {
        "fsize-first" => format!("fsize:{}", cut / 2),
        "fsize-last" => format!("fsize:{}", cut + tail / 2),
        "fsize-lastbyte" => format!("fsize:{}", size - 1),
        "fsize-exact" => format!("fsize:{size}"),
        "abort-first" => format!("abort:{}", cut / 3),
        "abort-last" => format!("abort:{}", cut + tail / 2),
        _ => "none".to_string(),
    };
    format!("download fault={fault} funcs={funcs} tail={tail} size={size} seed={seed}")
}

#[allow(clippy::too_many_arguments)]
fn round_line_sig(mode: &str, n: usize, late: usize, cw: usize, sig: usize, fates: &[Fate], sizes: &[usize], seed: u64) -> String {
    format!("{} sig={sig}", round_line(mode, n, late, cw, fates, sizes, "-", 2, "-", seed))
}

#[allow(clippy::too_many_arguments)]
fn round_line(mode: &str, n: usize, late: usize, cw: usize, fates: &[Fate], sizes: &[usize], pre: &str, presize: usize, lead: &str, seed: u64) -> String {
    let f = if fates.is_empty() { "-".to_string() } else { fates.iter().map(|f| f.show()).collect::<Vec<_>>().join(",") };
    let s = sizes.iter().map(|s| s.to_string()).collect::<Vec<_>>().join(",");
    format!("round mode={mode} n={n} late={late} cw={cw} fates={f} sizes={s} pre={pre} presize={presize} lead={lead} seed={seed}")
}

impl Prop for C16 {
    fn id(&self) -> &'static str {
        "C16"
    }
    fn parallel(&self) -> bool {
        false
    }
    fn case_count(&self, tier: Tier) -> u64 {
        match tier {
            Tier::Quick => 400,
            Tier::Thorough => 12000,
        }
    }
    fn fixed_cases(&self, tier: Tier) -> Vec<Case> {
        let mut v = Vec::new();
        let mut push = |name: String, op: String| v.push(Case { name, ops: vec![op] });
        // (a) the solo programs
        for (i, sc) in ["success", "writer_error", "existing", "blocked_existing", "blocked_absent", "rename_error", "part_open_error", "lock_open_error"].iter().enumerate() {
            push(format!("trace-{sc}"), format!("trace {sc} chunks={} failat=1", 2 + i % 2));
        }
        push("trace-cancelled-1".into(), "trace cancelled chunks=3 failat=1".into());
        push("trace-cancelled-0".into(), "trace cancelled chunks=2 failat=0".into());
        push("trace-cancelled-end".into(), "trace cancelled chunks=2 failat=2".into());
        push("trace-writer_error-0".into(), "trace writer_error chunks=3 failat=0".into());
        push("trace-writer_error-end".into(), "trace writer_error chunks=2 failat=2".into());
        // (b) boundary rounds
        let mut seed = 100;
        let mut next_seed = || {
            seed += 1;
            seed
        };
        // creators killed on entry to each system call of the protocol (processes only)
        let points: &[&str] = if tier == Tier::Quick { &["flock", "openpart", "write2", "rename", "closelock", "unlinklock"] } else { &KILL_POINTS };
        for (i, p) in points.iter().enumerate() {
            let d = 1 + i % 2;
            push(format!("procs-pre-{p}"), round_line("procs", 2 + i % 2, 0, 0, &[], &[2, 1], &format!("{p}x{d}"), 3, "-", next_seed()));
        }
        // one creator delayed at a system call while the others run (widens every window of the protocol)
        let leads: &[&str] = if tier == Tier::Quick { &["rename", "closelock"] } else { &["openpart", "closepart", "rename", "closelock", "unlinklock"] };
        for p in leads {
            push(format!("procs-lead-{p}"), round_line("procs", 3, 0, 0, &[], &[2, 3], "-", 2, &format!("{p}:120000"), next_seed()));
        }
        for mode in ["threads", "procs"] {
            let halt = if mode == "threads" { Fate::Cancel(1) } else { Fate::Kill(1) };
            // everybody succeeds
            for n in [2usize, 3, 8] {
                push(format!("{mode}-allok-{n}"), round_line(mode, n, 0, 0, &[], &[3, 2], "-", 2, "-", next_seed()));
            }
            // failures then success; a long killed/cancelled writer followed by a shorter successful one
            push(format!("{mode}-fail-ok"), round_line(mode, 3, 0, 0, &[Fate::Fail(1)], &[3, 2], "-", 2, "-", next_seed()));
            let halt5 = if mode == "threads" { Fate::Cancel(5) } else { Fate::Kill(5) };
            push(format!("{mode}-halt-ok"), round_line(mode, 3, 0, 0, &[halt5], &[6, 1], "-", 2, "-", next_seed()));
            push(format!("{mode}-halt-halt-fail-ok"), round_line(mode, 5, 0, 0, &[halt, halt, Fate::Fail(0)], &[5, 4, 3, 1], "-", 2, "-", next_seed()));
            // everybody fails / is killed: the retry must create the file
            push(format!("{mode}-allfail"), round_line(mode, 3, 0, 0, &[Fate::Fail(1), Fate::Fail(0), Fate::Fail(9)], &[2], "-", 2, "-", next_seed()));
            push(format!("{mode}-allhalt"), round_line(mode, 2, 0, 0, &[halt, halt], &[4, 1], "-", 2, "-", next_seed()));
            // late creators arrive while the first successful writer is parked mid-write (after a failure)
            push(format!("{mode}-fail-gate-late"), round_line(mode, 4, 2, 0, &[Fate::Fail(1)], &[3, 4, 2], "-", 2, "-", next_seed()));
            push(format!("{mode}-gate-late"), round_line(mode, 5, 3, 0, &[], &[2, 3], "-", 2, "-", next_seed()));
            push(format!("{mode}-halt-gate-late"), round_line(mode, 4, 1, 0, &[halt], &[5, 2, 2], "-", 2, "-", next_seed()));
        }
        // waiters cancelled while blocked in flock (threads only)
        push("threads-cancel-waiters".into(), round_line("threads", 3, 1, 2, &[], &[3], "-", 2, "-", next_seed()));
        push("threads-fail-cancel-waiters".into(), round_line("threads", 3, 0, 1, &[Fate::Fail(2)], &[3, 2], "-", 2, "-", next_seed()));
        // futures dropped inside the existing-file handler (the third await point of create_file_cleanly)
        push("threads-cancel-in-existing".into(), format!("{} ce=2", round_line("threads", 3, 1, 0, &[], &[2, 3], "-", 2, "-", next_seed())));
        push("threads-allfail-cancel-in-existing".into(), format!("{} ce=2", round_line("threads", 2, 0, 0, &[Fate::Fail(1), Fate::Cancel(0)], &[2], "-", 2, "-", next_seed())));
        // the rename of the first writer fails after a good write: a second writer must then succeed (two Ok callbacks)
        push("procs-rename-fails".into(), round_line("procs", 3, 0, 0, &[Fate::RFail], &[2, 3], "-", 2, "renamefail:0", next_seed()));
        push("procs-rename-fails-late".into(), round_line("procs", 4, 1, 0, &[Fate::RFail, Fate::Fail(1)], &[3, 2, 2], "-", 2, "renamefail:0", next_seed()));
        // waiters SIGKILLed while blocked in flock; signals (EINTR) to blocked flock threads (processes only)
        push("procs-kill-waiters".into(), round_line("procs", 3, 1, 2, &[], &[3, 2], "-", 2, "-", next_seed()));
        push("procs-fail-kill-waiters".into(), round_line("procs", 3, 0, 1, &[Fate::Fail(1)], &[2, 3], "-", 2, "-", next_seed()));
        push("procs-eintr".into(), round_line_sig("procs", 4, 2, 0, 3, &[], &[2, 3], next_seed()));
        push("procs-eintr-exhausted".into(), format!("{} sigx=1", round_line_sig("procs", 4, 2, 0, 1, &[], &[2, 3], next_seed())));
        push("procs-eintr-exhausted-2".into(), format!("{} sigx=2", round_line_sig("procs", 5, 2, 1, 0, &[Fate::Fail(1)], &[3, 2], next_seed())));
        push("procs-eintr-kill-waiters".into(), round_line_sig("procs", 4, 1, 1, 2, &[Fate::Kill(1)], &[3, 2, 2], next_seed()));
        // a writer whose complete payload is empty (an empty file at the final path is then a complete file)
        for mode in ["threads", "procs"] {
            push(format!("{mode}-empty-payload"), round_line(mode, 3, 0, 0, &[], &[0], "-", 2, "-", next_seed()));
            push(format!("{mode}-fail-empty-payload"), round_line(mode, 4, 0, 0, &[Fate::Fail(0)], &[2, 0], "-", 2, "-", next_seed()));
        }
        // (g) as many waiters as the runtime's blocking pool has threads, and more, while the holder's callback needs the pool
        push("poolwait-2-3".into(), format!("poolwait k=2 waiters=3 seed={}", next_seed()));
        push("poolwait-1-1".into(), format!("poolwait k=1 waiters=1 seed={}", next_seed()));
        // (f) a creator cancelled while a write of its tokio::fs::File is in flight (shorter / longer than the next one)
        push("cancelwrite-shorter".into(), cancelwrite_line(20, 200, next_seed()));
        push("cancelwrite-download".into(), cancelwrite_download_line(300, 700, next_seed()));
        if tier == Tier::Thorough {
            push("cancelwrite-longer".into(), cancelwrite_line(300, 30, next_seed()));
        }
        // (c) the call site
        for (m, f) in [(2usize, 50usize), (6, 400)] {
            push(format!("symindex-{m}"), format!("symindex managers={m} funcs={f} seed={}", next_seed()));
        }
        // (d) the download call site: fault-free, write error in the first piece, inside the LAST piece (one
        // byte short of the whole file included), exactly at the end (no error), connection lost early / late
        // (e) the `.symindex` writer under a write fault: limit at 0, in the middle, one byte short, exactly the size
        for (k, w) in [0u64, 500, 999, 1000].iter().enumerate() {
            push(format!("symindexfault-{w}"), symindexfault_line(*w, 40 + 100 * k, next_seed()));
        }
        for (k, what) in ["none", "fsize-first", "fsize-last", "fsize-lastbyte", "fsize-exact", "abort-first", "abort-last"].iter().enumerate() {
            push(format!("download-{what}"), download_line(what, 300 + 40 * k, 2048, next_seed()));
        }
        v
    }
    fn generate(&self, rng: &mut Rng, tier: Tier, index: u64) -> Vec<String> {
        let seed = 10_000 + index * 7 + rng.below(5);
        if rng.chance(1, 25) {
            let m = rng.range(2, 8);
            return vec![format!("symindex managers={m} funcs={} seed={seed}", rng.range(1, 600))];
        }
        if rng.chance(1, 40) {
            return vec![symindexfault_line(*rng.pick(&[0u64, 100, 500, 900, 999, 1000]), rng.range(5, 500) as usize, seed)];
        }
        if tier == Tier::Thorough && rng.chance(1, 500) {
            let (a, b) = if rng.chance(1, 2) { (rng.range(5, 60), rng.range(100, 400)) } else { (rng.range(100, 400), rng.range(5, 60)) };
            return vec![if rng.chance(1, 2) { cancelwrite_line(a as usize, b as usize, seed) } else { cancelwrite_download_line(a as usize + 100, b as usize + 100, seed) }];
        }
        if rng.chance(1, 150) {
            let k = rng.range(1, 4);
            return vec![format!("poolwait k={k} waiters={} seed={seed}", k + rng.below(3))];
        }
        if rng.chance(1, 30) {
            let what = *rng.pick(&["none", "fsize-first", "fsize-last", "fsize-last", "fsize-lastbyte", "fsize-exact", "abort-first", "abort-last"]);
            return vec![download_line(what, rng.range(20, 900) as usize, rng.range(1, 5000) as usize, seed)];
        }
        let procs = rng.chance(2, 5);
        let mode = if procs { "procs" } else { "threads" };
        let n = rng.range(2, 8) as usize;
        let nf = match rng.below(6) {
            0 | 1 => 0,
            2 | 3 => 1,
            4 => 2,
            _ => rng.range(0, n as u64 + 1) as usize,
        };
        let fates: Vec<Fate> = (0..nf)
            .map(|_| {
                let k = rng.below(5) as usize;
                match rng.below(3) {
                    0 => Fate::Fail(k),
                    _ if procs => Fate::Kill(k),
                    _ => Fate::Cancel(k),
                }
            })
            .collect();
        let sizes: Vec<usize> = (0..rng.range(1, 4)).map(|_| rng.range(1, 6) as usize).collect();
        // late creators / cancelled waiters need an early creator that succeeds
        let room = n.saturating_sub(nf + 1);
        let late = if room > 0 && rng.chance(1, 2) { rng.range(1, room as u64) as usize } else { 0 };
        let cw = if n > nf + late && rng.chance(1, 4) { rng.range(1, 3) as usize } else { 0 };
        let sig = if procs && late + cw > 0 && rng.chance(1, 3) { rng.range(1, 3) as usize } else { 0 };
        // an empty payload now and then (not with a gate: the gate writer parks after its first chunk)
        let sizes = if late + cw == 0 && rng.chance(1, 12) { let mut s = sizes; let i = rng.below(s.len() as u64) as usize; s[i] = 0; s } else { sizes };
        let mut pre = "-".to_string();
        let mut lead = "-".to_string();
        if procs && rng.chance(1, 5) {
            let p = *rng.pick(&KILL_POINTS);
            let after_rename = p == "closelock" || p == "unlinklock";
            // a first wave that leaves the destination complete must not be combined with a gate
            if !(after_rename && late + cw > 0) {
                pre = format!("{p}x{}", rng.range(1, 3));
            }
        } else if procs && tier == Tier::Thorough && rng.chance(1, 10) && fates.first().map(|f| *f == Fate::Ok).unwrap_or(true) {
            lead = format!("{}:{}", rng.pick(&["openpart", "closepart", "rename", "closelock", "unlinklock"]), 20_000 * rng.range(1, 5));
        }
        let mut fates = fates;
        if procs && pre == "-" && lead == "-" && n > nf + 1 + late && rng.chance(1, 12) {
            fates.insert(0, Fate::RFail);
            lead = "renamefail:0".to_string();
        }
        let presize = rng.range(2, 4) as usize;
        let sigx = if procs && late > 0 && pre == "-" && lead == "-" && rng.chance(1, 5) { 1 } else { 0 };
        if sig + sigx > 0 && pre == "-" && lead == "-" {
            let l = round_line_sig(mode, n, late, cw, sig, &fates, &sizes, seed);
            return vec![if sigx > 0 { format!("{l} sigx={sigx}") } else { l }];
        }
        let l = round_line(mode, n, late, cw, &fates, &sizes, &pre, presize, &lead, seed);
        if !procs && rng.chance(1, 6) {
            return vec![format!("{l} ce={}", rng.range(1, 2))];
        }
        vec![l]
    }
    fn execute(&self, ops: &[String], stats: &mut Stats) -> Vec<String> {
        let Some(l) = ops.first() else { return vec!["bad-op".into()] };
        let ws: Vec<&str> = l.split_whitespace().collect();
        let _watchdog = Watchdog::start(Duration::from_secs(60));
        let kills = WATCHDOG_KILLS.load(Ordering::SeqCst);
        let r = self.execute_case(&ws, stats);
        if WATCHDOG_KILLS.load(Ordering::SeqCst) != kills {
            stats.bump("watchdog_kills");
        }
        r
    }
    fn nontrivial(&self, ops: &[String], out: &[String]) -> bool {
        // a trace with at least the lock/stat prefix, a round with at least two accounted creators, or a symindex run
        ops.len() == 1 && out.len() >= 3 && !out.iter().any(|l| l == "panic" || l == "bad-op")
    }
    fn teardown(&self) {
        if let Ok(root) = std::env::var("VERIF_ROOT") {
            let _ = std::fs::remove_dir_all(PathBuf::from(root).join(".work").join("C16").join("tmp"));
        }
    }
}

impl C16 {
    fn execute_case(&self, ws: &[&str], stats: &mut Stats) -> Vec<String> {
        let ws = ws.to_vec();
        match ws.first().copied() {
            Some("trace") => run_trace(&ws, stats),
            Some("round") => run_round(&ws, stats),
            Some("symindex") => run_symindex(&ws, stats),
            Some("download") => run_download(&ws, stats),
            Some("symindexfault") => run_symindex_fault(&ws, stats),
            Some("cancelwrite") => run_cancelwrite(&ws, stats),
            Some("poolwait") => run_poolwait(&ws, stats),
            _ => vec!["bad-op".into()],
        }
    }
}

fn main() {
    let args: Vec<String> = std::env::args().collect();
    if args.get(1).map(|s| s.as_str()) == Some("--c16-child") {
        child_main(&args[2..]);
    }
    if args.get(1).map(|s| s.as_str()) == Some("--c16-download-child") {
        download_child_main(&args[2..]);
    }
    if args.get(1).map(|s| s.as_str()) == Some("--c16-poolwait-child") {
        poolwait_child_main(&args[2..]);
    }
    if args.get(1).map(|s| s.as_str()) == Some("--c16-cancelwrite-child") {
        cancelwrite_child_main(&args[2..]);
    }
    if args.get(1).map(|s| s.as_str()) == Some("--c16-symindex-child") {
        symindex_child_main(&args[2..]);
    }
    verif_harness::runner::run_main(&C16);
}
