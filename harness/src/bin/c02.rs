//! C02 — frames are attributed to the library mapped at that address at sample time. perf.data
//! pipeline with MMAP2 records (added, overlapped, replaced, inherited across fork, equal-timestamp
//! mmap/sample pairs) and call chains mixing context markers, leaf / return addresses, mapped / unmapped /
//! boundary addresses. Observable: per sample the root-first list of (library path, relative address) or raw
//! address.
use verif_harness::common::*;
use verif_harness::gen::elf::*;
use verif_harness::gen::perfdata::*;

pub struct C02;

/// ELF files placed on disk for segment-based attribution: (file name, image base, LOAD segments
/// `(vaddr, file offset, file size, executable)`): easy case A (svma = file offset), easy case B (non-zero
/// base) and the hard case of svma_file_range.rs (an SVMA gap between the segments that is elided in the file).
const ELFS: [(&str, u64, &[(u64, u64, u64, bool)]); 4] = [
    ("easy_a.so", 0, &[(0, 0, 0x6000, true)]),
    ("easy_b.so", 0x40000, &[(0x40000, 0, 0x6000, true)]),
    ("gap.so", 0, &[(0, 0, 0x2000, false), (0x3000, 0x2000, 0x3000, true)]),
    // the first LOAD segment starts one page into the file: a mapping from file offset 0 starts before it
    ("late.so", 0x1000, &[(0x1000, 0x1000, 0x3000, true)]),
];

fn elf_dir() -> std::path::PathBuf {
    let d = work_tmp("C02").join("elf");
    std::fs::create_dir_all(&d).ok();
    d
}

fn elf_decls() -> Vec<ElfDecl> {
    ELFS.iter()
        .map(|(name, base, segs)| ElfDecl {
            path: elf_dir().join(name).to_string_lossy().to_string(),
            base_svma: *base,
            segs: segs.iter().map(|(v, o, s, _)| (*v, *o, *s)).collect(),
            exec_seg: segs.iter().position(|s| s.3).unwrap_or(0),
        })
        .collect()
}

fn write_elfs() {
    for (name, _base, segs) in ELFS.iter() {
        let mut sections = Vec::new();
        let mut segments = Vec::new();
        for (i, (vaddr, off, size, exec)) in segs.iter().enumerate() {
            // one section per segment, starting 0x1000 into the first segment (room for the headers)
            let skip = if *off == 0 { 0x1000 } else { 0 };
            let data: Vec<u8> = (0..(*size - skip)).map(|k| (k % 251) as u8).collect();
            sections.push(
                ElfSection::progbits(if *exec { ".text" } else { if i == 0 { ".rodata" } else { ".data" } }, vaddr + skip, data, *exec)
                    .at_offset(off + skip),
            );
            segments.push(ElfSegment { p_type: 1, flags: if *exec { 5 } else { 4 }, offset: *off, vaddr: *vaddr, filesz: *size, memsz: *size, align: 0x1000 });
        }
        let text_index = segs.iter().position(|s| s.3).unwrap_or(0);
        let text_addr = segs[text_index].0 + if segs[text_index].1 == 0 { 0x1000 } else { 0 };
        let spec = ElfSpec {
            is64: true,
            machine: 62,
            e_type: 3,
            entry: text_addr,
            e_flags: 0,
            sections,
            symbols: vec![ElfSymbol::func("f0", text_addr, 0x100, text_index), ElfSymbol::func("f1", text_addr + 0x100, 0x200, text_index)],
            build_id: None,
            segments: Segments::Explicit(segments),
        };
        let f = write_elf(&spec);
        std::fs::write(elf_dir().join(name), f.bytes).expect("write elf");
    }
}

/// Deterministic perf-map families: boundaries, a function inside / across a regular mapping, overlapping and
/// zero-length lines, malformed lines, the baseline-interpreter name hand-over, fork / exec.
fn jit_fixed_cases() -> Vec<Case> {
    const A: u64 = 0x5000_0000;
    let t0 = 7_000_000u64;
    let f = |addr: u64, len: u64, name: &str| PerfMapLine::Fn { addr, len, name: name.to_string() };
    let sample = |pid: u32, tid: u32, t: u64, ip: u64, rets: &[u64]| {
        let mut chain = vec![CTX_USER, ip];
        chain.extend_from_slice(rets);
        Rec::Sample { pid, tid, t, kernel: false, period: 1_000_000, ip, chain }
    };
    let mk = |name: &str, maps: Vec<(u32, PerfMapLine)>, recs: Vec<Rec>| Case {
        name: name.to_string(),
        ops: History { ref_time: t0, recs, perf_maps: maps, ..Default::default() }.to_ops(),
    };
    let comm = |pid: u32, t: u64| Rec::Comm { pid, tid: pid, name: "jit".to_string(), exec: false, t };
    let mut v = Vec::new();
    // 1. exact boundaries of two adjacent functions; a return address equal to the end of a function is
    //    looked up at end - 1, inside
    let two = vec![(100u32, f(A, 0x10, "py::f")), (100, f(A + 0x10, 0x20, "Builtin:x"))];
    let mut recs = vec![comm(100, t0 - 10)];
    for (k, ip) in [A - 1, A, A + 0xf, A + 0x10, A + 0x2f, A + 0x30].iter().enumerate() {
        recs.push(sample(100, 100, t0 + 1000 * k as u64, *ip, &[A, A + 1, A + 0x10, A + 0x11, A + 0x30, A + 0x31]));
    }
    v.push(mk("jit-boundaries", two.clone(), recs));
    // 2. a function inside a regular mapping and one straddling its end: the regular mapping wins where both
    //    cover, but only from its timestamp on
    let inside = vec![(100u32, f(0x40_1000, 0x100, "py::inside")), (100, f(0x40_1f80, 0x100, "py::straddle")), (100, f(A, 0x10, "py::far"))];
    let addrs = [0x40_1000u64, 0x40_10ff, 0x40_1100, 0x40_1f80, 0x40_1fff, 0x40_2000, 0x40_207f, 0x40_2080, A];
    let mut recs = vec![comm(100, t0 - 10)];
    recs.push(sample(100, 100, t0, 0x40_1010, &addrs));
    recs.push(Rec::Mmap2 { pid: 100, tid: 100, addr: 0x40_0000, len: 0x2000, pgoff: 0, exec: true, path: "/nonexistent-verif/bin/app".to_string(), t: t0 + 500 });
    recs.push(sample(100, 100, t0 + 500, 0x40_1010, &addrs));
    recs.push(sample(100, 100, t0 + 1000, 0x40_2010, &addrs));
    v.push(mk("jit-inside-regular", inside, recs));
    // 3. overlapping lines displace earlier ones entirely; a zero-length line at the start of a function
    //    replaces it; a zero-length line strictly inside displaces it; one at its end does not
    let over = vec![
        (100u32, f(A, 0x40, "py::f1")),
        (100, f(A + 0x20, 0x40, "py::f2")),
        (100, f(A + 0x100, 0x40, "py::g1")),
        (100, f(A + 0x100, 0, "py::zero-at-start")),
        (100, f(A + 0x200, 0x40, "py::h1")),
        (100, f(A + 0x220, 0, "py::zero-inside")),
        (100, f(A + 0x300, 0x40, "py::k1")),
        (100, f(A + 0x340, 0, "py::zero-at-end")),
        (100, f(A + 0x400, 0x40, "py::m1")),
        (100, f(A + 0x400, 0x20, "py::m2-same-start-shorter")),
    ];
    let addrs = [A + 0x10, A + 0x20, A + 0x5f, A + 0x60, A + 0x100, A + 0x110, A + 0x210, A + 0x220, A + 0x230, A + 0x310, A + 0x33f, A + 0x340, A + 0x410, A + 0x420, A + 0x430];
    v.push(mk("jit-overlap", over, vec![comm(100, t0 - 10), sample(100, 100, t0, A + 0x21, &addrs)]));
    // 4. malformed lines are skipped: they take no room in the fake library
    let mut odd: Vec<(u32, PerfMapLine)> = vec![(100, f(A, 0x10, "py::first"))];
    for l in PERF_MAP_ODD_LINES.iter() {
        odd.push((100, PerfMapLine::Raw(l.to_string())));
    }
    odd.push((100, f(A + 0x10, 0x10, "py::last")));
    let addrs = [A + 1, A + 0x11, 0x5000_f000, 0x5000_f010, 0x5000_f041, 0x5000_f081, 0x5000_f0c1, 0x5000_f101, 0x5000_f120];
    v.push(mk("jit-malformed", odd, vec![comm(100, t0 - 10), sample(100, 100, t0, A + 2, &addrs)]));
    // 5. the name hand-over to a bare BaselineInterpreter frame (stack_converter.rs:204-233); the chain is
    //    callee-first, so the root-most frame comes last
    let names = ["Interpreter: x (a.js:1:1)", "plain1", "BaselineInterpreter", "BaselineInterpreter: s (a.js:2:2)", "BlinterpOp: Op", "Ion: forEach[Call (StrictMode)]", "Builtin:b", "py::y"];
    let table: Vec<(u32, PerfMapLine)> = names.iter().enumerate().map(|(k, n)| (100u32, f(A + 0x10 * k as u64, 0x10, n))).collect();
    let fr = |k: u64| A + 0x10 * k + 5;
    let seqs: [&[u64]; 8] = [
        &[0, 1, 1, 2, 2],       // regular x, plain, plain, BI (takes x), BI (nothing left)
        &[0, 3, 2],             // regular, stub (discards x), BI: no label
        &[0, 4, 0, 1, 4],       // BlinterpOp is a BaselineInterpreter frame too
        &[5, 2],                // self-hosted name handed over: no label
        &[7, 6, 2, 7, 2, 2],    // py::y, Builtin (no JS info: keeps the name), BI, py::y, BI, BI
        &[2, 0, 2],             // BI first: nothing to take
        &[3, 3, 2, 0, 3, 2],
        &[1, 6, 1],
    ];
    let mut recs = vec![comm(100, t0 - 10)];
    for (k, seq) in seqs.iter().enumerate() {
        // root first in `seq`; chain wants callee first; the callee-most entry is the ip
        let mut rev: Vec<u64> = seq.iter().rev().map(|i| fr(*i)).collect();
        let ip = rev.remove(0);
        recs.push(sample(100, 100, t0 + 1000 * k as u64, ip, &rev));
    }
    v.push(mk("jit-baseline-handover", table, recs));
    // 6. fork: the child has its own pid, hence its own perf map (here: none, and another one); exec: the new
    //    incarnation of the pid reads the same file again; a process without samples never loads its file
    let mut maps = two.clone();
    maps.push((301, f(A, 0x10, "Ion: child (c.js:1:1)")));
    maps.push((250, f(A, u64::MAX, "py::never-loaded-would-overflow")));
    let recs = vec![
        comm(100, t0 - 10),
        comm(250, t0 - 10),
        sample(100, 100, t0, A + 1, &[A + 0x12]),
        Rec::Fork { pid: 300, tid: 300, ppid: 100, ptid: 100, t: t0 + 100 },
        Rec::Fork { pid: 301, tid: 301, ppid: 100, ptid: 100, t: t0 + 100 },
        sample(300, 300, t0 + 200, A + 1, &[A + 0x12]),
        sample(301, 301, t0 + 300, A + 1, &[A + 0x12]),
        Rec::Comm { pid: 100, tid: 100, name: "execed".to_string(), exec: true, t: t0 + 400 },
        sample(100, 100, t0 + 500, A + 2, &[A + 0x13]),
        Rec::Exit { pid: 100, tid: 100, t: t0 + 600 },
    ];
    v.push(mk("jit-fork-exec", maps, recs));
    v
}

/// Families of work package convD1: MMAP2 records the converter does not queue, 32-bit relative-address
/// arithmetic, a mapping that starts before its segment, out-of-order delivery.
fn d1_fixed_cases() -> Vec<Case> {
    let mut v = Vec::new();
    let lib = |n: &str| format!("/nonexistent-verif/lib/{n}");
    let mmap = |pid: u32, addr: u64, len: u64, pgoff: u64, path: &str, t: u64| Rec::Mmap2 { pid, tid: pid, addr, len, pgoff, exec: true, path: path.to_string(), t };
    let sample = |pid: u32, tid: u32, t: u64, ip: u64, rets: &[u64]| {
        let mut chain = vec![CTX_USER, ip];
        chain.extend_from_slice(rets);
        Rec::Sample { pid, tid, t, kernel: false, period: 1_000_000, ip, chain }
    };
    let comm = |pid: u32, t: u64| Rec::Comm { pid, tid: pid, name: "app".to_string(), exec: false, t };
    let mk = |name: &str, ref_time: u64, recs: Vec<Rec>| Case { name: name.to_string(), ops: History { ref_time, recs, files: elf_decls(), ..Default::default() }.to_ops() };
    // --- MMAP2 records that name no library: `//anon`, `[heap]`, `[stack]`, `[vvar]` over a live library
    // (candidate finding C02-special-path-not-evicting: the library stays attributed)
    if finding_enabled(FINDING_SPECIAL) {
        for (k, sp) in SPECIAL_PATHS.iter().enumerate() {
            let recs = vec![
                comm(100, 800),
                mmap(100, 0x40_0000, 0x2000, 0, &lib("libfoo.so"), 900),
                sample(100, 100, 1000, 0x40_0100, &[0x40_1000]),
                mmap(100, 0x40_0000, 0x2000, 0, sp, 1500),
                sample(100, 100, 2000, 0x40_0100, &[0x40_1000]),
            ];
            v.push(mk(&format!("special-path-over-live-lib-{k}"), 1000, recs));
        }
        // partially covering, and over nothing
        let recs = vec![
            comm(100, 800),
            mmap(100, 0x40_0000, 0x4000, 0, &lib("libfoo.so"), 900),
            mmap(100, 0x40_1000, 0x1000, 0, "//anon", 1500),
            mmap(100, 0x50_0000, 0x1000, 0, "[heap]", 1600),
            sample(100, 100, 2000, 0x40_0100, &[0x40_1100, 0x40_2100, 0x50_0010]),
        ];
        v.push(mk("special-path-partial", 2000, recs));
    }
    // a special path before the first sample creates no process entry; a non-executable one is ignored like
    // every non-executable mapping (never hit by a sample: judged)
    let recs = vec![mmap(300, 0x60_0000, 0x1000, 0, "//anon", 500), comm(100, 800), mmap(100, 0x40_0000, 0x2000, 0, &lib("libfoo.so"), 900), sample(100, 100, 1000, 0x40_0100, &[0x40_1000]), mmap(100, 0x70_0000, 0x1000, 0, "[stack]", 1500), sample(100, 100, 2000, 0x40_0100, &[0x40_1000])];
    v.push(mk("special-path-unsampled", 1000, recs));
    // --- a file on disk whose segments do not relate to the mapped file range: `compute_base_avma` = None,
    // the record is ignored and the previous mapping stays
    let easy_a = elf_decls()[0].path.clone();
    let gap = elf_decls()[2].path.clone();
    let late = elf_decls()[3].path.clone();
    let recs = vec![
        comm(100, 800),
        mmap(100, 0x40_0000, 0x2000, 0, &lib("libfoo.so"), 900),
        sample(100, 100, 1000, 0x40_0100, &[0x40_1000]),
        mmap(100, 0x40_0000, 0x1000, 0x10_0000, &easy_a, 1500),
        sample(100, 100, 2000, 0x40_0100, &[0x40_1000]),
        mmap(100, 0x40_0000, 0x1000, 0x1000, &easy_a, 2500),
        sample(100, 100, 3000, 0x40_0100, &[0x40_1000]),
    ];
    v.push(mk("file-range-unrelated-to-segments", 1000, recs));
    // --- a mapping that starts before its segment in the file (the `file_offset >` branch of
    // compute_vma_bias_impl): gap.so's text segment is at file offset 0x2000, stated address 0x3000
    let recs = vec![
        comm(100, 800),
        mmap(100, 0x7f00_0000_0000, 0x5000, 0x1000, &gap, 900),
        sample(100, 100, 1000, 0x7f00_0000_0000, &[0x7f00_0000_0fff, 0x7f00_0000_1000, 0x7f00_0000_1001, 0x7f00_0000_3fff, 0x7f00_0000_4fff, 0x7f00_0000_5000]),
        mmap(100, 0x7f10_0000_0000, 0x4000, 0x2000, &gap, 1500),
        mmap(100, 0x7f20_0000_0000, 0x4000, 0x1000, &late, 1600),
        sample(100, 100, 2000, 0x7f10_0000_0010, &[0x7f10_0000_2000, 0x7f20_0000_0010, 0x7f20_0000_2fff]),
    ];
    v.push(mk("mapping-before-segment", 1000, recs));
    if finding_enabled(FINDING_MMAP_ARITH) {
        // … and before the image base: `mapping_start_avma - base_avma` underflows (debug build: panic)
        v.push(mk("mapping-before-image-base", 1000, vec![comm(100, 800), mmap(100, 0x41_c000, 0x5000, 0, &late, 900), sample(100, 100, 1000, 0x41_d010, &[])]));
    }
    // --- 32-bit arithmetic of relative addresses
    // page offset just below 2^32: the u32 addition of convert_address overflows (debug build: panic)
    v.push(mk("pgoff-near-2p32-overflow", 1000, vec![comm(100, 800), mmap(100, 0x1_0000_0000, 0x2000, 0xffff_f000, &lib("big.so"), 900), sample(100, 100, 1000, 0x1_0000_1800, &[])]));
    // the same mapping sampled only below the wrap: converted
    v.push(mk("pgoff-near-2p32-ok", 1000, vec![comm(100, 800), mmap(100, 0x1_0000_0000, 0x2000, 0xffff_f000, &lib("big.so"), 900), sample(100, 100, 1000, 0x1_0000_0800, &[0x1_0000_0fff, 0x1_0000_1000])]));
    // page offset above 2^32: `as u32` truncates
    v.push(mk("pgoff-above-2p32", 1000, vec![comm(100, 800), mmap(100, 0x2_0000_0000, 0x2000, 0x1_0000_1000, &lib("big.so"), 900), sample(100, 100, 1000, 0x2_0000_0800, &[0x2_0000_1801])]));
    // a mapping longer than 4 GiB: the offset into the mapping is truncated
    v.push(mk(
        "mapping-over-4gib",
        1000,
        vec![comm(100, 800), mmap(100, 0x10_0000_0000, 0x1_8000_0000, 0, &lib("huge.so"), 900), sample(100, 100, 1000, 0x10_0000_0100, &[0x10_ffff_ffff, 0x11_0000_0000, 0x11_0000_0101, 0x11_7fff_ffff, 0x11_8000_0001])],
    ));
    // --- out-of-order delivery (a file that breaks perf's round contract; simpleperf emits back-dated MMAP2
    // records, process_threads.rs:95-96). Candidate finding C02-backdated-record.
    // a back-dated MMAP2 record alone in its queue, delivered after later-stamped records of other kinds: it
    // keeps its own timestamp (`last_timestamp` is overwritten by every record that has a time, import/perf.rs:
    // 200-207) and applies to the sample stamped 2000 that was delivered before it. Green on the unchanged tree.
    let h = history_from_file_rounds(
        1000,
        vec![
            vec![comm(100, 800), sample(100, 100, 2000, 0x50_0100, &[0x50_0200])],
            vec![comm(100, 5000)],
            vec![comm(100, 6000)],
            vec![mmap(100, 0x50_0000, 0x2000, 0, "/nonexistent-verif/opt/tool", 1000), comm(100, 7000)],
            vec![sample(100, 100, 8000, 0x50_0100, &[])],
        ],
    );
    v.push(Case { name: "backdated-mmap-alone".to_string(), ops: h.to_ops() });
    if finding_enabled(FINDING_BACKDATED) {
        // a mapping announced at 1000 but delivered after one stamped 5000 is queued behind it and never
        // applied to the sample at 2000
        let h = history_from_file_rounds(
            1000,
            vec![
                vec![comm(100, 800), mmap(100, 0x40_0000, 0x2000, 0, &lib("libfoo.so"), 950), sample(100, 100, 3000, 0x40_0100, &[])],
                vec![mmap(100, 0x60_0000, 0x2000, 0, &lib("libbar.so.1"), 5000)],
                vec![comm(100, 6000)],
                vec![mmap(100, 0x50_0000, 0x2000, 0, "/nonexistent-verif/opt/tool", 1000), sample(100, 101, 2000, 0x50_0100, &[])],
            ],
        );
        v.push(Case { name: "backdated-mmap".to_string(), ops: h.to_ops() });
        // a sample stamped 2000 delivered after a sample stamped 3000 of the same process: the mapping
        // stamped 2500 has already been applied
        let h = history_from_file_rounds(
            1000,
            vec![
                vec![comm(100, 800), mmap(100, 0x40_0000, 0x2000, 0, &lib("libfoo.so"), 900), mmap(100, 0x50_0000, 0x2000, 0, &lib("libbar.so.1"), 2500), sample(100, 100, 3000, 0x50_0100, &[0x40_0100])],
                vec![comm(100, 3100)],
                vec![sample(100, 101, 2000, 0x50_0100, &[0x40_0100]), sample(100, 100, 4000, 0x50_0100, &[])],
            ],
        );
        v.push(Case { name: "backdated-sample".to_string(), ops: h.to_ops() });
    }
    v
}

impl Prop for C02 {
    fn id(&self) -> &'static str {
        "C02"
    }
    fn case_count(&self, tier: Tier) -> u64 {
        match tier {
            Tier::Quick => 500,
            Tier::Thorough => 20000,
        }
    }
    fn fixed_cases(&self, _tier: Tier) -> Vec<Case> {
        let mut v = jit_fixed_cases();
        v.extend(d1_fixed_cases());
        v
    }
    fn generate(&self, rng: &mut Rng, tier: Tier, _index: u64) -> Vec<String> {
        let shape = Shape {
            max_len: if tier == Tier::Thorough { 300 } else { 140 },
            mappings: true,
            violate_pct: 15,
            allow_reuse: false,
            allow_fold: true,
            // a third of the cases also map ELF files that exist on disk (segment-based attribution)
            files: if rng.chance(1, 3) { elf_decls() } else { Vec::new() },
            // three fifths of the cases have perf map files for some of the pids
            jit: true,
        };
        let mut h = gen_history(rng, &shape);
        // a tenth of the histories: out-of-order delivery. Back-dated lifecycle records always (attribution
        // follows the delivery order for them); back-dated samples and MMAP2 records show the candidate finding
        // C02-backdated-record and are generated once it is recorded
        if rng.chance(1, 10) {
            let all = finding_enabled(FINDING_BACKDATED);
            out_of_order(&mut h, rng, OooKinds { samples: all, mmap2: all, lifecycle: true, zero: false });
        }
        h.to_ops()
    }
    fn setup(&self, _tier: Tier) {
        write_elfs();
    }
    fn execute(&self, ops: &[String], stats: &mut Stats) -> Vec<String> {
        let Some(h) = History::from_ops(ops) else {
            return vec!["bad-op".to_string()];
        };
        count_history(&h, stats);
        if !h.perf_maps.is_empty() {
            stats.bump("cases_with_perf_map");
            stats.add("perf_map_lines", h.perf_maps.len() as u64);
            stats.add("perf_map_lines_raw", h.perf_maps.iter().filter(|l| matches!(l.1, PerfMapLine::Raw(_))).count() as u64);
            stats.add("perf_map_lines_zero_len", h.perf_maps.iter().filter(|l| matches!(l.1, PerfMapLine::Fn { len: 0, .. })).count() as u64);
        }
        if !h.files.is_empty() {
            stats.bump("cases_with_files_on_disk");
            let n = h.recs.iter().filter(|r| matches!(r, Rec::Mmap2 { path, .. } if h.files.iter().any(|f| &f.path == path))).count();
            stats.add("mmap2_of_file_on_disk", n as u64);
        }
        if !h.layout.is_empty() {
            stats.bump("explicit_layout");
        }
        stats.add("mmap2_special_path", h.recs.iter().filter(|r| matches!(r, Rec::Mmap2 { path, .. } if SPECIAL_PATHS.contains(&path.as_str()))).count() as u64);
        let dir = work_tmp("C02");
        let tag = format!("c{:016x}", fnv1a(ops));
        let out = import_and_render(&h, Proj::C02, &dir, &tag, stats);
        for l in &out {
            if l.starts_with("s ") {
                stats.add("frames_lib", l.matches(" l:").count() as u64);
                stats.add("frames_raw", l.matches(" r:").count() as u64);
                stats.add("frames_jit", l.matches(" l:2f746d702f706572662d").count() as u64);
                stats.add("frames_js_label", l.matches(" j:").count() as u64);
            }
        }
        out
    }
    fn nontrivial(&self, _ops: &[String], out: &[String]) -> bool {
        // at least one frame resolved through a mapping and one kept raw
        out.iter().any(|l| l.contains(" l:")) && out.iter().any(|l| l.contains(" r:"))
    }
}

fn main() {
    verif_harness::runner::run_main(&C02);
}
