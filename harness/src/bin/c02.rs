//! C02 — frames are attributed to the library mapped at that address at sample time. perf.data
//! pipeline with MMAP2 records (added, overlapped, replaced, inherited across fork, equal-timestamp
//! mmap/sample pairs) and call chains mixing context markers, leaf / return addresses, mapped / unmapped /
//! boundary addresses. Observable: per sample the root-first list of (library path, relative address) or raw
//! address.
use verif_harness::common::*;
use verif_harness::gen::elf::*;
use verif_harness::gen::perfdata::*;

pub struct C02;

/// ELF files placed on disk for segment-based attribution: (file name, image base, LOAD segments
/// `(vaddr, file offset, file size, executable)`): easy case A (svma = file offset), easy case B (non-zero
/// base) and the hard case of svma_file_range.rs (an SVMA gap between the segments that is elided in the file).
const ELFS: [(&str, u64, &[(u64, u64, u64, bool)]); 3] = [
    ("easy_a.so", 0, &[(0, 0, 0x6000, true)]),
    ("easy_b.so", 0x40000, &[(0x40000, 0, 0x6000, true)]),
    ("gap.so", 0, &[(0, 0, 0x2000, false), (0x3000, 0x2000, 0x3000, true)]),
];

fn elf_dir() -> std::path::PathBuf {
    let d = work_tmp("C02").join("elf");
    std::fs::create_dir_all(&d).ok();
    d
}

fn elf_decls() -> Vec<ElfDecl> {
    ELFS.iter()
        .map(|(name, base, segs)| ElfDecl {
            path: elf_dir().join(name).to_string_lossy().to_string(),
            base_svma: *base,
            segs: segs.iter().map(|(v, o, s, _)| (*v, *o, *s)).collect(),
            exec_seg: segs.iter().position(|s| s.3).unwrap_or(0),
        })
        .collect()
}

fn write_elfs() {
    for (name, _base, segs) in ELFS.iter() {
        let mut sections = Vec::new();
        let mut segments = Vec::new();
        for (i, (vaddr, off, size, exec)) in segs.iter().enumerate() {
            // one section per segment, starting 0x1000 into the first segment (room for the headers)
            let skip = if *off == 0 { 0x1000 } else { 0 };
            let data: Vec<u8> = (0..(*size - skip)).map(|k| (k % 251) as u8).collect();
            sections.push(
                ElfSection::progbits(if *exec { ".text" } else { if i == 0 { ".rodata" } else { ".data" } }, vaddr + skip, data, *exec)
                    .at_offset(off + skip),
            );
            segments.push(ElfSegment { p_type: 1, flags: if *exec { 5 } else { 4 }, offset: *off, vaddr: *vaddr, filesz: *size, memsz: *size, align: 0x1000 });
        }
        let text_index = segs.iter().position(|s| s.3).unwrap_or(0);
        let text_addr = segs[text_index].0 + if segs[text_index].1 == 0 { 0x1000 } else { 0 };
        let spec = ElfSpec {
            is64: true,
            machine: 62,
            e_type: 3,
            entry: text_addr,
            e_flags: 0,
            sections,
            symbols: vec![ElfSymbol::func("f0", text_addr, 0x100, text_index), ElfSymbol::func("f1", text_addr + 0x100, 0x200, text_index)],
            build_id: None,
            segments: Segments::Explicit(segments),
        };
        let f = write_elf(&spec);
        std::fs::write(elf_dir().join(name), f.bytes).expect("write elf");
    }
}

impl Prop for C02 {
    fn id(&self) -> &'static str {
        "C02"
    }
    fn case_count(&self, tier: Tier) -> u64 {
        match tier {
            Tier::Quick => 500,
            Tier::Thorough => 20000,
        }
    }
    fn generate(&self, rng: &mut Rng, tier: Tier, _index: u64) -> Vec<String> {
        let shape = Shape {
            max_len: if tier == Tier::Thorough { 300 } else { 140 },
            mappings: true,
            violate_pct: 15,
            allow_reuse: false,
            allow_fold: true,
            // a third of the cases also map ELF files that exist on disk (segment-based attribution)
            files: if rng.chance(1, 3) { elf_decls() } else { Vec::new() },
        };
        gen_history(rng, &shape).to_ops()
    }
    fn setup(&self, _tier: Tier) {
        write_elfs();
    }
    fn execute(&self, ops: &[String], stats: &mut Stats) -> Vec<String> {
        let Some(h) = History::from_ops(ops) else {
            return vec!["bad-op".to_string()];
        };
        count_history(&h, stats);
        if !h.files.is_empty() {
            stats.bump("cases_with_files_on_disk");
            let n = h.recs.iter().filter(|r| matches!(r, Rec::Mmap2 { path, .. } if h.files.iter().any(|f| &f.path == path))).count();
            stats.add("mmap2_of_file_on_disk", n as u64);
        }
        let dir = work_tmp("C02");
        let tag = format!("c{:016x}", fnv1a(ops));
        let out = import_and_render(&h, Proj::C02, &dir, &tag, stats);
        for l in &out {
            if l.starts_with("s ") {
                stats.add("frames_lib", l.matches(" l:").count() as u64);
                stats.add("frames_raw", l.matches(" r:").count() as u64);
            }
        }
        out
    }
    fn nontrivial(&self, _ops: &[String], out: &[String]) -> bool {
        // at least one frame resolved through a mapping and one kept raw
        out.iter().any(|l| l.contains(" l:")) && out.iter().any(|l| l.contains(" r:"))
    }
}

fn main() {
    verif_harness::runner::run_main(&C02);
}
