//! C02 — frames are attributed to the library mapped at that address at sample time. perf.data
//! pipeline with MMAP2 records (added, overlapped, replaced, inherited across fork, equal-timestamp
//! mmap/sample pairs) and call chains mixing context markers, leaf / return addresses, mapped / unmapped /
//! boundary addresses. Observable: per sample the root-first list of (library path, relative address) or raw
//! address.
use verif_harness::common::*;
use verif_harness::gen::perfdata::*;

pub struct C02;

impl Prop for C02 {
    fn id(&self) -> &'static str {
        "C02"
    }
    fn case_count(&self, tier: Tier) -> u64 {
        match tier {
            Tier::Quick => 500,
            Tier::Thorough => 20000,
        }
    }
    fn generate(&self, rng: &mut Rng, tier: Tier, _index: u64) -> Vec<String> {
        let shape = Shape {
            max_len: if tier == Tier::Thorough { 300 } else { 140 },
            mappings: true,
            violate_pct: 15,
            allow_reuse: false,
            allow_fold: true,
        };
        gen_history(rng, &shape).to_ops()
    }
    fn execute(&self, ops: &[String], stats: &mut Stats) -> Vec<String> {
        let Some(h) = History::from_ops(ops) else {
            return vec!["bad-op".to_string()];
        };
        count_history(&h, stats);
        let dir = work_tmp("C02");
        let tag = format!("c{:016x}", fnv1a(ops));
        let out = import_and_render(&h, Proj::C02, &dir, &tag, stats);
        for l in &out {
            if l.starts_with("s ") {
                stats.add("frames_lib", l.matches(" l:").count() as u64);
                stats.add("frames_raw", l.matches(" r:").count() as u64);
            }
        }
        out
    }
    fn nontrivial(&self, _ops: &[String], out: &[String]) -> bool {
        // at least one frame resolved through a mapping and one kept raw
        out.iter().any(|l| l.contains(" l:")) && out.iter().any(|l| l.contains(" r:"))
    }
}

fn main() {
    verif_harness::runner::run_main(&C02);
}
