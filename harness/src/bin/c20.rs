//! C20 — drives the real `/asm/v1` (`samply_api::Api::query_api`) in-process on the repository's x86-64, ARM
//! and AArch64 fixtures and on small synthetic ELF files (x86, x86-64, ARM, AArch64, unknown machine) whose
//! code bytes are part of the case.
//!
//! ops (all numbers decimal):
//!   note <start-kind> <size-kind>            generator bookkeeping (ignored by model and judge)
//!   file fix <path under fixtures/>          | file syn <machine> <vbase> <textoff> <load|none|short:N|long>
//!   text <hex> / data <gap> <hex> / bss <n> / fsym <relvalue> <size>      (synthetic files only)
//!   arch <x86|x86_64|arm|arm64|none>         architecture of the object, determined by the harness
//!   req <start> <size> <cont>                the request
//!   sym none | sym <addr> <size|none>        symbol found by a direct lookup of <start> (only when cont=1)
//!   base <n>                                 relative-address base of the object
//!   sec <addr> <size> <fileoff> <datalen|e>  every section, in object order
//!   seg <addr> <size> <fileoff> <datalen|e>  every segment, in object order
//!   slice none | slice <rel> <len>           specification-side: aligned start and number of bytes to decode
//!   win <fileoff> <hex>                      the file bytes of that slice, read directly from the file
//!   oracle <chars>                           per slice offset 0..=len: 1-f = decodes to that length,
//!                                            x = input exhausted, i = invalid  (same yaxpeax decoders)
//!   ref <tokens>                             per slice offset: fingerprint of the decoded text, or `-`
//! out:
//!   resp <startAddress> <size> <arch>        then `offs <o>[!] …`, `bad <hex> …`, `fp <h> …`
//!   | err:<notfound|range|parse|arch|load|other> | panic
use std::collections::HashMap;
use std::panic::{catch_unwind, AssertUnwindSafe};
use std::sync::{Arc, OnceLock};

use samply_symbols::object::{self, Object, ObjectSection, ObjectSegment};
use samply_symbols::{
    CandidatePathInfo, FileAndPathHelper, FileAndPathHelperResult, FileLocation, LibraryInfo, LookupAddress,
    OptionallySendFuture, SymbolManager,
};
use verif_harness::common::*;
use verif_harness::gen::elf::*;
use yaxpeax_arch::{Arch, DecodeError, Decoder, Reader, U8Reader};

pub struct C20;

const MAX_SLICE: u64 = 6000;

// ---------------------------------------------------------------------------------------------
// file access for the SymbolManager: everything is served from memory
// ---------------------------------------------------------------------------------------------

#[derive(Clone)]
struct Loc(String);
impl std::fmt::Display for Loc {
    fn fmt(&self, f: &mut std::fmt::Formatter<'_>) -> std::fmt::Result {
        write!(f, "{}", self.0)
    }
}
impl FileLocation for Loc {
    fn location_for_dyld_subcache(&self, _: &str) -> Option<Self> {
        None
    }
    fn location_for_external_object_file(&self, _: &str) -> Option<Self> {
        None
    }
    fn location_for_pdb_from_binary(&self, _: &str) -> Option<Self> {
        None
    }
    fn location_for_source_file(&self, _: &str) -> Option<Self> {
        None
    }
    fn location_for_breakpad_symindex(&self) -> Option<Self> {
        None
    }
    fn location_for_dwo(&self, _: &str, _: &str) -> Option<Self> {
        None
    }
    fn location_for_dwp(&self) -> Option<Self> {
        None
    }
}

struct Helper {
    name: String,
    bytes: Arc<[u8]>,
}
impl FileAndPathHelper for Helper {
    type F = Arc<[u8]>;
    type FL = Loc;
    fn get_candidate_paths_for_debug_file(&self, info: &LibraryInfo) -> FileAndPathHelperResult<Vec<CandidatePathInfo<Loc>>> {
        Ok(match &info.debug_name {
            Some(n) => vec![CandidatePathInfo::SingleFile(Loc(n.clone()))],
            None => vec![],
        })
    }
    fn get_candidate_paths_for_binary(&self, info: &LibraryInfo) -> FileAndPathHelperResult<Vec<CandidatePathInfo<Loc>>> {
        Ok(match &info.name {
            Some(n) => vec![CandidatePathInfo::SingleFile(Loc(n.clone()))],
            None => vec![],
        })
    }
    fn get_dyld_shared_cache_paths(&self, _: Option<&str>) -> FileAndPathHelperResult<Vec<Loc>> {
        Ok(vec![])
    }
    fn load_file(&self, l: Loc) -> std::pin::Pin<Box<dyn OptionallySendFuture<Output = FileAndPathHelperResult<Arc<[u8]>>> + '_>> {
        let r: FileAndPathHelperResult<Arc<[u8]>> = if l.0 == self.name {
            Ok(self.bytes.clone())
        } else {
            Err(Box::new(std::io::Error::new(std::io::ErrorKind::NotFound, "no such file")))
        };
        Box::pin(async move { r })
    }
}

// ---------------------------------------------------------------------------------------------
// the harness's own view of a binary
// ---------------------------------------------------------------------------------------------

#[derive(Clone, Debug)]
struct Reg {
    addr: u64,
    size: u64,
    fileoff: u64,
    datalen: Option<u64>,
    exec: bool,
}

#[derive(Clone)]
struct Bin {
    /// the `file …` op lines that identify / reconstruct the binary
    file_ops: Vec<String>,
    name: String,
    bytes: Arc<[u8]>,
    debug_id: String,
    arch: Option<&'static str>,
    base: u64,
    secs: Vec<Reg>,
    segs: Vec<Reg>,
    /// function entry addresses (relative), fixtures only
    entries: Vec<u32>,
}

fn arch_of(a: object::Architecture) -> Option<&'static str> {
    match a {
        object::Architecture::Arm => Some("arm"),
        object::Architecture::Aarch64 => Some("arm64"),
        object::Architecture::I386 => Some("x86"),
        object::Architecture::X86_64 => Some("x86_64"),
        _ => None,
    }
}

fn parse_bin(file_ops: Vec<String>, name: &str, bytes: Arc<[u8]>) -> Option<Bin> {
    let obj = object::File::parse(&*bytes).ok()?;
    let debug_id = samply_symbols::debug_id_for_object(&obj)?.breakpad().to_string();
    let base = samply_symbols::relative_address_base(&obj);
    let mut secs = Vec::new();
    for s in obj.sections() {
        let (fileoff, _) = s.file_range().unwrap_or((0, 0));
        secs.push(Reg {
            addr: s.address(),
            size: s.size(),
            fileoff,
            datalen: s.data().ok().map(|d| d.len() as u64),
            exec: s.kind() == object::SectionKind::Text,
        });
    }
    let mut segs = Vec::new();
    for s in obj.segments() {
        let (fileoff, _) = s.file_range();
        segs.push(Reg { addr: s.address(), size: s.size(), fileoff, datalen: s.data().ok().map(|d| d.len() as u64), exec: false });
    }
    let arch = arch_of(obj.architecture());
    drop(obj);
    Some(Bin { file_ops, name: name.to_string(), bytes, debug_id, arch, base, secs, segs, entries: Vec::new() })
}

fn library_info(bin: &Bin) -> LibraryInfo {
    LibraryInfo {
        name: Some(bin.name.clone()),
        debug_name: Some(bin.name.clone()),
        debug_id: samply_symbols::debugid::DebugId::from_breakpad(&bin.debug_id).ok(),
        ..Default::default()
    }
}

fn manager(bin: &Bin) -> SymbolManager<Helper> {
    SymbolManager::with_helper(Helper { name: bin.name.clone(), bytes: bin.bytes.clone() })
}

/// direct symbol lookup (what `get_function_end_address` consults): address and size of the symbol at `addr`
fn lookup_symbol(bin: &Bin, addr: u32) -> Option<(u32, Option<u32>)> {
    let m = manager(bin);
    let map = futures::executor::block_on(m.load_symbol_map(&library_info(bin))).ok()?;
    let r = map.lookup_sync(LookupAddress::Relative(addr))?;
    Some((r.symbol.address, r.symbol.size))
}

const FIXTURES: &[&str] = &[
    "win64-ci/firefox.exe",
    "win64-ci/softokn3.dll",
    "win64-local/mozglue.dll",
    "linux64-ci/firefox",
    "other/example-linux",
    "macos-local/firefox",
    "macos-ci/libsoftokn3.dylib",
    "android32-local/libsoftokn3.so",
    "other/ls-linux/ls",
    "other/simple-example/out/with-dwp/main",
    "other/simple-example/out/mac-dsym/main",
];

fn repo_dir() -> std::path::PathBuf {
    if let Ok(r) = std::env::var("VERIF_REPO") {
        return r.into();
    }
    if let Ok(r) = std::env::var("VERIF_ROOT") {
        return std::path::Path::new(&r).join("repo-link");
    }
    std::path::Path::new(env!("CARGO_MANIFEST_DIR")).join("../repo-link")
}

fn fixtures() -> &'static Vec<Bin> {
    static F: OnceLock<Vec<Bin>> = OnceLock::new();
    F.get_or_init(|| {
        let mut v = Vec::new();
        for rel in FIXTURES {
            let p = repo_dir().join("fixtures").join(rel);
            let Ok(data) = std::fs::read(&p) else { continue };
            if data.is_empty() {
                continue; // emptied in this sandbox
            }
            let name = rel.rsplit('/').next().unwrap().to_string();
            let Some(mut bin) = parse_bin(vec![format!("file fix {rel}")], &name, Arc::from(data)) else { continue };
            // function entries from the symbol map
            let m = manager(&bin);
            if let Ok(map) = futures::executor::block_on(m.load_symbol_map(&library_info(&bin))) {
                let mut e: Vec<u32> = map.iter_symbols().map(|(a, _)| a).collect();
                e.sort();
                e.dedup();
                bin.entries = e;
            }
            v.push(bin);
        }
        v
    })
}

fn fixture_by_path(rel: &str) -> Option<&'static Bin> {
    fixtures().iter().find(|b| b.file_ops[0] == format!("file fix {rel}"))
}

// ---------------------------------------------------------------------------------------------
// synthetic ELF files described by op lines
// ---------------------------------------------------------------------------------------------

#[derive(Clone, Debug, Default)]
struct Syn {
    machine: String,
    vbase: u64,
    textoff: u64,
    segmode: String,
    text: Vec<u8>,
    data: Option<(u64, Vec<u8>)>,
    bss: Option<u64>,
    fsyms: Vec<(u64, u64)>,
}

fn syn_ops(s: &Syn) -> Vec<String> {
    let mut v = vec![format!("file syn {} {} {} {}", s.machine, s.vbase, s.textoff, s.segmode), format!("text {}", hex(&s.text))];
    if let Some((gap, d)) = &s.data {
        v.push(format!("data {gap} {}", hex(d)));
    }
    if let Some(n) = s.bss {
        v.push(format!("bss {n}"));
    }
    for (a, n) in &s.fsyms {
        v.push(format!("fsym {a} {n}"));
    }
    v
}

fn syn_from_ops(ops: &[String]) -> Option<Syn> {
    let mut s = Syn::default();
    let mut seen = false;
    for l in ops {
        let w: Vec<&str> = l.split_whitespace().collect();
        match w.as_slice() {
            ["file", "syn", m, vbase, textoff, segmode] => {
                s.machine = m.to_string();
                s.vbase = vbase.parse().ok()?;
                s.textoff = textoff.parse().ok()?;
                s.segmode = segmode.to_string();
                seen = true;
            }
            ["text", h] => s.text = unhex(h),
            ["data", gap, h] => s.data = Some((gap.parse().ok()?, unhex(h))),
            ["bss", n] => s.bss = Some(n.parse().ok()?),
            ["fsym", a, n] => s.fsyms.push((a.parse().ok()?, n.parse().ok()?)),
            _ => {}
        }
    }
    if seen {
        Some(s)
    } else {
        None
    }
}

fn build_syn(s: &Syn) -> Option<Bin> {
    let (machine, is64) = match s.machine.as_str() {
        "386" => (EM_386, false),
        "x86_64" => (EM_X86_64, true),
        "arm" => (EM_ARM, false),
        "aarch64" => (EM_AARCH64, true),
        "riscv" => (EM_RISCV, true),
        _ => return None,
    };
    let text_addr = s.vbase + s.textoff;
    let mut sections = vec![ElfSection::progbits(".text", text_addr, s.text.clone(), true).at_offset(s.textoff)];
    let mut end_addr = text_addr + s.text.len() as u64;
    let mut end_off = s.textoff + s.text.len() as u64;
    if let Some((gap, d)) = &s.data {
        sections.push(ElfSection::progbits(".rodata", end_addr + gap, d.clone(), false).at_offset(end_off + gap));
        end_addr += gap + d.len() as u64;
        end_off += gap + d.len() as u64;
    }
    if let Some(n) = s.bss {
        sections.push(ElfSection::nobits(".bss", end_addr, n).at_offset(end_off));
    }
    let segments = if s.segmode == "none" {
        Segments::None
    } else if let Some(n) = s.segmode.strip_prefix("short:") {
        let cut: u64 = n.parse().ok()?;
        // the PT_LOAD's file data ends `cut` bytes before the end of .text
        let filesz = (s.textoff + s.text.len() as u64).saturating_sub(cut);
        Segments::Explicit(vec![ElfSegment { p_type: PT_LOAD, flags: PF_R | PF_X, offset: 0, vaddr: s.vbase, filesz, memsz: end_addr - s.vbase + s.bss.unwrap_or(0), align: 0x1000 }])
    } else if s.segmode == "long" {
        // the PT_LOAD claims file data far beyond the end of the file: `segment.data()` fails
        Segments::Explicit(vec![ElfSegment { p_type: PT_LOAD, flags: PF_R | PF_X, offset: 0, vaddr: s.vbase, filesz: 1 << 20, memsz: 1 << 20, align: 0x1000 }])
    } else {
        Segments::Auto { vbase: s.vbase }
    };
    let symbols = s
        .fsyms
        .iter()
        .enumerate()
        .map(|(i, (a, n))| ElfSymbol::func(&format!("f{i}"), s.vbase + a, *n, 0))
        .collect();
    let spec = ElfSpec {
        is64,
        machine,
        e_type: if s.vbase == 0 { ET_DYN } else { ET_EXEC },
        entry: text_addr,
        e_flags: if machine == EM_ARM { 0x0500_0000 } else { 0 },
        sections,
        symbols,
        build_id: Some((0u8..20).map(|i| i.wrapping_mul(7).wrapping_add(s.text.len() as u8)).collect()),
        segments,
    };
    let f = write_elf(&spec);
    parse_bin(syn_ops(s), "syn.so", Arc::from(f.bytes))
}

// ---------------------------------------------------------------------------------------------
// the decoder oracle: the same yaxpeax decoders as asm/mod.rs, run on a fresh reader per position
// ---------------------------------------------------------------------------------------------

fn probe<'a, A: Arch>(decoder: &A::Decoder, bytes: &'a [u8], show: &dyn Fn(&A::Instruction) -> String) -> (char, Option<String>)
where
    u64: From<A::Address>,
    U8Reader<'a>: Reader<A::Address, A::Word>,
{
    let mut reader = U8Reader::new(bytes);
    match decoder.decode(&mut reader) {
        Ok(inst) => {
            let len = u64::from(<U8Reader<'a> as Reader<A::Address, A::Word>>::total_offset(&mut reader));
            let c = if (1..=15).contains(&len) { std::char::from_digit(len as u32, 16).unwrap() } else { '?' };
            (c, Some(show(&inst)))
        }
        Err(e) => {
            if e.data_exhausted() {
                ('x', None)
            } else {
                ('i', None)
            }
        }
    }
}

fn probe_arch(arch: &str, bytes: &[u8]) -> (char, Option<String>) {
    match arch {
        "x86" => probe::<yaxpeax_x86::protected_mode::Arch>(&yaxpeax_x86::protected_mode::InstDecoder::default(), bytes, &|i| i.to_string()),
        "x86_64" => probe::<yaxpeax_x86::amd64::Arch>(&yaxpeax_x86::amd64::InstDecoder::default(), bytes, &|i| {
            i.display_with(yaxpeax_x86::amd64::DisplayStyle::Intel).to_string()
        }),
        "arm64" => probe::<yaxpeax_arm::armv8::a64::ARMv8>(&yaxpeax_arm::armv8::a64::InstDecoder::default(), bytes, &|i| i.to_string()),
        "arm" => probe::<yaxpeax_arm::armv7::ARMv7>(&yaxpeax_arm::armv7::InstDecoder::default_thumb(), bytes, &|i| i.to_string()),
        _ => ('x', None),
    }
}

fn fnv32(s: &str) -> u32 {
    let mut h: u32 = 0x811c9dc5;
    for b in s.bytes() {
        h ^= b as u32;
        h = h.wrapping_mul(0x01000193);
    }
    h
}

/// Fingerprint of an instruction's text. For x86-64 only the mnemonic is used, because the API rewrites the
/// operand of relative branches into an absolute address (mod.rs:252-274).
fn fingerprint(arch: &str, text: &str) -> String {
    let t = if arch == "x86_64" { text.split_whitespace().next().unwrap_or("") } else { text };
    format!("{:06x}", fnv32(t) & 0xff_ffff)
}

fn tables(arch: Option<&str>, slice: &[u8]) -> (String, String) {
    let Some(arch) = arch else { return ("-".into(), "-".into()) };
    let mut oracle = String::with_capacity(slice.len() + 1);
    let mut refs: Vec<String> = Vec::with_capacity(slice.len() + 1);
    for p in 0..=slice.len() {
        let (c, text) = probe_arch(arch, &slice[p..]);
        oracle.push(c);
        refs.push(match text {
            Some(t) => fingerprint(arch, &t),
            None => "-".to_string(),
        });
    }
    (oracle, refs.join(" "))
}

// ---------------------------------------------------------------------------------------------
// specification-side slice: which bytes of the file should be decoded
// ---------------------------------------------------------------------------------------------

fn contains(r: &Reg, svma: u64) -> bool {
    match r.addr.checked_add(r.size) {
        Some(end) => r.addr <= svma && svma < end,
        None => false,
    }
}

fn spec_len(start: u32, size: u32, cont: bool, sym: Option<(u32, Option<u32>)>) -> u64 {
    let mut l = size as u64;
    if cont {
        if let Some((a, Some(n))) = sym {
            if let Some(end) = a.checked_add(n) {
                l = l.max((end as u64).saturating_sub(start as u64));
            }
        }
    }
    l
}

/// (rel, fileoff, len)
fn spec_slice(bin: &Bin, start: u32, size: u32, cont: bool, sym: Option<(u32, Option<u32>)>) -> Option<(u32, u64, u64)> {
    let align: u32 = match bin.arch {
        Some("arm64") => 4,
        Some("arm") => 2,
        _ => 1,
    };
    let rel = start / align * align;
    let want = (spec_len(start, size, cont, sym) + 15).min(u32::MAX as u64);
    let svma = bin.base.checked_add(rel as u64)?;
    let sec = bin.secs.iter().find(|s| contains(s, svma))?;
    let n = want.min(sec.addr + sec.size - svma);
    let src = bin.segs.iter().find(|s| contains(s, svma)).unwrap_or(sec);
    let datalen = src.datalen?;
    let off = svma.checked_sub(src.addr)?;
    if off <= datalen && n <= datalen - off {
        Some((rel, src.fileoff + off, n))
    } else {
        None
    }
}

// ---------------------------------------------------------------------------------------------
// building a case
// ---------------------------------------------------------------------------------------------

fn opt(n: Option<u64>) -> String {
    n.map(|x| x.to_string()).unwrap_or_else(|| "e".into())
}

fn build_case(bin: &Bin, note: &str, start: u32, size: u32, cont: bool) -> Vec<String> {
    let mut ops = vec![format!("note {note}")];
    ops.extend(bin.file_ops.iter().cloned());
    ops.push(format!("arch {}", bin.arch.unwrap_or("none")));
    ops.push(format!("req {start} {size} {}", cont as u8));
    let sym = if cont { lookup_symbol(bin, start) } else { None };
    ops.push(match sym {
        None => "sym none".to_string(),
        Some((a, n)) => format!("sym {a} {}", n.map(|x| x.to_string()).unwrap_or_else(|| "none".into())),
    });
    ops.push(format!("base {}", bin.base));
    for s in &bin.secs {
        ops.push(format!("sec {} {} {} {}", s.addr, s.size, s.fileoff, opt(s.datalen)));
    }
    for s in &bin.segs {
        ops.push(format!("seg {} {} {} {}", s.addr, s.size, s.fileoff, opt(s.datalen)));
    }
    match spec_slice(bin, start, size, cont, sym) {
        Some((rel, fo, n)) if (fo + n) as usize <= bin.bytes.len() => {
            let w = &bin.bytes[fo as usize..(fo + n) as usize];
            ops.push(format!("slice {rel} {n}"));
            ops.push(format!("win {fo} {}", hex(w)));
            let (o, r) = tables(bin.arch, w);
            ops.push(format!("oracle {o}"));
            ops.push(format!("ref {r}"));
        }
        _ => {
            ops.push("slice none".into());
            ops.push("win 0 -".into());
            ops.push("oracle -".into());
            ops.push("ref -".into());
        }
    }
    ops
}

fn slice_len(bin: &Bin, start: u32, size: u32, cont: bool) -> u64 {
    let sym = if cont { lookup_symbol(bin, start) } else { None };
    spec_slice(bin, start, size, cont, sym).map(|s| s.2).unwrap_or(0)
}

fn u32c(x: u64) -> u32 {
    x.min(u32::MAX as u64) as u32
}

/// relative address of an SVMA (clamped into u32)
fn rel_of(bin: &Bin, svma: u64) -> u32 {
    u32c(svma.saturating_sub(bin.base))
}

fn gen_size(rng: &mut Rng, remaining: u64) -> (u32, &'static str) {
    match rng.below(12) {
        0 => (0, "zero"),
        1 => (1, "one"),
        2..=4 => (rng.range(2, 16) as u32, "small"),
        5..=6 => (rng.range(17, 300) as u32, "medium"),
        7 => (u32c(remaining), "to-section-end"),
        8 => (u32c((remaining + rng.range(0, 30)).saturating_sub(15)), "around-section-end"),
        9 => (u32c(remaining + rng.range(1, 5000)), "beyond-section"),
        10 => (*rng.pick(&[0xffff_ffffu32, 0xffff_fff0, 0xffff_fff1, 0xffff_ffef, 0x8000_0000]), "huge"),
        _ => (rng.range(300, 3000) as u32, "large"),
    }
}

fn gen_fixture(rng: &mut Rng, bin: &Bin) -> Vec<String> {
    let exec: Vec<&Reg> = bin.secs.iter().filter(|s| s.exec && s.datalen.unwrap_or(0) > 0).collect();
    let data: Vec<&Reg> = bin.secs.iter().filter(|s| !s.exec && s.addr != 0 && s.datalen.unwrap_or(0) > 0).collect();
    let nobits: Vec<&Reg> = bin.secs.iter().filter(|s| s.addr != 0 && s.size > 0 && s.datalen == Some(0)).collect();
    let any: Vec<&Reg> = bin.secs.iter().filter(|s| s.addr != 0 && s.size > 0).collect();
    let (mut start, kind): (u32, &str) = match rng.below(12) {
        0..=2 if !bin.entries.is_empty() => (*rng.pick(&bin.entries), "fn-entry"),
        3 if !bin.entries.is_empty() => (rng.pick(&bin.entries).saturating_add(rng.range(1, 7) as u32), "fn-mid"),
        4 if !exec.is_empty() => {
            let s = rng.pick(&exec);
            (rel_of(bin, s.addr + rng.below(s.size)), "exec-random")
        }
        5 if !data.is_empty() => {
            let s = rng.pick(&data);
            (rel_of(bin, s.addr + rng.below(s.size)), "data-random")
        }
        6..=7 if !exec.is_empty() => {
            let s = rng.pick(&exec);
            (rel_of(bin, (s.addr + s.size).saturating_sub(rng.below(40))), "exec-end")
        }
        8 if !any.is_empty() => {
            let s = rng.pick(&any);
            (rel_of(bin, (s.addr + s.size + 2).saturating_sub(rng.below(24))), "section-end")
        }
        9 if !any.is_empty() => {
            let s = rng.pick(&any);
            (rel_of(bin, (s.addr + rng.below(4)).saturating_sub(rng.below(3))), "section-start")
        }
        10 if !nobits.is_empty() => {
            let s = rng.pick(&nobits);
            (rel_of(bin, s.addr + rng.below(s.size)), "nobits")
        }
        _ => match rng.below(4) {
            0 => (0, "outside"),
            1 => (u32::MAX - rng.below(8) as u32, "outside"),
            2 => (rng.next_u64() as u32, "outside"),
            _ if !exec.is_empty() => {
                let s = rng.pick(&exec);
                (rel_of(bin, (s.addr + s.size).saturating_sub(rng.range(1, 2500))), "exec-tail")
            }
            _ => (rng.below(0x10000) as u32, "outside"),
        },
    };
    if matches!(bin.arch, Some("arm") | Some("arm64")) && rng.chance(1, 3) {
        start = start.wrapping_add(rng.below(4) as u32); // unaligned / thumb-bit addresses
    }
    // remaining bytes of the containing section (for the size choices)
    let svma = bin.base + start as u64;
    let remaining = bin.secs.iter().find(|s| contains(s, svma)).map(|s| s.addr + s.size - svma).unwrap_or(64);
    let (mut size, mut skind) = gen_size(rng, remaining);
    let mut cont = rng.chance(1, 2);
    if slice_len(bin, start, size, cont) > MAX_SLICE {
        // keep listings small: large requests are exercised near section ends and on the synthetic files
        cont = false;
        if slice_len(bin, start, size, false) > MAX_SLICE {
            size = rng.range(0, 400) as u32;
            skind = "capped";
        }
    }
    build_case(bin, &format!("{kind} {skind}"), start, size, cont)
}

/// byte patterns that the decoders reject (found by probing; deterministic)
fn invalid_patterns(arch: &str) -> &'static Vec<Vec<u8>> {
    static P: OnceLock<HashMap<&'static str, Vec<Vec<u8>>>> = OnceLock::new();
    let m = P.get_or_init(|| {
        let mut m = HashMap::new();
        for a in ["x86", "x86_64", "arm", "arm64"] {
            let mut rng = Rng::new(0xC20);
            let mut v: Vec<Vec<u8>> = Vec::new();
            let unit = match a {
                "arm64" => 4,
                "arm" => 2,
                _ => 1,
            };
            let mut tries = 0;
            while v.len() < 24 && tries < 200_000 {
                tries += 1;
                let mut cand: Vec<u8> = (0..unit.max(if a.starts_with("x86") { 1 + rng.below(3) as usize } else { unit })).map(|_| rng.next_u64() as u8).collect();
                let keep = cand.len();
                cand.extend_from_slice(&[0u8; 16]);
                if probe_arch(a, &cand).0 == 'i' {
                    cand.truncate(keep);
                    if !v.contains(&cand) {
                        v.push(cand);
                    }
                }
            }
            m.insert(a, v);
        }
        m
    });
    &m[arch]
}

/// code bytes of the given architecture taken from a fixture (x86 borrows x86-64 code)
fn code_snippet(rng: &mut Rng, arch: &str, len: usize) -> Vec<u8> {
    let want = if arch == "x86" { "x86_64" } else { arch };
    let bins: Vec<&Bin> = fixtures().iter().filter(|b| b.arch == Some(want)).collect();
    if bins.is_empty() {
        return (0..len).map(|_| rng.next_u64() as u8).collect();
    }
    let b = *rng.pick(&bins);
    let exec: Vec<&Reg> = b.secs.iter().filter(|s| s.exec && s.datalen.unwrap_or(0) > len as u64 + 8).collect();
    if exec.is_empty() {
        return (0..len).map(|_| rng.next_u64() as u8).collect();
    }
    let s = rng.pick(&exec);
    let mut off = s.fileoff + rng.below(s.datalen.unwrap() - len as u64);
    if let Some(&e) = (!b.entries.is_empty()).then(|| rng.pick(&b.entries)) {
        // prefer a function entry inside this section
        let svma = b.base + e as u64;
        if contains(s, svma) && svma - s.addr + (len as u64) < s.datalen.unwrap() {
            off = s.fileoff + (svma - s.addr);
        }
    }
    b.bytes[off as usize..off as usize + len].to_vec()
}

fn gen_syn(rng: &mut Rng) -> Vec<String> {
    let (machine, arch) = *rng.pick(&[("386", "x86"), ("386", "x86"), ("x86_64", "x86_64"), ("arm", "arm"), ("arm", "arm"), ("aarch64", "arm64"), ("aarch64", "arm64"), ("riscv", "none")]);
    let vbase = *rng.pick(&[0u64, 0, 0x10000, 0x400000, 0x200000]);
    let textoff = *rng.pick(&[0x100u64, 0x234, 0x1000, 0x400]);
    let mut text: Vec<u8> = Vec::new();
    let target = rng.range(8, 360) as usize;
    let parch = if arch == "none" { "x86_64" } else { arch };
    while text.len() < target {
        match rng.below(6) {
            0..=2 => {
                let n = rng.range(4, 64) as usize;
                text.extend(code_snippet(rng, parch, n));
            }
            3 => {
                let n = rng.range(1, 24) as usize;
                text.extend((0..n).map(|_| rng.next_u64() as u8));
            }
            _ => {
                let pats = invalid_patterns(parch);
                if !pats.is_empty() {
                    for _ in 0..rng.range(1, 3) {
                        let p: &Vec<u8> = rng.pick(&pats[..]);
                        text.extend_from_slice(p);
                    }
                }
            }
        }
    }
    let data = if rng.chance(1, 2) {
        let n = rng.range(1, 40) as usize;
        Some((*rng.pick(&[0u64, 0, 1, 4, 16]), (0..n).map(|_| rng.next_u64() as u8).collect::<Vec<u8>>()))
    } else {
        None
    };
    let bss = if rng.chance(1, 3) { Some(rng.range(1, 64)) } else { None };
    let segmode = match rng.below(16) {
        0..=1 => "none".to_string(),
        2 => "long".to_string(),
        3 => format!("short:{}", rng.range(1, (text.len() as u64).min(40))),
        4 => format!("short:{}", rng.range(1, (text.len() as u64).min(40))),
        _ => "load".to_string(),
    };
    // functions: a partition of a prefix of the text
    let mut fsyms = Vec::new();
    let mut p = rng.below(8);
    while p < text.len() as u64 && fsyms.len() < 5 {
        let n = rng.range(0, 90).min(text.len() as u64 - p + rng.below(3));
        let thumb = if arch == "arm" && rng.chance(1, 2) { 1 } else { 0 };
        fsyms.push((textoff + p + thumb, if rng.chance(1, 6) { 0 } else { n }));
        p += n.max(1) + rng.below(6);
    }
    let syn = Syn { machine: machine.to_string(), vbase, textoff, segmode, text, data, bss, fsyms };
    let Some(bin) = build_syn(&syn) else { return vec!["note syn-build-failed".into()] };
    let tlen = syn.text.len() as u64;
    let end = textoff + tlen + syn.data.as_ref().map(|d| d.0 + d.1.len() as u64).unwrap_or(0) + syn.bss.unwrap_or(0);
    let (start, kind): (u64, &str) = match rng.below(10) {
        0..=1 => (textoff, "text-start"),
        2..=3 if !syn.fsyms.is_empty() => (rng.pick(&syn.fsyms).0 + rng.below(2) * rng.below(4), "fn-entry"),
        4..=6 => (textoff + rng.below(tlen), "text-random"),
        7 => ((textoff + tlen + 3).saturating_sub(rng.below(24)), "text-end"),
        8 => (textoff.saturating_sub(rng.below(6)) + rng.below(3), "text-before"),
        _ => (textoff + rng.below(end - textoff + 8), "anywhere"),
    };
    let remaining = (textoff + tlen).saturating_sub(start);
    let (size, skind) = gen_size(rng, remaining);
    let cont = rng.chance(1, 2);
    build_case(&bin, &format!("syn-{kind} {skind}"), u32c(start), size, cont)
}

/// Excluded point of `C20_read_no_panic` / `C20_query` (hypothesis `img.base + u32max ≤ u64max`): an object whose
/// relative-address base is within 4 GiB of 2^64, so that `image_base + start_address` can overflow `u64`
/// (binary_image.rs:247). Only generated when `VERIF_C20_EXCLUDED` is set; the recorded instances live in
/// `corpus/C20/excluded-hibase.ops.pending` (see notes/C20.md).
fn excluded_point(rng: &mut Rng) -> Vec<String> {
    let below = *rng.pick(&[0x10000u64, 0x1000, 0x7f00_0000, 0xffff_0000]);
    let vbase = 0u64.wrapping_sub(below);
    let text = code_snippet(rng, "x86_64", 32);
    let syn = Syn { machine: "x86_64".into(), vbase, textoff: 0x100, segmode: "load".into(), text, data: None, bss: None, fsyms: vec![(0x100, 32)] };
    let Some(bin) = build_syn(&syn) else { return vec!["note syn-build-failed".into()] };
    let start = match rng.below(5) {
        0 => 0x100,
        1 => below - 1,
        2 => below,
        3 => below + rng.below(0x100),
        _ => 0xffff_ffff,
    };
    build_case(&bin, "excluded-hibase small", u32c(start), rng.range(0, 40) as u32, rng.chance(1, 2))
}

// ---------------------------------------------------------------------------------------------
// executing a case against the real code
// ---------------------------------------------------------------------------------------------

fn bin_for_ops(ops: &[String]) -> Option<Bin> {
    for l in ops {
        let w: Vec<&str> = l.split_whitespace().collect();
        if let ["file", "fix", rel] = w.as_slice() {
            return fixture_by_path(rel).cloned();
        }
    }
    build_syn(&syn_from_ops(ops)?)
}

fn err_kind(msg: &str) -> &'static str {
    if msg.contains("not found in any section") {
        "err:notfound"
    } else if msg.contains("Could not read the requested address range from the section") {
        "err:range"
    } else if msg.contains("object parse error") {
        "err:parse"
    } else if msg.contains("Unrecognized architecture") {
        "err:arch"
    } else if msg.contains("loading the binary") {
        "err:load"
    } else {
        "err:other"
    }
}

fn parse_hex_u64(s: &str) -> Option<u64> {
    u64::from_str_radix(s.strip_prefix("0x")?, 16).ok()
}

impl Prop for C20 {
    fn id(&self) -> &'static str {
        "C20"
    }
    fn case_count(&self, tier: Tier) -> u64 {
        match tier {
            Tier::Quick => 3000,
            Tier::Thorough => 150000,
        }
    }
    fn fixed_cases(&self, tier: Tier) -> Vec<Case> {
        let mut v = Vec::new();
        // section ends of every fixture: starts end-k, sizes at and around the clamp, both continue flags
        for bin in fixtures() {
            let label = bin.file_ops[0].rsplit(' ').next().unwrap().replace('/', "_");
            for (si, s) in bin.secs.iter().filter(|s| s.exec && s.datalen.unwrap_or(0) > 0).take(2).enumerate() {
                for k in [0u64, 1, 2, 3, 4, 5, 8, 15, 16, 17] {
                    for size in [0u32, 1, 4, 16, 17, 0xffff_fff0, 0xffff_ffff] {
                        let start = rel_of(bin, s.addr + s.size - k);
                        let cont = (k + size as u64) % 2 == 1;
                        v.push(Case { name: format!("end-{label}-s{si}-k{k}-z{size}"), ops: build_case(bin, "fixed-exec-end fixed", start, size, cont) });
                    }
                }
            }
            // unaligned starts at the first function entries, with continuation
            for (i, &e) in bin.entries.iter().take(3).enumerate() {
                for d in 0u32..4 {
                    for size in [0u32, 2, 24] {
                        v.push(Case { name: format!("entry-{label}-{i}-d{d}-z{size}"), ops: build_case(bin, "fixed-fn-entry fixed", e + d, size, true) });
                    }
                }
            }
        }
        // one undecodable instruction in the middle of decodable ones, every architecture
        for (machine, arch) in [("386", "x86"), ("x86_64", "x86_64"), ("arm", "arm"), ("aarch64", "arm64")] {
            let pats = invalid_patterns(arch);
            let mut rng = Rng::new(20);
            for (pi, pat) in pats.iter().take(6).enumerate() {
                let mut text = code_snippet(&mut rng, arch, 16);
                text.extend_from_slice(pat);
                text.extend(code_snippet(&mut rng, arch, 24));
                let syn = Syn { machine: machine.into(), vbase: 0x10000, textoff: 0x100, segmode: "load".into(), text: text.clone(), data: None, bss: None, fsyms: vec![(0x100, text.len() as u64)] };
                if let Some(bin) = build_syn(&syn) {
                    for (start, size, cont) in [(0x100u32, 40u32, false), (0x110, 8, false), (0x110, 1, true), (0x100, 0, true), (0x101, 0xffff_ffff, false)] {
                        v.push(Case { name: format!("inv-{arch}-{pi}-{start}-{size}-{}", cont as u8), ops: build_case(&bin, "fixed-invalid fixed", start, size, cont) });
                    }
                }
            }
        }
        // exhaustive sweep over one short text per architecture (decodable code, an undecodable pattern, code):
        // every start from 3 bytes before the section to 3 bytes after it x boundary sizes x both continue flags
        for (machine, arch) in [("386", "x86"), ("x86_64", "x86_64"), ("arm", "arm"), ("aarch64", "arm64")] {
            let pats = invalid_patterns(arch);
            let mut rng = Rng::new(2020);
            let mut text = code_snippet(&mut rng, arch, 12);
            if let Some(p) = pats.first() {
                text.extend_from_slice(p);
            }
            text.extend(code_snippet(&mut rng, arch, 16));
            if let Some(p) = pats.get(1) {
                text.extend_from_slice(p);
            }
            let tlen = text.len() as u32;
            let syn = Syn {
                machine: machine.into(),
                vbase: 0x400000,
                textoff: 0x100,
                segmode: "load".into(),
                text,
                data: Some((0, vec![0x90, 0x00, 0xff, 0x1f, 0x20, 0x03, 0xd5, 0xc3])),
                bss: Some(8),
                fsyms: vec![(0x100, 13), (0x100 + 13 + if arch == "arm" { 1 } else { 0 }, (tlen - 13) as u64)],
            };
            let sizes: &[u32] = if tier == Tier::Quick { &[0, 1, 2, 3, 5, 13, 40, 0xffff_ffff] } else { &[0, 1, 2, 3, 4, 5, 6, 7, 8, 12, 13, 14, 16, 24, 32, 40, 47, 0xffff_fff0, 0xffff_fff1, 0xffff_ffff] };
            if let Some(bin) = build_syn(&syn) {
                for start in 0x100 - 3..=0x100 + tlen + 8 + 3 {
                    for &size in sizes {
                        for cont in [false, true] {
                            v.push(Case { name: format!("sweep-{arch}-{start}-{size}-{}", cont as u8), ops: build_case(&bin, "sweep sweep", start, size, cont) });
                        }
                    }
                }
            }
        }
        v
    }
    fn generate(&self, rng: &mut Rng, _tier: Tier, _index: u64) -> Vec<String> {
        if std::env::var("VERIF_C20_EXCLUDED").is_ok() && rng.chance(1, 20) {
            return excluded_point(rng);
        }
        let fx = fixtures();
        if fx.is_empty() || rng.chance(2, 5) {
            gen_syn(rng)
        } else {
            let bin = &fx[rng.below(fx.len() as u64) as usize];
            gen_fixture(rng, bin)
        }
    }
    fn execute(&self, ops: &[String], stats: &mut Stats) -> Vec<String> {
        let Some(bin) = bin_for_ops(ops) else {
            stats.bump("no_binary");
            return vec!["err:nobinary".into()];
        };
        let mut req: Option<(u32, u32, bool)> = None;
        for l in ops {
            let w: Vec<&str> = l.split_whitespace().collect();
            match w.as_slice() {
                ["req", a, s, c] => req = Some((a.parse().unwrap_or(0), s.parse().unwrap_or(0), *c == "1")),
                ["note", k, z] => {
                    stats.bump(&format!("start_{k}"));
                    stats.bump(&format!("size_{z}"));
                }
                _ => {}
            }
        }
        let Some((start, size, cont)) = req else { return vec!["bad-op".into()] };
        let arch = bin.arch.unwrap_or("none");
        stats.bump(&format!("arch_{arch}"));
        if cont {
            stats.bump("continue_until_function_end");
        }
        let body = serde_json::json!({
            "name": bin.name, "debugName": bin.name, "debugId": bin.debug_id,
            "startAddress": format!("{start:#x}"), "size": format!("{size:#x}"),
            "continueUntilFunctionEnd": cont,
        })
        .to_string();
        let m = manager(&bin);
        let r = catch_unwind(AssertUnwindSafe(|| {
            let api = samply_api::Api::new(&m);
            futures::executor::block_on(api.query_api("/asm/v1", &body))
        }));
        let Ok(text) = r else {
            stats.bump("outcome_panic");
            return vec!["panic".into()];
        };
        let v: serde_json::Value = match serde_json::from_str(&text) {
            Ok(v) => v,
            Err(_) => return vec!["err:badjson".into()],
        };
        if let Some(e) = v.get("error").and_then(|e| e.as_str()) {
            let k = err_kind(e);
            stats.bump(&format!("outcome_{k}"));
            return vec![k.to_string()];
        }
        let sa = v["startAddress"].as_str().and_then(parse_hex_u64);
        let sz = v["size"].as_str().and_then(parse_hex_u64);
        let (Some(sa), Some(sz), Some(name), Some(ins)) = (sa, sz, v["arch"].as_str(), v["instructions"].as_array()) else {
            return vec!["err:badjson".into()];
        };
        let mut offs = Vec::new();
        let mut bad = Vec::new();
        let mut fps = Vec::new();
        for i in ins {
            let off = i[0].as_u64().unwrap_or(u64::MAX);
            let t = i[1].as_str().unwrap_or("");
            if t.starts_with(".byte") && t.contains("# Invalid instruction") {
                offs.push(format!("{off}!"));
                let h: String = t
                    .split("Invalid instruction")
                    .nth(1)
                    .unwrap_or("")
                    .split(':')
                    .next()
                    .unwrap_or("")
                    .split_whitespace()
                    .map(|b| b.to_ascii_lowercase())
                    .collect();
                bad.push(if h.is_empty() { "-".to_string() } else { h });
            } else {
                offs.push(off.to_string());
                fps.push(fingerprint(arch, t));
            }
        }
        stats.bump("outcome_resp");
        stats.bump(match ins.len() {
            0 => "listing_0",
            1..=4 => "listing_1-4",
            5..=40 => "listing_5-40",
            41..=400 => "listing_41-400",
            _ => "listing_400+",
        });
        if !bad.is_empty() {
            stats.bump("listing_with_invalid");
            stats.add("invalid_instructions", bad.len() as u64);
        }
        stats.add("instructions", ins.len() as u64);
        let join = |v: &Vec<String>| if v.is_empty() { "-".to_string() } else { v.join(" ") };
        vec![format!("resp {sa} {sz} {name}"), format!("offs {}", join(&offs)), format!("bad {}", join(&bad)), format!("fp {}", join(&fps))]
    }
    /// a decode loop that never ends or allocates without bound must become the outcome of one case
    fn isolate(&self) -> Option<(u64, u64)> {
        Some((15, 8192))
    }
    fn nontrivial(&self, _ops: &[String], out: &[String]) -> bool {
        out.len() == 4 && out[0].starts_with("resp") && out[1] != "offs -"
    }
}

fn main() {
    verif_harness::runner::run_main(&C20);
}
