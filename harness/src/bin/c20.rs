//! C20 — drives the real `/asm/v1` (`samply_api::Api::query_api`) in-process on the repository's x86-64, ARM
//! and AArch64 fixtures and on small synthetic ELF files (x86, x86-64, ARM, AArch64, unknown machine) whose
//! code bytes are part of the case.
//!
//! ops (all numbers decimal):
//!   note <start-kind> <size-kind>            generator bookkeeping (ignored by model and judge)
//!   file fix <path under fixtures/>          | file syn <machine> <vbase> <textoff> <load|none|short:N|long|off:K>
//!   | file fixp <path> <offset> <u32>          the fixture with one little-endian u32 patched in memory (Mach-O cpusubtype / cputype)
//!   | file fat <path> <member index>           one member of a fat Mach-O fixture (the code is served the whole archive)
//!   | file jit <elf machine>                   a generated JITDUMP file
//!   text <hex> / data <gap> <hex> / bss <n> / fsym <relvalue> <size>      (synthetic ELF files only)
//!   bsym <func|public> <rel> <size>          (synthetic ELF only) records of a Breakpad .sym served as the debug file
//!   rec <namelen> <hex code> / skip <kind> <len>                          (JITDUMP only: code-load records / other records)
//!   member <start> <size>                    (fat only, informational) file range of the member
//!   arch <string|none>                       what `BinaryImage::arch()` returns for the loaded binary (observed)
//!   truearch <x86|x86_64|arm|arm64|none>     architecture per the object's own header (harness's parse; JITDUMP: the generator's)
//!   fpmode full                              the `fp` / `ref` fingerprints are of the whole instruction text on every architecture
//!   pre <start> <size> <cont>                requests run before `req` on the same SymbolManager (output discarded)
//!   req <start> <size> <cont>                the request
//!   kind jit / jent <rel> <codeoff> <codelen> / flen <n>     (JITDUMP only) the index as the writer laid it out
//!   sym none | sym <addr> <size|none>        symbol found by a direct lookup of <start> (only when cont=1)
//!   base <n>                                 relative-address base of the object
//!   sec <addr> <size> <fileoff> <datalen|e>  every section, in object order
//!   seg <addr> <size> <fileoff> <datalen|e>  every segment, in object order
//!   slice none | slice <rel> <len>           specification-side: aligned start and number of bytes to decode
//!   win <fileoff> <hex>                      the file bytes of that slice, read directly from the file
//!   oracle <chars>                           per slice offset 0..=len: 1-f = decodes to that length,
//!                                            x = input exhausted, i = invalid  (same yaxpeax decoders)
//!   ref <tokens>                             per slice offset: fingerprint of the decoded text, or `-`
//! out:
//!   resp <startAddress> <size> <arch>        then `offs <o>[!] …`, `bad <hex> …`, `fp <h> …`
//!   | err:<notfound|range|parse|arch|io|load|other> | panic
use std::collections::HashMap;
use std::panic::{catch_unwind, AssertUnwindSafe};
use std::sync::{Arc, OnceLock};

use samply_symbols::object::{self, Object, ObjectSection, ObjectSegment};
use samply_symbols::{
    CandidatePathInfo, FileAndPathHelper, FileAndPathHelperResult, FileLocation, LibraryInfo, LookupAddress,
    OptionallySendFuture, SymbolManager,
};
use verif_harness::common::*;
use verif_harness::gen::elf::*;
use yaxpeax_arch::{Arch, DecodeError, Decoder, LengthedInstruction, Reader, U8Reader};

pub struct C20;

const MAX_SLICE: u64 = 6000;

// ---------------------------------------------------------------------------------------------
// file access for the SymbolManager: everything is served from memory
// ---------------------------------------------------------------------------------------------

#[derive(Clone)]
struct Loc(String);
impl std::fmt::Display for Loc {
    fn fmt(&self, f: &mut std::fmt::Formatter<'_>) -> std::fmt::Result {
        write!(f, "{}", self.0)
    }
}
impl FileLocation for Loc {
    fn location_for_dyld_subcache(&self, _: &str) -> Option<Self> {
        None
    }
    fn location_for_external_object_file(&self, _: &str) -> Option<Self> {
        None
    }
    fn location_for_pdb_from_binary(&self, _: &str) -> Option<Self> {
        None
    }
    fn location_for_source_file(&self, _: &str) -> Option<Self> {
        None
    }
    fn location_for_breakpad_symindex(&self) -> Option<Self> {
        None
    }
    fn location_for_dwo(&self, _: &str, _: &str) -> Option<Self> {
        None
    }
    fn location_for_dwp(&self) -> Option<Self> {
        None
    }
}

struct Helper {
    name: String,
    bytes: Arc<[u8]>,
    /// a Breakpad symbol file offered as the first candidate for the debug file
    sym: Option<Arc<[u8]>>,
}

const SYM_NAME: &str = "syn.so.sym";
impl FileAndPathHelper for Helper {
    type F = Arc<[u8]>;
    type FL = Loc;
    fn get_candidate_paths_for_debug_file(&self, info: &LibraryInfo) -> FileAndPathHelperResult<Vec<CandidatePathInfo<Loc>>> {
        let mut v = Vec::new();
        if self.sym.is_some() {
            v.push(CandidatePathInfo::SingleFile(Loc(SYM_NAME.to_string())));
        }
        if let Some(n) = &info.debug_name {
            v.push(CandidatePathInfo::SingleFile(Loc(n.clone())));
        }
        Ok(v)
    }
    fn get_candidate_paths_for_binary(&self, info: &LibraryInfo) -> FileAndPathHelperResult<Vec<CandidatePathInfo<Loc>>> {
        Ok(match &info.name {
            Some(n) => vec![CandidatePathInfo::SingleFile(Loc(n.clone()))],
            None => vec![],
        })
    }
    fn get_dyld_shared_cache_paths(&self, _: Option<&str>) -> FileAndPathHelperResult<Vec<Loc>> {
        Ok(vec![])
    }
    fn load_file(&self, l: Loc) -> std::pin::Pin<Box<dyn OptionallySendFuture<Output = FileAndPathHelperResult<Arc<[u8]>>> + '_>> {
        let r: FileAndPathHelperResult<Arc<[u8]>> = if l.0 == self.name {
            Ok(self.bytes.clone())
        } else if let (true, Some(b)) = (l.0 == SYM_NAME, &self.sym) {
            Ok(b.clone())
        } else {
            Err(Box::new(std::io::Error::new(std::io::ErrorKind::NotFound, "no such file")))
        };
        Box::pin(async move { r })
    }
}

// ---------------------------------------------------------------------------------------------
// the harness's own view of a binary
// ---------------------------------------------------------------------------------------------

#[derive(Clone, Debug)]
struct Reg {
    addr: u64,
    size: u64,
    fileoff: u64,
    datalen: Option<u64>,
    exec: bool,
}

#[derive(Clone, Debug)]
struct JitRec {
    rel: u32,
    codeoff: u64,
    code: Vec<u8>,
}

#[derive(Clone)]
struct Bin {
    /// the `file …` op lines that identify / reconstruct the binary
    file_ops: Vec<String>,
    name: String,
    /// what the helper serves to samply (the whole file)
    serve: Arc<[u8]>,
    /// the object's own bytes: `serve`, or the member's range of a fat archive (file offsets are relative to it)
    bytes: Arc<[u8]>,
    member: Option<(u64, u64)>,
    debug_id: String,
    /// architecture per the object's header (specification side, also selects the oracle's decoder)
    arch: Option<&'static str>,
    /// `BinaryImage::arch()` of the binary as loaded by the code under test
    code_arch: Option<String>,
    /// synthetic ELF: the SVMA ranges whose bytes the generator chose (ground truth for the window)
    truth: Vec<(u64, Vec<u8>)>,
    /// JITDUMP: the code-load records as written
    jit: Option<Vec<JitRec>>,
    /// synthetic ELF: a Breakpad symbol file that the helper offers as the debug file (symbols then come from it:
    /// the last PUBLIC has no size, a FUNC may end beyond 2^32)
    symfile: Option<Arc<[u8]>>,
    base: u64,
    secs: Vec<Reg>,
    segs: Vec<Reg>,
    /// function entry addresses (relative), fixtures only
    entries: Vec<u32>,
}

fn arch_of(a: object::Architecture) -> Option<&'static str> {
    match a {
        object::Architecture::Arm => Some("arm"),
        object::Architecture::Aarch64 => Some("arm64"),
        object::Architecture::I386 => Some("x86"),
        object::Architecture::X86_64 => Some("x86_64"),
        _ => None,
    }
}

fn parse_bin(file_ops: Vec<String>, name: &str, serve: Arc<[u8]>, member: Option<(u64, u64)>) -> Option<Bin> {
    let bytes: Arc<[u8]> = match member {
        Some((a, n)) => Arc::from(serve.get(a as usize..(a + n) as usize)?),
        None => serve.clone(),
    };
    let obj = object::File::parse(&*bytes).ok()?;
    let debug_id = samply_symbols::debug_id_for_object(&obj)?.breakpad().to_string();
    let base = samply_symbols::relative_address_base(&obj);
    let mut secs = Vec::new();
    for s in obj.sections() {
        let (fileoff, _) = s.file_range().unwrap_or((0, 0));
        secs.push(Reg {
            addr: s.address(),
            size: s.size(),
            fileoff,
            datalen: s.data().ok().map(|d| d.len() as u64),
            exec: s.kind() == object::SectionKind::Text,
        });
    }
    let mut segs = Vec::new();
    for s in obj.segments() {
        let (fileoff, _) = s.file_range();
        segs.push(Reg { addr: s.address(), size: s.size(), fileoff, datalen: s.data().ok().map(|d| d.len() as u64), exec: false });
    }
    let arch = arch_of(obj.architecture());
    drop(obj);
    let mut bin = Bin { file_ops, name: name.to_string(), serve, bytes, member, debug_id, arch, code_arch: None, truth: Vec::new(), jit: None, symfile: None, base, secs, segs, entries: Vec::new() };
    bin.code_arch = observe_arch(&bin);
    Some(bin)
}

/// `BinaryImage::arch()` of the binary as the code under test loads it (same `load_binary` call as `query_api`)
fn observe_arch(bin: &Bin) -> Option<String> {
    let m = manager(bin);
    let r = catch_unwind(AssertUnwindSafe(|| futures::executor::block_on(m.load_binary(&library_info(bin)))));
    match r {
        Ok(Ok(img)) => img.arch().map(|s| s.to_string()),
        _ => None,
    }
}

fn library_info(bin: &Bin) -> LibraryInfo {
    LibraryInfo {
        name: Some(bin.name.clone()),
        debug_name: Some(bin.name.clone()),
        debug_id: samply_symbols::debugid::DebugId::from_breakpad(&bin.debug_id).ok(),
        ..Default::default()
    }
}

fn manager(bin: &Bin) -> SymbolManager<Helper> {
    SymbolManager::with_helper(Helper { name: bin.name.clone(), bytes: bin.serve.clone(), sym: bin.symfile.clone() })
}

/// direct symbol lookup (what `get_function_end_address` consults): address and size of the symbol at `addr`
fn lookup_symbol(bin: &Bin, addr: u32) -> Option<(u32, Option<u32>)> {
    let m = manager(bin);
    let map = futures::executor::block_on(m.load_symbol_map(&library_info(bin))).ok()?;
    let r = map.lookup_sync(LookupAddress::Relative(addr))?;
    Some((r.symbol.address, r.symbol.size))
}

const FIXTURES: &[&str] = &[
    "win64-ci/firefox.exe",
    "win64-ci/softokn3.dll",
    "win64-local/mozglue.dll",
    "linux64-ci/firefox",
    "other/example-linux",
    "macos-local/firefox",
    "macos-ci/libsoftokn3.dylib",
    "android32-local/libsoftokn3.so",
    "other/ls-linux/ls",
    "other/simple-example/out/with-dwp/main",
    "other/simple-example/out/mac-dsym/main",
];

/// Variants of fixtures: Mach-O headers with another `cpusubtype` (offset 8) / `cputype` (offset 4), so that
/// `BinaryImage::arch()` yields the aliases `arm64e`, `x86_64h` and the names the API does not know
/// (`arm64v8`, `i386`), and the two members of the fat archive `macos-ci/firefox`.
const VARIANTS: &[&str] = &[
    "file fixp other/simple-example/out/mac-dsym/main 8 2",          // CPU_SUBTYPE_ARM64E
    "file fixp other/simple-example/out/mac-dsym/main 8 2147483650", // arm64e with the ptrauth ABI bits (0x80000002)
    "file fixp other/simple-example/out/mac-dsym/main 8 1",          // CPU_SUBTYPE_ARM64_V8
    "file fixp macos-local/firefox 8 8",                             // CPU_SUBTYPE_X86_64_H
    "file fixp macos-ci/libsoftokn3.dylib 8 8",
    "file fixp macos-local/firefox 4 7",                             // CPU_TYPE_X86 ("i386")
    "file fat macos-ci/firefox 0",
    "file fat macos-ci/firefox 1",
];

fn repo_dir() -> std::path::PathBuf {
    if let Ok(r) = std::env::var("VERIF_REPO") {
        return r.into();
    }
    if let Ok(r) = std::env::var("VERIF_ROOT") {
        return std::path::Path::new(&r).join("repo-link");
    }
    std::path::Path::new(env!("CARGO_MANIFEST_DIR")).join("../repo-link")
}

/// the harness's own reading of a fat Mach-O header (big-endian `fat_header` + `fat_arch[]`): (offset, size) per member
fn fat_members(data: &[u8]) -> Vec<(u64, u64)> {
    let be = |o: usize| data.get(o..o + 4).map(|b| u32::from_be_bytes([b[0], b[1], b[2], b[3]]));
    let mut v = Vec::new();
    if be(0) != Some(0xcafe_babe) {
        return v;
    }
    let n = be(4).unwrap_or(0).min(16) as usize;
    for k in 0..n {
        let o = 8 + 20 * k;
        if let (Some(off), Some(size)) = (be(o + 8), be(o + 12)) {
            v.push((off as u64, size as u64));
        }
    }
    v
}

/// loads the binary a `file fix|fixp|fat …` line describes
fn load_fixture(op: &str, with_entries: bool) -> Option<Bin> {
    let w: Vec<&str> = op.split_whitespace().collect();
    let (rel, patch, member_index): (&str, Option<(usize, u32)>, Option<usize>) = match w.as_slice() {
        ["file", "fix", rel] => (rel, None, None),
        ["file", "fixp", rel, off, val] => (rel, Some((off.parse().ok()?, val.parse().ok()?)), None),
        ["file", "fat", rel, k] => (rel, None, Some(k.parse().ok()?)),
        _ => return None,
    };
    let p = repo_dir().join("fixtures").join(rel);
    let mut data = std::fs::read(&p).ok()?;
    if data.is_empty() {
        return None; // emptied in this sandbox
    }
    if let Some((off, val)) = patch {
        data.get_mut(off..off + 4)?.copy_from_slice(&val.to_le_bytes());
    }
    let member = match member_index {
        Some(k) => Some(*fat_members(&data).get(k)?),
        None => None,
    };
    let name = rel.rsplit('/').next().unwrap().to_string();
    let mut bin = parse_bin(vec![op.to_string()], &name, Arc::from(data), member)?;
    if with_entries {
        // function entries from the symbol map
        let m = manager(&bin);
        if let Ok(map) = futures::executor::block_on(m.load_symbol_map(&library_info(&bin))) {
            let mut e: Vec<u32> = map.iter_symbols().map(|(a, _)| a).collect();
            e.sort();
            e.dedup();
            bin.entries = e;
        }
    }
    Some(bin)
}

/// all fixtures and variants, with their function entries (generator side only)
fn fixtures() -> &'static Vec<Bin> {
    static F: OnceLock<Vec<Bin>> = OnceLock::new();
    F.get_or_init(|| {
        let mut v = Vec::new();
        for rel in FIXTURES {
            if let Some(bin) = load_fixture(&format!("file fix {rel}"), true) {
                v.push(bin);
            }
        }
        for op in VARIANTS {
            if let Some(bin) = load_fixture(op, true) {
                v.push(bin);
            }
        }
        v
    })
}

/// the binary of one `file fix|fixp|fat` line (executor side: loads only that file, once per process)
fn fixture_by_op(op: &str) -> Option<Bin> {
    static C: OnceLock<std::sync::Mutex<HashMap<String, Option<Bin>>>> = OnceLock::new();
    let c = C.get_or_init(|| std::sync::Mutex::new(HashMap::new()));
    let key = op.split_whitespace().collect::<Vec<_>>().join(" ");
    if let Some(b) = c.lock().unwrap().get(&key) {
        return b.clone();
    }
    let b = load_fixture(&key, false);
    c.lock().unwrap().insert(key, b.clone());
    b
}

// ---------------------------------------------------------------------------------------------
// synthetic ELF files described by op lines
// ---------------------------------------------------------------------------------------------

#[derive(Clone, Debug, Default)]
struct Syn {
    machine: String,
    vbase: u64,
    textoff: u64,
    segmode: String,
    text: Vec<u8>,
    data: Option<(u64, Vec<u8>)>,
    bss: Option<u64>,
    fsyms: Vec<(u64, u64)>,
    /// Breakpad records `(is_func, relative address, size)` of a symbol file served as the debug file
    bsyms: Vec<(bool, u64, u64)>,
}

fn syn_ops(s: &Syn) -> Vec<String> {
    let mut v = vec![format!("file syn {} {} {} {}", s.machine, s.vbase, s.textoff, s.segmode), format!("text {}", hex(&s.text))];
    if let Some((gap, d)) = &s.data {
        v.push(format!("data {gap} {}", hex(d)));
    }
    if let Some(n) = s.bss {
        v.push(format!("bss {n}"));
    }
    for (a, n) in &s.fsyms {
        v.push(format!("fsym {a} {n}"));
    }
    for (f, a, n) in &s.bsyms {
        v.push(format!("bsym {} {a} {n}", if *f { "func" } else { "public" }));
    }
    v
}

fn syn_from_ops(ops: &[String]) -> Option<Syn> {
    let mut s = Syn::default();
    let mut seen = false;
    for l in ops {
        let w: Vec<&str> = l.split_whitespace().collect();
        match w.as_slice() {
            ["file", "syn", m, vbase, textoff, segmode] => {
                s.machine = m.to_string();
                s.vbase = vbase.parse().ok()?;
                s.textoff = textoff.parse().ok()?;
                s.segmode = segmode.to_string();
                seen = true;
            }
            ["text", h] => s.text = unhex(h),
            ["data", gap, h] => s.data = Some((gap.parse().ok()?, unhex(h))),
            ["bss", n] => s.bss = Some(n.parse().ok()?),
            ["fsym", a, n] => s.fsyms.push((a.parse().ok()?, n.parse().ok()?)),
            ["bsym", k, a, n] => s.bsyms.push((*k == "func", a.parse().ok()?, n.parse().ok()?)),
            _ => {}
        }
    }
    if seen {
        Some(s)
    } else {
        None
    }
}

fn build_syn(s: &Syn) -> Option<Bin> {
    let (machine, is64) = match s.machine.as_str() {
        "386" => (EM_386, false),
        "x86_64" => (EM_X86_64, true),
        "arm" => (EM_ARM, false),
        "aarch64" => (EM_AARCH64, true),
        "riscv" => (EM_RISCV, true),
        _ => return None,
    };
    // `off:K`: the PT_LOAD starts at file offset K, so that file offset = relative address + K (not the identity)
    let shift: u64 = match s.segmode.strip_prefix("off:") {
        Some(k) => k.parse().ok()?,
        None => 0,
    };
    let text_addr = s.vbase + s.textoff;
    let mut sections = vec![ElfSection::progbits(".text", text_addr, s.text.clone(), true).at_offset(shift + s.textoff)];
    let mut end_addr = text_addr + s.text.len() as u64;
    let mut end_off = shift + s.textoff + s.text.len() as u64;
    if let Some((gap, d)) = &s.data {
        sections.push(ElfSection::progbits(".rodata", end_addr + gap, d.clone(), false).at_offset(end_off + gap));
        end_addr += gap + d.len() as u64;
        end_off += gap + d.len() as u64;
    }
    if let Some(n) = s.bss {
        sections.push(ElfSection::nobits(".bss", end_addr, n).at_offset(end_off));
    }
    let segments = if s.segmode == "none" {
        Segments::None
    } else if let Some(n) = s.segmode.strip_prefix("short:") {
        let cut: u64 = n.parse().ok()?;
        // the PT_LOAD's file data ends `cut` bytes before the end of .text
        let filesz = (s.textoff + s.text.len() as u64).saturating_sub(cut);
        Segments::Explicit(vec![ElfSegment { p_type: PT_LOAD, flags: PF_R | PF_X, offset: 0, vaddr: s.vbase, filesz, memsz: end_addr - s.vbase + s.bss.unwrap_or(0), align: 0x1000 }])
    } else if shift != 0 {
        Segments::Explicit(vec![ElfSegment { p_type: PT_LOAD, flags: PF_R | PF_X, offset: shift, vaddr: s.vbase, filesz: end_off - shift, memsz: end_addr - s.vbase + s.bss.unwrap_or(0), align: 0x1000 }])
    } else if s.segmode == "long" {
        // the PT_LOAD claims file data far beyond the end of the file: `segment.data()` fails
        Segments::Explicit(vec![ElfSegment { p_type: PT_LOAD, flags: PF_R | PF_X, offset: 0, vaddr: s.vbase, filesz: 1 << 20, memsz: 1 << 20, align: 0x1000 }])
    } else {
        Segments::Auto { vbase: s.vbase }
    };
    let symbols = s
        .fsyms
        .iter()
        .enumerate()
        .map(|(i, (a, n))| ElfSymbol::func(&format!("f{i}"), s.vbase + a, *n, 0))
        .collect();
    let spec = ElfSpec {
        is64,
        machine,
        e_type: if s.vbase == 0 { ET_DYN } else { ET_EXEC },
        entry: text_addr,
        e_flags: if machine == EM_ARM { 0x0500_0000 } else { 0 },
        sections,
        symbols,
        build_id: Some((0u8..20).map(|i| i.wrapping_mul(7).wrapping_add(s.text.len() as u8)).collect()),
        segments,
    };
    let f = write_elf(&spec);
    let mut bin = parse_bin(syn_ops(s), "syn.so", Arc::from(f.bytes), None)?;
    bin.truth.push((text_addr, s.text.clone()));
    if let Some((gap, d)) = &s.data {
        bin.truth.push((text_addr + s.text.len() as u64 + gap, d.clone()));
    }
    if !s.bsyms.is_empty() {
        let mut t = format!("MODULE Linux x86_64 {} syn.so\n", bin.debug_id);
        for (k, (f, a, n)) in s.bsyms.iter().enumerate() {
            if *f {
                t.push_str(&format!("FUNC {a:x} {n:x} 0 bf{k}\n"));
            } else {
                t.push_str(&format!("PUBLIC {a:x} 0 bp{k}\n"));
            }
        }
        bin.symfile = Some(Arc::from(t.into_bytes()));
    }
    Some(bin)
}

// ---------------------------------------------------------------------------------------------
// JITDUMP files described by op lines
// ---------------------------------------------------------------------------------------------

#[derive(Clone, Debug)]
enum JitItem {
    /// JIT_CODE_LOAD with a function name of `namelen` characters and these code bytes
    Rec { namelen: usize, code: Vec<u8> },
    /// a record of another type (1 = CODE_MOVE, 2 = CODE_DEBUG_INFO, 4 = CODE_UNWINDING_INFO) with `len` body bytes
    Skip { kind: u32, len: usize },
}

#[derive(Clone, Debug, Default)]
struct JitSpec {
    machine: u32,
    items: Vec<JitItem>,
}

fn jit_ops(j: &JitSpec) -> Vec<String> {
    let mut v = vec![format!("file jit {}", j.machine)];
    for it in &j.items {
        match it {
            JitItem::Rec { namelen, code } => v.push(format!("rec {namelen} {}", if code.is_empty() { "-".to_string() } else { hex(code) })),
            JitItem::Skip { kind, len } => v.push(format!("skip {kind} {len}")),
        }
    }
    v
}

fn jit_from_ops(ops: &[String]) -> Option<JitSpec> {
    let mut j = JitSpec::default();
    let mut seen = false;
    for l in ops {
        let w: Vec<&str> = l.split_whitespace().collect();
        match w.as_slice() {
            ["file", "jit", m] => {
                j.machine = m.parse().ok()?;
                seen = true;
            }
            ["rec", n, h] => j.items.push(JitItem::Rec { namelen: n.parse().ok()?, code: if *h == "-" { Vec::new() } else { unhex(h) } }),
            ["skip", k, n] => j.items.push(JitItem::Skip { kind: k.parse().ok()?, len: n.parse().ok()? }),
            _ => {}
        }
    }
    seen.then_some(j)
}

/// writes the dump; returns the bytes and, per code-load record, where its code bytes were put
fn write_jit(j: &JitSpec) -> (Vec<u8>, Vec<JitRec>) {
    let mut out = Vec::new();
    out.extend_from_slice(&0x4A69_5444u32.to_le_bytes());
    out.extend_from_slice(&1u32.to_le_bytes());
    out.extend_from_slice(&40u32.to_le_bytes());
    out.extend_from_slice(&j.machine.to_le_bytes());
    out.extend_from_slice(&0u32.to_le_bytes());
    out.extend_from_slice(&4711u32.to_le_bytes());
    out.extend_from_slice(&(123_456_789u64 + j.machine as u64).to_le_bytes());
    out.extend_from_slice(&0u64.to_le_bytes());
    let mut recs = Vec::new();
    let mut rel = 0u32;
    let mut index = 0u64;
    for it in &j.items {
        match it {
            JitItem::Rec { namelen, code } => {
                let total = 16 + 40 + namelen + 1 + code.len();
                out.extend_from_slice(&0u32.to_le_bytes());
                out.extend_from_slice(&(total as u32).to_le_bytes());
                out.extend_from_slice(&(1000 + index).to_le_bytes());
                out.extend_from_slice(&4711u32.to_le_bytes());
                out.extend_from_slice(&4711u32.to_le_bytes());
                out.extend_from_slice(&(0x7000_0000u64 + index * 0x1000).to_le_bytes());
                out.extend_from_slice(&(0x7000_0000u64 + index * 0x1000).to_le_bytes());
                out.extend_from_slice(&(code.len() as u64).to_le_bytes());
                out.extend_from_slice(&index.to_le_bytes());
                out.extend((0..*namelen).map(|k| b'a' + (k % 26) as u8));
                out.push(0);
                recs.push(JitRec { rel, codeoff: out.len() as u64, code: code.clone() });
                out.extend_from_slice(code);
                rel += code.len() as u32;
                index += 1;
            }
            JitItem::Skip { kind, len } => {
                // A JIT_CODE_DEBUG_INFO record is parsed when the following function is looked up: keep it
                // well-formed (code_addr = 0, nr_entry = 0, zero padding). A garbage body makes
                // linux-perf-data's `JitCodeDebugInfoRecord::parse` call `Vec::with_capacity(nr_entry)` with the
                // untrusted count and panic with "capacity overflow" (noted in notes/C20.md; C08 territory).
                let (len, fill) = if *kind == 2 { ((*len).max(16), 0u8) } else { (*len, 0xccu8) };
                out.extend_from_slice(&kind.to_le_bytes());
                out.extend_from_slice(&((16 + len) as u32).to_le_bytes());
                out.extend_from_slice(&(1000 + index).to_le_bytes());
                out.extend(std::iter::repeat(fill).take(len));
            }
        }
    }
    (out, recs)
}

fn build_jit(j: &JitSpec) -> Option<Bin> {
    let (bytes, recs) = write_jit(j);
    let serve: Arc<[u8]> = Arc::from(bytes);
    let name = "jit-4711.dump".to_string();
    // identity of the dump as the code computes it (debug id from pid / timestamp / machine)
    let m = SymbolManager::with_helper(Helper { name: name.clone(), bytes: serve.clone(), sym: None });
    let img = futures::executor::block_on(m.load_binary_at_location(Loc(name.clone()), Some(name.clone()), None, None)).ok()?;
    let debug_id = img.debug_id()?.breakpad().to_string();
    let code_arch = img.arch().map(|s| s.to_string());
    drop(img);
    let arch = match j.machine {
        62 => Some("x86_64"),
        3 => Some("x86"),
        40 => Some("arm"),
        183 => Some("arm64"),
        _ => None,
    };
    let entries = recs.iter().map(|r| r.rel).collect();
    Some(Bin { file_ops: jit_ops(j), name, serve: serve.clone(), bytes: serve, member: None, debug_id, arch, code_arch, truth: Vec::new(), jit: Some(recs), symfile: None, base: 0, secs: Vec::new(), segs: Vec::new(), entries })
}

// ---------------------------------------------------------------------------------------------
// the decoder oracle: the same yaxpeax decoders as asm/mod.rs, run on a fresh reader per position
// ---------------------------------------------------------------------------------------------

/// `show` returns the instruction's text and its own `len()`; the oracle's length is the reader's advance
/// (what mod.rs:375-380 uses) and must equal `len()`, else the oracle says `?` (the case is then rejected)
fn probe<'a, A: Arch>(decoder: &A::Decoder, bytes: &'a [u8], show: &dyn Fn(&A::Instruction) -> (String, u64)) -> (char, Option<String>)
where
    u64: From<A::Address>,
    U8Reader<'a>: Reader<A::Address, A::Word>,
{
    let mut reader = U8Reader::new(bytes);
    match decoder.decode(&mut reader) {
        Ok(inst) => {
            let len = u64::from(<U8Reader<'a> as Reader<A::Address, A::Word>>::total_offset(&mut reader));
            let (text, own_len) = show(&inst);
            let c = if (1..=15).contains(&len) && own_len == len { std::char::from_digit(len as u32, 16).unwrap() } else { '?' };
            (c, Some(text))
        }
        Err(e) => {
            if e.data_exhausted() {
                ('x', None)
            } else {
                ('i', None)
            }
        }
    }
}

/// `pc` = relative address of the instruction (start of the slice + offset): needed for the text of x86-64
/// relative branches, which the API shows with their absolute target (specification: JMP / Jcc / LOOPx / JRCXZ /
/// CALL with an immediate operand are shown as `<mnemonic> 0x<target>`, target = pc + length + displacement)
fn probe_arch(arch: &str, bytes: &[u8], pc: i64) -> (char, Option<String>) {
    match arch {
        "x86" => probe::<yaxpeax_x86::protected_mode::Arch>(&yaxpeax_x86::protected_mode::InstDecoder::default(), bytes, &|i| (i.to_string(), i.len().to_const() as u64)),
        "x86_64" => probe::<yaxpeax_x86::amd64::Arch>(&yaxpeax_x86::amd64::InstDecoder::default(), bytes, &|i| {
            use yaxpeax_x86::amd64::{Opcode as O, Operand};
            let len = i.len().to_const() as u64;
            let mut text = i.display_with(yaxpeax_x86::amd64::DisplayStyle::Intel).to_string();
            let branch = matches!(
                i.opcode(),
                O::JMP | O::JRCXZ | O::LOOP | O::LOOPZ | O::LOOPNZ | O::JO | O::JNO | O::JB | O::JNB | O::JZ | O::JNZ | O::JNA | O::JA | O::JS | O::JNS | O::JP | O::JNP | O::JL | O::JGE | O::JLE | O::JG | O::CALL
            );
            if branch {
                let disp = match i.operand(0) {
                    Operand::ImmediateI8 { imm } => Some(imm as i64),
                    Operand::ImmediateI32 { imm } => Some(imm as i64),
                    _ => None,
                };
                if let Some(d) = disp {
                    text = format!("{} 0x{:x}", i.opcode(), pc + len as i64 + d);
                }
            }
            (text, len)
        }),
        "arm64" => probe::<yaxpeax_arm::armv8::a64::ARMv8>(&yaxpeax_arm::armv8::a64::InstDecoder::default(), bytes, &|i| (i.to_string(), i.len().to_const() as u64)),
        "arm" => probe::<yaxpeax_arm::armv7::ARMv7>(&yaxpeax_arm::armv7::InstDecoder::default_thumb(), bytes, &|i| (i.to_string(), i.len().to_const() as u64)),
        _ => ('x', None),
    }
}

/// The model's assumption "a fresh reader on `bytes[p..]` decodes what a reader that has advanced to `p` decodes",
/// checked along the path the decode loop takes: one advancing reader from offset 0 (re-created after an
/// undecodable instruction, as in mod.rs:415-418) must meet the position-indexed oracle at every step.
fn advancing_agrees<'a, A: Arch>(decoder: &A::Decoder, bytes: &'a [u8], oracle: &[u8], adjust: usize) -> bool
where
    u64: From<A::Address>,
    U8Reader<'a>: Reader<A::Address, A::Word>,
{
    let mut p = 0usize;
    let mut reader = U8Reader::new(bytes);
    loop {
        let Some(&want) = oracle.get(p) else { return true };
        let before = u64::from(<U8Reader<'a> as Reader<A::Address, A::Word>>::total_offset(&mut reader));
        match decoder.decode(&mut reader) {
            Ok(_) => {
                let len = u64::from(<U8Reader<'a> as Reader<A::Address, A::Word>>::total_offset(&mut reader)) - before;
                if std::char::from_digit(len as u32, 16).map(|c| c as u8) != Some(want) {
                    return false;
                }
                p += len as usize;
            }
            Err(e) => {
                if e.data_exhausted() {
                    return want == b'x';
                }
                if want != b'i' {
                    return false;
                }
                p += adjust;
                let Some(rest) = bytes.get(p..) else { return true };
                reader = U8Reader::new(rest);
            }
        }
    }
}

fn advancing_agrees_arch(arch: &str, bytes: &[u8], oracle: &str) -> bool {
    let o = oracle.as_bytes();
    match arch {
        "x86" => advancing_agrees::<yaxpeax_x86::protected_mode::Arch>(&yaxpeax_x86::protected_mode::InstDecoder::default(), bytes, o, 1),
        "x86_64" => advancing_agrees::<yaxpeax_x86::amd64::Arch>(&yaxpeax_x86::amd64::InstDecoder::default(), bytes, o, 1),
        "arm64" => advancing_agrees::<yaxpeax_arm::armv8::a64::ARMv8>(&yaxpeax_arm::armv8::a64::InstDecoder::default(), bytes, o, 4),
        "arm" => advancing_agrees::<yaxpeax_arm::armv7::ARMv7>(&yaxpeax_arm::armv7::InstDecoder::default_thumb(), bytes, o, 2),
        _ => true,
    }
}

fn fnv32(s: &str) -> u32 {
    let mut h: u32 = 0x811c9dc5;
    for b in s.bytes() {
        h ^= b as u32;
        h = h.wrapping_mul(0x01000193);
    }
    h
}

/// Fingerprint of an instruction's text (the whole text; the reference side renders x86-64 relative branches with
/// their absolute target like the API does, mod.rs:252-274, see `probe_arch`).
/// (Cases recorded before the improvement round have no `fpmode full` line: their x86-64 reference fingerprints are
/// of the mnemonic only, `legacy` reproduces that.)
fn fingerprint(arch: &str, text: &str, legacy: bool) -> String {
    let t = if arch == "x86_64" && legacy { text.split_whitespace().next().unwrap_or("") } else { text };
    format!("{:06x}", fnv32(t) & 0xff_ffff)
}

fn tables(arch: Option<&str>, slice: &[u8], rel: u32) -> (String, String) {
    let Some(arch) = arch else { return ("-".into(), "-".into()) };
    let mut oracle = String::with_capacity(slice.len() + 1);
    let mut refs: Vec<String> = Vec::with_capacity(slice.len() + 1);
    for p in 0..=slice.len() {
        let (c, text) = probe_arch(arch, &slice[p..], rel as i64 + p as i64);
        oracle.push(c);
        refs.push(match text {
            Some(t) => fingerprint(arch, &t, false),
            None => "-".to_string(),
        });
    }
    if !advancing_agrees_arch(arch, slice, &oracle) {
        oracle.push('?'); // rejected by the model driver and the judge as `bad-op`
    }
    (oracle, refs.join(" "))
}

// ---------------------------------------------------------------------------------------------
// specification-side slice: which bytes of the file should be decoded
// ---------------------------------------------------------------------------------------------

fn contains(r: &Reg, svma: u64) -> bool {
    match r.addr.checked_add(r.size) {
        Some(end) => r.addr <= svma && svma < end,
        None => false,
    }
}

fn spec_len(start: u32, size: u32, cont: bool, sym: Option<(u32, Option<u32>)>) -> u64 {
    let mut l = size as u64;
    if cont {
        if let Some((a, Some(n))) = sym {
            if let Some(end) = a.checked_add(n) {
                l = l.max((end as u64).saturating_sub(start as u64));
            }
        }
    }
    l
}

/// (rel, fileoff, len)
fn spec_slice(bin: &Bin, start: u32, size: u32, cont: bool, sym: Option<(u32, Option<u32>)>) -> Option<(u32, u64, u64)> {
    let align: u32 = match bin.arch {
        Some("arm64") => 4,
        Some("arm") => 2,
        _ => 1,
    };
    let rel = start / align * align;
    let want = (spec_len(start, size, cont, sym) + 15).min(u32::MAX as u64);
    if let Some(recs) = &bin.jit {
        // the record whose code contains the address; the bytes from there to the end of that record's code
        let r = recs.iter().find(|r| r.rel <= rel && ((rel - r.rel) as usize) < r.code.len())?;
        let off = (rel - r.rel) as u64;
        return Some((rel, r.codeoff + off, want.min(r.code.len() as u64 - off)));
    }
    let svma = bin.base.checked_add(rel as u64)?;
    let sec = bin.secs.iter().find(|s| contains(s, svma))?;
    let n = want.min(sec.addr + sec.size - svma);
    let src = bin.segs.iter().find(|s| contains(s, svma)).unwrap_or(sec);
    let datalen = src.datalen?;
    let off = svma.checked_sub(src.addr)?;
    if off <= datalen && n <= datalen - off {
        Some((rel, src.fileoff + off, n))
    } else {
        None
    }
}

/// The bytes of the slice. Where the generator chose the bytes itself (synthetic ELF text/data, JITDUMP code)
/// they are taken from the generator's description by *address*, not from the file by offset; otherwise they are
/// read from the file (for a fat member: at the member's start plus the offset inside the member).
fn window(bin: &Bin, rel: u32, fo: u64, n: u64) -> Option<Vec<u8>> {
    if let Some(recs) = &bin.jit {
        let r = recs.iter().find(|r| r.rel <= rel && ((rel - r.rel) as usize) < r.code.len())?;
        let off = (rel - r.rel) as usize;
        return r.code.get(off..off + n as usize).map(|b| b.to_vec());
    }
    let svma = bin.base + rel as u64;
    for (addr, bytes) in &bin.truth {
        if *addr <= svma && svma < addr + bytes.len() as u64 {
            let off = (svma - addr) as usize;
            if let Some(b) = bytes.get(off..off + n as usize) {
                return Some(b.to_vec());
            }
        }
    }
    let (a, b) = (fo as usize, (fo + n) as usize);
    match bin.member {
        Some((m, _)) => bin.serve.get(m as usize + a..m as usize + b).map(|x| x.to_vec()),
        None => bin.bytes.get(a..b).map(|x| x.to_vec()),
    }
}

// ---------------------------------------------------------------------------------------------
// building a case
// ---------------------------------------------------------------------------------------------

fn opt(n: Option<u64>) -> String {
    n.map(|x| x.to_string()).unwrap_or_else(|| "e".into())
}

fn build_case(bin: &Bin, note: &str, start: u32, size: u32, cont: bool) -> Vec<String> {
    build_case_pre(bin, note, &[], start, size, cont)
}

fn build_case_pre(bin: &Bin, note: &str, pre: &[(u32, u32, bool)], start: u32, size: u32, cont: bool) -> Vec<String> {
    let mut ops = vec![format!("note {note}")];
    ops.extend(bin.file_ops.iter().cloned());
    if let Some((a, n)) = bin.member {
        ops.push(format!("member {a} {n}"));
    }
    ops.push(format!("arch {}", bin.code_arch.as_deref().unwrap_or("none")));
    ops.push(format!("truearch {}", bin.arch.unwrap_or("none")));
    ops.push("fpmode full".into());
    for (a, z, c) in pre {
        ops.push(format!("pre {a} {z} {}", *c as u8));
    }
    ops.push(format!("req {start} {size} {}", cont as u8));
    let sym = if cont { lookup_symbol(bin, start) } else { None };
    ops.push(match sym {
        None => "sym none".to_string(),
        Some((a, n)) => format!("sym {a} {}", n.map(|x| x.to_string()).unwrap_or_else(|| "none".into())),
    });
    ops.push(format!("base {}", bin.base));
    for s in &bin.secs {
        ops.push(format!("sec {} {} {} {}", s.addr, s.size, s.fileoff, opt(s.datalen)));
    }
    for s in &bin.segs {
        ops.push(format!("seg {} {} {} {}", s.addr, s.size, s.fileoff, opt(s.datalen)));
    }
    if let Some(recs) = &bin.jit {
        ops.push("kind jit".into());
        for r in recs {
            ops.push(format!("jent {} {} {}", r.rel, r.codeoff, r.code.len()));
        }
        ops.push(format!("flen {}", bin.serve.len()));
    }
    let sl = spec_slice(bin, start, size, cont, sym).and_then(|(rel, fo, n)| window(bin, rel, fo, n).map(|w| (rel, fo, n, w)));
    match sl {
        Some((rel, fo, n, w)) => {
            let w = &w[..];
            ops.push(format!("slice {rel} {n}"));
            ops.push(format!("win {fo} {}", hex(w)));
            let (o, r) = tables(bin.arch, w, rel);
            ops.push(format!("oracle {o}"));
            ops.push(format!("ref {r}"));
        }
        _ => {
            ops.push("slice none".into());
            ops.push("win 0 -".into());
            ops.push("oracle -".into());
            ops.push("ref -".into());
        }
    }
    ops
}

fn slice_len(bin: &Bin, start: u32, size: u32, cont: bool) -> u64 {
    let sym = if cont { lookup_symbol(bin, start) } else { None };
    spec_slice(bin, start, size, cont, sym).map(|s| s.2).unwrap_or(0)
}

fn u32c(x: u64) -> u32 {
    x.min(u32::MAX as u64) as u32
}

/// relative address of an SVMA (clamped into u32)
fn rel_of(bin: &Bin, svma: u64) -> u32 {
    u32c(svma.saturating_sub(bin.base))
}

fn gen_size(rng: &mut Rng, remaining: u64) -> (u32, &'static str) {
    match rng.below(12) {
        0 => (0, "zero"),
        1 => (1, "one"),
        2..=4 => (rng.range(2, 16) as u32, "small"),
        5..=6 => (rng.range(17, 300) as u32, "medium"),
        7 => (u32c(remaining), "to-section-end"),
        8 => (u32c((remaining + rng.range(0, 30)).saturating_sub(15)), "around-section-end"),
        9 => (u32c(remaining + rng.range(1, 5000)), "beyond-section"),
        10 => (*rng.pick(&[0xffff_ffffu32, 0xffff_fff0, 0xffff_fff1, 0xffff_ffef, 0x8000_0000]), "huge"),
        _ => (rng.range(300, 3000) as u32, "large"),
    }
}

fn gen_fixture(rng: &mut Rng, bin: &Bin) -> Vec<String> {
    let exec: Vec<&Reg> = bin.secs.iter().filter(|s| s.exec && s.datalen.unwrap_or(0) > 0).collect();
    let data: Vec<&Reg> = bin.secs.iter().filter(|s| !s.exec && s.addr != 0 && s.datalen.unwrap_or(0) > 0).collect();
    let nobits: Vec<&Reg> = bin.secs.iter().filter(|s| s.addr != 0 && s.size > 0 && s.datalen == Some(0)).collect();
    let any: Vec<&Reg> = bin.secs.iter().filter(|s| s.addr != 0 && s.size > 0).collect();
    let (mut start, kind): (u32, &str) = match rng.below(12) {
        0..=2 if !bin.entries.is_empty() => (*rng.pick(&bin.entries), "fn-entry"),
        3 if !bin.entries.is_empty() => (rng.pick(&bin.entries).saturating_add(rng.range(1, 7) as u32), "fn-mid"),
        4 if !exec.is_empty() => {
            let s = rng.pick(&exec);
            (rel_of(bin, s.addr + rng.below(s.size)), "exec-random")
        }
        5 if !data.is_empty() => {
            let s = rng.pick(&data);
            (rel_of(bin, s.addr + rng.below(s.size)), "data-random")
        }
        6..=7 if !exec.is_empty() => {
            let s = rng.pick(&exec);
            (rel_of(bin, (s.addr + s.size).saturating_sub(rng.below(40))), "exec-end")
        }
        8 if !any.is_empty() => {
            let s = rng.pick(&any);
            (rel_of(bin, (s.addr + s.size + 2).saturating_sub(rng.below(24))), "section-end")
        }
        9 if !any.is_empty() => {
            let s = rng.pick(&any);
            (rel_of(bin, (s.addr + rng.below(4)).saturating_sub(rng.below(3))), "section-start")
        }
        10 if !nobits.is_empty() => {
            let s = rng.pick(&nobits);
            (rel_of(bin, s.addr + rng.below(s.size)), "nobits")
        }
        _ => match rng.below(4) {
            0 => (0, "outside"),
            1 => (u32::MAX - rng.below(8) as u32, "outside"),
            2 => (rng.next_u64() as u32, "outside"),
            _ if !exec.is_empty() => {
                let s = rng.pick(&exec);
                (rel_of(bin, (s.addr + s.size).saturating_sub(rng.range(1, 2500))), "exec-tail")
            }
            _ => (rng.below(0x10000) as u32, "outside"),
        },
    };
    if matches!(bin.arch, Some("arm") | Some("arm64")) && rng.chance(1, 3) {
        start = start.wrapping_add(rng.below(4) as u32); // unaligned / thumb-bit addresses
    }
    // remaining bytes of the containing section (for the size choices)
    let svma = bin.base + start as u64;
    let remaining = bin.secs.iter().find(|s| contains(s, svma)).map(|s| s.addr + s.size - svma).unwrap_or(64);
    let (mut size, mut skind) = gen_size(rng, remaining);
    let mut cont = rng.chance(1, 2);
    if slice_len(bin, start, size, cont) > MAX_SLICE {
        // keep listings small: large requests are exercised near section ends and on the synthetic files
        cont = false;
        if slice_len(bin, start, size, false) > MAX_SLICE {
            size = rng.range(0, 400) as u32;
            skind = "capped";
        }
    }
    // other requests first, on the same SymbolManager (the server keeps one for its lifetime): a request
    // must not depend on what was asked before
    let mut pre = Vec::new();
    if rng.chance(1, 5) {
        for _ in 0..rng.range(1, 3) {
            let a = if !bin.entries.is_empty() && rng.chance(2, 3) { rng.pick(&bin.entries).wrapping_add(rng.below(3) as u32) } else { start.wrapping_add(rng.below(64) as u32).wrapping_sub(32) };
            pre.push((a, rng.range(0, 48) as u32, rng.chance(1, 2)));
        }
    }
    let note = if pre.is_empty() { format!("{kind} {skind}") } else { format!("{kind}+pre {skind}") };
    build_case_pre(bin, &note, &pre, start, size, cont)
}

/// a JITDUMP file with 1-5 code-load records (code from fixtures, random bytes, rejected patterns), other record
/// types in between, and a request at / inside / at the very end of / just behind a record
fn gen_jit(rng: &mut Rng) -> Vec<String> {
    let (machine, arch) = *rng.pick(&[(62u32, "x86_64"), (62, "x86_64"), (3, "x86"), (40, "arm"), (183, "arm64"), (183, "arm64"), (243, "none")]);
    let parch = if arch == "none" { "x86_64" } else { arch };
    let mut items = Vec::new();
    let nrec = rng.range(1, 5);
    for _ in 0..nrec {
        if rng.chance(1, 3) {
            items.push(JitItem::Skip { kind: *rng.pick(&[1u32, 2, 4]), len: rng.range(0, 40) as usize });
        }
        let n = *rng.pick(&[1usize, 2, 3, 4, 7, 16, 33, 64, 150]) + rng.below(4) as usize;
        let mut code = match rng.below(4) {
            0 => (0..n).map(|_| rng.next_u64() as u8).collect::<Vec<u8>>(),
            1 => {
                let mut c = code_snippet(rng, parch, n / 2);
                if let Some(p) = (!invalid_patterns(parch).is_empty()).then(|| rng.pick(&invalid_patterns(parch)[..]).clone()) {
                    c.extend_from_slice(&p);
                }
                c.extend(code_snippet(rng, parch, n / 2));
                c
            }
            _ => code_snippet(rng, parch, n),
        };
        if code.is_empty() {
            code.push(0x90);
        }
        if rng.chance(1, 6) {
            // zero-length code records: several index entries with the same relative address
            for _ in 0..rng.range(1, 3) {
                items.push(JitItem::Rec { namelen: rng.range(1, 9) as usize, code: Vec::new() });
            }
        }
        items.push(JitItem::Rec { namelen: rng.range(1, 30) as usize, code });
    }
    if rng.chance(1, 3) {
        items.push(JitItem::Skip { kind: 2, len: rng.range(0, 24) as usize });
    }
    let spec = JitSpec { machine, items };
    let Some(bin) = build_jit(&spec) else { return vec!["note jit-build-failed".into()] };
    let recs = bin.jit.clone().unwrap_or_default();
    let nonempty: Vec<JitRec> = recs.iter().filter(|r| !r.code.is_empty()).cloned().collect();
    let r = rng.pick(&nonempty[..]).clone();
    let len = r.code.len() as u64;
    let (start, kind): (u64, &str) = match rng.below(8) {
        0..=1 => (r.rel as u64, "jit-rec-start"),
        2..=3 => (r.rel as u64 + rng.below(len), "jit-rec-mid"),
        4 => (r.rel as u64 + len - 1 - rng.below(len.min(4)), "jit-rec-tail"),
        5 => (r.rel as u64 + len, "jit-rec-end"),
        6 => (recs.last().map(|l| l.rel as u64 + l.code.len() as u64).unwrap_or(0) + rng.below(6), "jit-behind"),
        _ => (r.rel as u64 + rng.below(len + 4), "jit-anywhere"),
    };
    let remaining = (r.rel as u64 + len).saturating_sub(start);
    let (size, skind) = gen_size(rng, remaining);
    let cont = rng.chance(1, 2);
    let mut pre = Vec::new();
    if rng.chance(1, 4) {
        let q = rng.pick(&nonempty[..]);
        pre.push((q.rel + rng.below(q.code.len() as u64) as u32, rng.range(0, 32) as u32, rng.chance(1, 2)));
    }
    build_case_pre(&bin, &format!("{kind} {skind}"), &pre, u32c(start), size, cont)
}

/// byte patterns that the decoders reject (found by probing; deterministic)
fn invalid_patterns(arch: &str) -> &'static Vec<Vec<u8>> {
    static P: OnceLock<HashMap<&'static str, Vec<Vec<u8>>>> = OnceLock::new();
    let m = P.get_or_init(|| {
        let mut m = HashMap::new();
        for a in ["x86", "x86_64", "arm", "arm64"] {
            let mut rng = Rng::new(0xC20);
            let mut v: Vec<Vec<u8>> = Vec::new();
            let unit = match a {
                "arm64" => 4,
                "arm" => 2,
                _ => 1,
            };
            let mut tries = 0;
            while v.len() < 24 && tries < 200_000 {
                tries += 1;
                let mut cand: Vec<u8> = (0..unit.max(if a.starts_with("x86") { 1 + rng.below(3) as usize } else { unit })).map(|_| rng.next_u64() as u8).collect();
                let keep = cand.len();
                cand.extend_from_slice(&[0u8; 16]);
                if probe_arch(a, &cand, 0).0 == 'i' {
                    cand.truncate(keep);
                    if !v.contains(&cand) {
                        v.push(cand);
                    }
                }
            }
            m.insert(a, v);
        }
        m
    });
    &m[arch]
}

/// code bytes of the given architecture taken from a fixture (x86 borrows x86-64 code)
fn code_snippet(rng: &mut Rng, arch: &str, len: usize) -> Vec<u8> {
    let want = if arch == "x86" { "x86_64" } else { arch };
    let bins: Vec<&Bin> = fixtures().iter().filter(|b| b.arch == Some(want)).collect();
    if bins.is_empty() {
        return (0..len).map(|_| rng.next_u64() as u8).collect();
    }
    let b = *rng.pick(&bins);
    let exec: Vec<&Reg> = b.secs.iter().filter(|s| s.exec && s.datalen.unwrap_or(0) > len as u64 + 8).collect();
    if exec.is_empty() {
        return (0..len).map(|_| rng.next_u64() as u8).collect();
    }
    let s = rng.pick(&exec);
    let mut off = s.fileoff + rng.below(s.datalen.unwrap() - len as u64);
    if let Some(&e) = (!b.entries.is_empty()).then(|| rng.pick(&b.entries)) {
        // prefer a function entry inside this section
        let svma = b.base + e as u64;
        if contains(s, svma) && svma - s.addr + (len as u64) < s.datalen.unwrap() {
            off = s.fileoff + (svma - s.addr);
        }
    }
    b.bytes[off as usize..off as usize + len].to_vec()
}

fn gen_syn(rng: &mut Rng) -> Vec<String> {
    let (machine, arch) = *rng.pick(&[("386", "x86"), ("386", "x86"), ("x86_64", "x86_64"), ("arm", "arm"), ("arm", "arm"), ("aarch64", "arm64"), ("aarch64", "arm64"), ("riscv", "none")]);
    let vbase = *rng.pick(&[0u64, 0, 0x10000, 0x400000, 0x200000]);
    let textoff = *rng.pick(&[0x100u64, 0x234, 0x1000, 0x400]);
    let mut text: Vec<u8> = Vec::new();
    let target = rng.range(8, 360) as usize;
    let parch = if arch == "none" { "x86_64" } else { arch };
    while text.len() < target {
        match rng.below(6) {
            0..=2 => {
                let n = rng.range(4, 64) as usize;
                text.extend(code_snippet(rng, parch, n));
            }
            3 => {
                let n = rng.range(1, 24) as usize;
                text.extend((0..n).map(|_| rng.next_u64() as u8));
            }
            _ => {
                let pats = invalid_patterns(parch);
                if !pats.is_empty() {
                    for _ in 0..rng.range(1, 3) {
                        let p: &Vec<u8> = rng.pick(&pats[..]);
                        text.extend_from_slice(p);
                    }
                }
            }
        }
    }
    let data = if rng.chance(1, 2) {
        let n = rng.range(1, 40) as usize;
        Some((*rng.pick(&[0u64, 0, 1, 4, 16]), (0..n).map(|_| rng.next_u64() as u8).collect::<Vec<u8>>()))
    } else {
        None
    };
    let bss = if rng.chance(1, 3) { Some(rng.range(1, 64)) } else { None };
    let segmode = match rng.below(16) {
        0..=1 => "none".to_string(),
        2 => "long".to_string(),
        3 => format!("short:{}", rng.range(1, (text.len() as u64).min(40))),
        4 => format!("short:{}", rng.range(1, (text.len() as u64).min(40))),
        5..=8 => format!("off:{}", rng.pick(&[0x200u64, 0x1000, 0x1234])),
        _ => "load".to_string(),
    };
    // functions: a partition of a prefix of the text
    let mut fsyms = Vec::new();
    let mut p = rng.below(8);
    while p < text.len() as u64 && fsyms.len() < 5 {
        let n = rng.range(0, 90).min(text.len() as u64 - p + rng.below(3));
        let thumb = if arch == "arm" && rng.chance(1, 2) { 1 } else { 0 };
        fsyms.push((textoff + p + thumb, if rng.chance(1, 6) { 0 } else { n }));
        p += n.max(1) + rng.below(6);
    }
    // one case in five takes its symbols from a Breakpad file instead of the ELF symbol table: FUNC records with a
    // size, PUBLIC records without (the last PUBLIC has no size at all), sometimes a FUNC that ends beyond 2^32
    let mut bsyms = Vec::new();
    if rng.chance(1, 5) {
        let mut p = rng.below(6);
        while p < text.len() as u64 && bsyms.len() < 5 {
            let n = rng.range(1, 60);
            bsyms.push((rng.chance(1, 2), textoff + p, n.min(text.len() as u64 - p + rng.below(3))));
            p += n + rng.below(4);
        }
        if rng.chance(2, 3) {
            bsyms.push((false, textoff + (text.len() as u64).saturating_sub(rng.range(1, 12)), 0));
        }
        if rng.chance(1, 4) {
            bsyms.push((true, 0xffff_fff0, 0x20));
        }
        if rng.chance(1, 4) {
            // a FUNC inside the text whose end lies beyond 2^32: `symbol.address.checked_add(size)` is None
            bsyms.push((true, textoff + rng.below(text.len() as u64), 0xffff_ffff));
        }
    }
    let has_bsyms = !bsyms.is_empty();
    let syn = Syn { machine: machine.to_string(), vbase, textoff, segmode, text, data, bss, fsyms, bsyms };
    let Some(bin) = build_syn(&syn) else { return vec!["note syn-build-failed".into()] };
    let tlen = syn.text.len() as u64;
    let end = textoff + tlen + syn.data.as_ref().map(|d| d.0 + d.1.len() as u64).unwrap_or(0) + syn.bss.unwrap_or(0);
    let (start, kind): (u64, &str) = match rng.below(10) {
        0..=1 => (textoff, "text-start"),
        2..=3 if !syn.fsyms.is_empty() => (rng.pick(&syn.fsyms).0 + rng.below(2) * rng.below(4), "fn-entry"),
        4..=6 => (textoff + rng.below(tlen), "text-random"),
        7 => ((textoff + tlen + 3).saturating_sub(rng.below(24)), "text-end"),
        8 => (textoff.saturating_sub(rng.below(6)) + rng.below(3), "text-before"),
        _ => (textoff + rng.below(end - textoff + 8), "anywhere"),
    };
    let (start, kind) = if has_bsyms && rng.chance(1, 2) {
        let b = rng.pick(&syn.bsyms);
        (b.1 + rng.below(3), "bsym-entry")
    } else {
        (start, kind)
    };
    let remaining = (textoff + tlen).saturating_sub(start);
    let (size, skind) = gen_size(rng, remaining);
    let cont = if has_bsyms { rng.chance(4, 5) } else { rng.chance(1, 2) };
    build_case(&bin, &format!("syn-{kind} {skind}"), u32c(start), size, cont)
}

/// Former excluded point of `C20_read_no_panic` / `C20_query` (their hypothesis `img.base + u32max ≤ u64max` is gone
/// since fix 37c4c2d8; the theorem is now `C20_read_no_panic_any_base`): an object whose relative-address base is
/// within 4 GiB of 2^64, so that `image_base + start_address` overflowed `u64` in `read_bytes_at_relative_address`
/// before the fix (`checked_add` now: `AddressNotFound`). Random instances are only generated when
/// `VERIF_C20_EXCLUDED` is set; the recorded instances live in `corpus/C20/excluded-hibase.ops` and run with the
/// corpus on every check (see notes/C20.md).
fn excluded_point(rng: &mut Rng) -> Vec<String> {
    let below = *rng.pick(&[0x10000u64, 0x1000, 0x7f00_0000, 0xffff_0000]);
    let vbase = 0u64.wrapping_sub(below);
    let text = code_snippet(rng, "x86_64", 32);
    let syn = Syn { machine: "x86_64".into(), vbase, textoff: 0x100, segmode: "load".into(), text, data: None, bss: None, fsyms: vec![(0x100, 32)], bsyms: Vec::new() };
    let Some(bin) = build_syn(&syn) else { return vec!["note syn-build-failed".into()] };
    let start = match rng.below(5) {
        0 => 0x100,
        1 => below - 1,
        2 => below,
        3 => below + rng.below(0x100),
        _ => 0xffff_ffff,
    };
    build_case(&bin, "excluded-hibase small", u32c(start), rng.range(0, 40) as u32, rng.chance(1, 2))
}

// ---------------------------------------------------------------------------------------------
// executing a case against the real code
// ---------------------------------------------------------------------------------------------

fn bin_for_ops(ops: &[String]) -> Option<Bin> {
    for l in ops {
        let w: Vec<&str> = l.split_whitespace().collect();
        if matches!(w.as_slice(), ["file", "fix" | "fixp" | "fat", ..]) {
            return fixture_by_op(l);
        }
        if matches!(w.as_slice(), ["file", "jit", ..]) {
            return build_jit(&jit_from_ops(ops)?);
        }
    }
    build_syn(&syn_from_ops(ops)?)
}

fn err_kind(msg: &str) -> &'static str {
    if msg.contains("not found in any section") {
        "err:notfound"
    } else if msg.contains("Could not read the requested address range from the section") {
        "err:range"
    } else if msg.contains("object parse error") {
        "err:parse"
    } else if msg.contains("Unrecognized architecture") {
        "err:arch"
    } else if msg.contains("Could not read the requested address range from the file") {
        "err:io"
    } else if msg.contains("loading the binary") {
        "err:load"
    } else {
        "err:other"
    }
}

fn parse_hex_u64(s: &str) -> Option<u64> {
    u64::from_str_radix(s.strip_prefix("0x")?, 16).ok()
}

impl Prop for C20 {
    fn id(&self) -> &'static str {
        "C20"
    }
    fn case_count(&self, tier: Tier) -> u64 {
        match tier {
            Tier::Quick => 3000,
            Tier::Thorough => 150000,
        }
    }
    fn fixed_cases(&self, tier: Tier) -> Vec<Case> {
        let mut v = Vec::new();
        // section ends of every fixture: starts end-k, sizes at and around the clamp, both continue flags
        for bin in fixtures() {
            let label = bin.file_ops[0].trim_start_matches("file fix ").trim_start_matches("file ").replace(['/', ' '], "_");
            for (si, s) in bin.secs.iter().filter(|s| s.exec && s.datalen.unwrap_or(0) > 0).take(2).enumerate() {
                for k in [0u64, 1, 2, 3, 4, 5, 8, 15, 16, 17] {
                    for size in [0u32, 1, 4, 16, 17, 0xffff_fff0, 0xffff_ffff] {
                        let start = rel_of(bin, s.addr + s.size - k);
                        let cont = (k + size as u64) % 2 == 1;
                        v.push(Case { name: format!("end-{label}-s{si}-k{k}-z{size}"), ops: build_case(bin, "fixed-exec-end fixed", start, size, cont) });
                    }
                }
            }
            // unaligned starts at the first function entries, with continuation
            for (i, &e) in bin.entries.iter().take(3).enumerate() {
                for d in 0u32..4 {
                    for size in [0u32, 2, 24] {
                        v.push(Case { name: format!("entry-{label}-{i}-d{d}-z{size}"), ops: build_case(bin, "fixed-fn-entry fixed", e + d, size, true) });
                    }
                }
            }
        }
        // one undecodable instruction in the middle of decodable ones, every architecture
        for (machine, arch) in [("386", "x86"), ("x86_64", "x86_64"), ("arm", "arm"), ("aarch64", "arm64")] {
            let pats = invalid_patterns(arch);
            let mut rng = Rng::new(20);
            for (pi, pat) in pats.iter().take(6).enumerate() {
                let mut text = code_snippet(&mut rng, arch, 16);
                text.extend_from_slice(pat);
                text.extend(code_snippet(&mut rng, arch, 24));
                let segmode = if pi % 2 == 1 { "off:4096" } else { "load" };
                let syn = Syn { machine: machine.into(), vbase: 0x10000, textoff: 0x100, segmode: segmode.into(), text: text.clone(), data: None, bss: None, fsyms: vec![(0x100, text.len() as u64)], bsyms: Vec::new() };
                if let Some(bin) = build_syn(&syn) {
                    for (start, size, cont) in [(0x100u32, 40u32, false), (0x110, 8, false), (0x110, 1, true), (0x100, 0, true), (0x101, 0xffff_ffff, false)] {
                        v.push(Case { name: format!("inv-{arch}-{pi}-{start}-{size}-{}", cont as u8), ops: build_case(&bin, "fixed-invalid fixed", start, size, cont) });
                    }
                }
            }
        }
        // symbols from a Breakpad file: a FUNC with a size, a PUBLIC whose size is the distance to the next symbol,
        // a FUNC that ends beyond 2^32 (no function end), a last PUBLIC without any size; continuation requested
        for (machine, arch) in [("386", "x86"), ("x86_64", "x86_64"), ("arm", "arm"), ("aarch64", "arm64")] {
            let mut rng = Rng::new(0xb5);
            let text = code_snippet(&mut rng, arch, 64);
            let syn = Syn {
                machine: machine.into(),
                vbase: 0x10000,
                textoff: 0x100,
                segmode: "load".into(),
                text,
                data: None,
                bss: None,
                fsyms: vec![(0x100, 64)],
                bsyms: vec![(true, 0x100, 13), (false, 0x110, 0), (true, 0x118, 0xffff_ffff), (false, 0x138, 0)],
            };
            if let Some(bin) = build_syn(&syn) {
                for start in [0x100u32, 0x105, 0x10c, 0x10d, 0x110, 0x112, 0x118, 0x120, 0x137, 0x138, 0x13c, 0x13f, 0x140] {
                    for size in [0u32, 4, 40] {
                        v.push(Case { name: format!("bsym-{arch}-{start}-{size}"), ops: build_case(&bin, "fixed-bsym fixed", start, size, true) });
                    }
                }
            }
        }
        // JITDUMP: three records (12 bytes + an undecodable pattern, 1-3 bytes, 30 bytes) with other records in
        // between; every start from 0 to 3 bytes behind the last record x boundary sizes x both continue flags
        for (machine, arch) in [(3u32, "x86"), (62, "x86_64"), (40, "arm"), (183, "arm64")] {
            let pats = invalid_patterns(arch);
            let mut rng = Rng::new(0x1d);
            let mut a = code_snippet(&mut rng, arch, 12);
            if let Some(p) = pats.first() {
                a.extend_from_slice(p);
            }
            let b = code_snippet(&mut rng, arch, if arch == "arm64" { 4 } else { 2 });
            let c = code_snippet(&mut rng, arch, 30);
            let total = (a.len() + b.len() + c.len()) as u32;
            let spec = JitSpec {
                machine,
                items: vec![
                    JitItem::Skip { kind: 2, len: 24 },
                    JitItem::Rec { namelen: 3, code: a },
                    JitItem::Rec { namelen: 5, code: Vec::new() },
                    JitItem::Rec { namelen: 6, code: Vec::new() },
                    JitItem::Rec { namelen: 17, code: b },
                    JitItem::Skip { kind: 1, len: 8 },
                    JitItem::Rec { namelen: 1, code: c },
                ],
            };
            let sizes: &[u32] = if tier == Tier::Quick { &[0, 1, 5, 40, 0xffff_ffff] } else { &[0, 1, 2, 3, 4, 5, 8, 13, 16, 17, 40, 0xffff_fff0, 0xffff_ffff] };
            if let Some(bin) = build_jit(&spec) {
                for start in 0..=total + 3 {
                    for &size in sizes {
                        for cont in [false, true] {
                            v.push(Case { name: format!("jit-{arch}-{start}-{size}-{}", cont as u8), ops: build_case(&bin, "jit-sweep sweep", start, size, cont) });
                        }
                    }
                }
            }
        }
        // exhaustive sweep over one short text per architecture (decodable code, an undecodable pattern, code):
        // every start from 3 bytes before the section to 3 bytes after it x boundary sizes x both continue flags
        for (machine, arch) in [("386", "x86"), ("x86_64", "x86_64"), ("arm", "arm"), ("aarch64", "arm64")] {
            let pats = invalid_patterns(arch);
            let mut rng = Rng::new(2020);
            let mut text = code_snippet(&mut rng, arch, 12);
            if let Some(p) = pats.first() {
                text.extend_from_slice(p);
            }
            text.extend(code_snippet(&mut rng, arch, 16));
            if let Some(p) = pats.get(1) {
                text.extend_from_slice(p);
            }
            let tlen = text.len() as u32;
            let syn = Syn {
                machine: machine.into(),
                vbase: 0x400000,
                textoff: 0x100,
                segmode: "load".into(),
                text,
                data: Some((0, vec![0x90, 0x00, 0xff, 0x1f, 0x20, 0x03, 0xd5, 0xc3])),
                bss: Some(8),
                fsyms: vec![(0x100, 13), (0x100 + 13 + if arch == "arm" { 1 } else { 0 }, (tlen - 13) as u64)],
                bsyms: Vec::new(),
            };
            let sizes: &[u32] = if tier == Tier::Quick { &[0, 1, 2, 3, 5, 13, 40, 0xffff_ffff] } else { &[0, 1, 2, 3, 4, 5, 6, 7, 8, 12, 13, 14, 16, 24, 32, 40, 47, 0xffff_fff0, 0xffff_fff1, 0xffff_ffff] };
            if let Some(bin) = build_syn(&syn) {
                for start in 0x100 - 3..=0x100 + tlen + 8 + 3 {
                    for &size in sizes {
                        for cont in [false, true] {
                            v.push(Case { name: format!("sweep-{arch}-{start}-{size}-{}", cont as u8), ops: build_case(&bin, "sweep sweep", start, size, cont) });
                        }
                    }
                }
            }
        }
        v
    }
    fn generate(&self, rng: &mut Rng, _tier: Tier, _index: u64) -> Vec<String> {
        if std::env::var("VERIF_C20_EXCLUDED").is_ok() && rng.chance(1, 20) {
            return excluded_point(rng);
        }
        let fx = fixtures();
        if rng.chance(1, 8) {
            gen_jit(rng)
        } else if fx.is_empty() || rng.chance(2, 5) {
            gen_syn(rng)
        } else {
            let bin = &fx[rng.below(fx.len() as u64) as usize];
            gen_fixture(rng, bin)
        }
    }
    fn execute(&self, ops: &[String], stats: &mut Stats) -> Vec<String> {
        let Some(bin) = bin_for_ops(ops) else {
            stats.bump("no_binary");
            return vec!["err:nobinary".into()];
        };
        let mut req: Option<(u32, u32, bool)> = None;
        let mut pre: Vec<(u32, u32, bool)> = Vec::new();
        let mut full_fp = false;
        for l in ops {
            let w: Vec<&str> = l.split_whitespace().collect();
            match w.as_slice() {
                ["req", a, s, c] => req = Some((a.parse().unwrap_or(0), s.parse().unwrap_or(0), *c == "1")),
                ["pre", a, s, c] => pre.push((a.parse().unwrap_or(0), s.parse().unwrap_or(0), *c == "1")),
                ["arch", a] => stats.bump(&format!("code_arch_{a}")),
                ["fpmode", "full"] => full_fp = true,
                ["note", k, z] => {
                    stats.bump(&format!("start_{k}"));
                    stats.bump(&format!("size_{z}"));
                }
                _ => {}
            }
        }
        let Some((start, size, cont)) = req else { return vec!["bad-op".into()] };
        let arch = bin.arch.unwrap_or("none");
        stats.bump(&format!("arch_{arch}"));
        if cont {
            stats.bump("continue_until_function_end");
        }
        stats.bump(if bin.jit.is_some() {
            "image_jitdump"
        } else if bin.member.is_some() {
            "image_fat_member"
        } else {
            "image_object"
        });
        let body_of = |start: u32, size: u32, cont: bool| {
            serde_json::json!({
                "name": bin.name, "debugName": bin.name, "debugId": bin.debug_id,
                "startAddress": format!("{start:#x}"), "size": format!("{size:#x}"),
                "continueUntilFunctionEnd": cont,
            })
            .to_string()
        };
        let body = body_of(start, size, cont);
        if !pre.is_empty() {
            stats.bump("with_preceding_requests");
        }
        let m = manager(&bin);
        let r = catch_unwind(AssertUnwindSafe(|| {
            // `Api::query_api` consumes the Api (the server builds one per request); the SymbolManager is the
            // long-lived object
            for (a, z, c) in &pre {
                let _ = futures::executor::block_on(samply_api::Api::new(&m).query_api("/asm/v1", &body_of(*a, *z, *c)));
            }
            futures::executor::block_on(samply_api::Api::new(&m).query_api("/asm/v1", &body))
        }));
        let Ok(text) = r else {
            stats.bump("outcome_panic");
            return vec!["panic".into()];
        };
        let v: serde_json::Value = match serde_json::from_str(&text) {
            Ok(v) => v,
            Err(_) => return vec!["err:badjson".into()],
        };
        if let Some(e) = v.get("error").and_then(|e| e.as_str()) {
            let k = err_kind(e);
            stats.bump(&format!("outcome_{k}"));
            return vec![k.to_string()];
        }
        let sa = v["startAddress"].as_str().and_then(parse_hex_u64);
        let sz = v["size"].as_str().and_then(parse_hex_u64);
        let (Some(sa), Some(sz), Some(name), Some(ins)) = (sa, sz, v["arch"].as_str(), v["instructions"].as_array()) else {
            return vec!["err:badjson".into()];
        };
        let mut offs = Vec::new();
        let mut bad = Vec::new();
        let mut fps = Vec::new();
        for i in ins {
            let off = i[0].as_u64().unwrap_or(u64::MAX);
            let t = i[1].as_str().unwrap_or("");
            if t.starts_with(".byte") && t.contains("# Invalid instruction") {
                offs.push(format!("{off}!"));
                let h: String = t
                    .split("Invalid instruction")
                    .nth(1)
                    .unwrap_or("")
                    .split(':')
                    .next()
                    .unwrap_or("")
                    .split_whitespace()
                    .map(|b| b.to_ascii_lowercase())
                    .collect();
                bad.push(if h.is_empty() { "-".to_string() } else { h });
            } else {
                offs.push(off.to_string());
                fps.push(fingerprint(arch, t, !full_fp));
            }
        }
        stats.bump("outcome_resp");
        stats.bump(match ins.len() {
            0 => "listing_0",
            1..=4 => "listing_1-4",
            5..=40 => "listing_5-40",
            41..=400 => "listing_41-400",
            _ => "listing_400+",
        });
        if !bad.is_empty() {
            stats.bump("listing_with_invalid");
            stats.add("invalid_instructions", bad.len() as u64);
        }
        stats.add("instructions", ins.len() as u64);
        let join = |v: &Vec<String>| if v.is_empty() { "-".to_string() } else { v.join(" ") };
        vec![format!("resp {sa} {sz} {name}"), format!("offs {}", join(&offs)), format!("bad {}", join(&bad)), format!("fp {}", join(&fps))]
    }
    /// a decode loop that never ends or allocates without bound must become the outcome of one case
    fn isolate(&self) -> Option<(u64, u64)> {
        // (a mutant that re-creates the reader at the wrong place loops for ~2^32 iterations while its listing
        // grows: the address-space limit turns that into a quick abort, the time limit bounds the rest)
        Some((6, 4096))
    }
    fn nontrivial(&self, _ops: &[String], out: &[String]) -> bool {
        out.len() == 4 && out[0].starts_with("resp") && out[1] != "offs -"
    }
}

fn main() {
    verif_harness::runner::run_main(&C20);
}
