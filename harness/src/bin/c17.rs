//! C17 — names and lifetimes follow COMM / EXEC / FORK / EXIT. Same perf.data pipeline as C01; the
//! observable is, per thread entry: pid / tid strings, main flag, thread and process name, register /
//! unregister time, process start / end time (integer ns).
use verif_harness::common::*;
use verif_harness::gen::perfdata::*;

pub struct C17;

impl Prop for C17 {
    fn id(&self) -> &'static str {
        "C17"
    }
    fn case_count(&self, tier: Tier) -> u64 {
        match tier {
            Tier::Quick => 500,
            Tier::Thorough => 20000,
        }
    }
    fn fixed_cases(&self, _tier: Tier) -> Vec<Case> {
        let mut v = Vec::new();
        let add = |v: &mut Vec<Case>, name: &str, ref_time: u64, recs: Vec<Rec>| {
            let h = History { ref_time, recs, ..Default::default() };
            v.push(Case { name: name.to_string(), ops: h.to_ops() });
        };
        let comm = |pid: u32, tid: u32, name: &str, t: u64| Rec::Comm { pid, tid, name: name.to_string(), exec: false, t };
        let exec = |pid: u32, name: &str, t: u64| Rec::Comm { pid, tid: pid, name: name.to_string(), exec: true, t };
        let fork = |pid: u32, tid: u32, ppid: u32, ptid: u32, t: u64| Rec::Fork { pid, tid, ppid, ptid, t };
        let exit = |pid: u32, tid: u32, t: u64| Rec::Exit { pid, tid, t };
        let sample = |pid: u32, tid: u32, t: u64| Rec::Sample { pid, tid, t, kernel: false, period: 1_000_000, ip: 0x1010, chain: vec![] };
        // the kernel's order for exit_group with a zombie leader: the main thread's EXIT precedes the siblings'.
        // Judged as long as no sibling EXIT is delivered afterwards …
        add(
            &mut v,
            "main-exit-before-sibling-no-late-exit",
            1000,
            vec![comm(100, 100, "app", 1000), fork(100, 101, 100, 100, 1100), fork(100, 102, 100, 101, 1150), sample(100, 101, 1200), sample(100, 102, 1300), exit(100, 100, 2000), sample(200, 200, 2100)],
        );
        // … and with the sibling EXITs after it: they find no process and are ignored (fix 8ede2c85; before,
        // `handle_exit` created a phantom process entry `<pid>` through `get_by_pid`)
        {
            add(
                &mut v,
                "orphan-exit-minimal",
                1000,
                vec![comm(100, 100, "app", 1000), fork(100, 101, 100, 100, 1100), sample(100, 101, 1200), exit(100, 100, 2000), exit(100, 101, 2000)],
            );
            add(
                &mut v,
                "orphan-exit-two-siblings",
                1000,
                vec![comm(100, 100, "app", 1000), fork(100, 101, 100, 100, 1100), fork(100, 102, 100, 100, 1150), sample(100, 101, 1200), sample(100, 102, 1300), exit(100, 100, 2000), exit(100, 102, 2001), exit(100, 101, 2002), sample(200, 200, 2100)],
            );
            // the minimal input of the repaired finding (alone it yields no entry at all), and an orphan EXIT
            // followed by records of the same pid (a fresh on-demand incarnation `100.1`, created by the sample)
            add(&mut v, "orphan-exit-lone", 1000, vec![exit(100, 101, 2000), sample(200, 200, 2100)]);
            add(
                &mut v,
                "orphan-exit-then-records",
                1000,
                vec![comm(100, 100, "app", 1000), fork(100, 101, 100, 100, 1100), exit(100, 100, 2000), exit(100, 101, 2000), sample(100, 101, 2500), comm(100, 100, "again", 2600), exit(100, 101, 2700), exit(100, 100, 2800), exit(100, 101, 2900)],
            );
            add(&mut v, "orphan-exit-never-seen-pid", 0, vec![comm(100, 100, "app", 1000), sample(100, 100, 1200), exit(300, 301, 1500), sample(100, 100, 1600)]);
        }
        // ids reused after their EXIT without a FORK: the next record of the id opens a fresh on-demand entry
        add(
            &mut v,
            "id-reuse-without-fork",
            1000,
            vec![
                comm(100, 100, "first", 1000),
                fork(100, 101, 100, 100, 1100),
                comm(100, 101, "worker", 1150),
                sample(100, 101, 1200),
                exit(100, 101, 1300),
                sample(100, 101, 1400),
                comm(100, 101, "again", 1500),
                exit(100, 101, 1600),
                comm(100, 101, "third", 1700),
                exit(100, 100, 2000),
                sample(100, 100, 2100),
                comm(100, 100, "reborn", 2200),
                sample(100, 101, 2300),
                exit(100, 100, 2400),
                comm(100, 100, "late", 2500),
                exec(100, "execd", 2600),
                sample(100, 100, 2700),
            ],
        );
        // perf's synthesized records for tasks that already run: COMM / FORK / MMAP2 stamped 0 at the head
        let mmap = |pid: u32, tid: u32, t: u64| Rec::Mmap2 { pid, tid, addr: 0x400000, len: 0x2000, pgoff: 0, exec: true, path: "/nonexistent-verif/bin/app".to_string(), t };
        add(
            &mut v,
            "synthesized-head",
            5000,
            vec![comm(100, 100, "app", 0), mmap(100, 100, 0), fork(100, 101, 100, 100, 0), comm(100, 101, "worker", 0), comm(200, 200, "other", 0), sample(100, 100, 5000), sample(100, 101, 6000), comm(100, 101, "renamed", 7000), sample(200, 200, 8000), exit(100, 101, 9000)],
        );
        add(&mut v, "synthesized-head-exec", 0, vec![exec(100, "app", 0), fork(100, 101, 100, 100, 0), sample(100, 101, 6000), exec(100, "again", 7000), sample(100, 100, 8000)]);
        // a COMM / EXEC stamped 0 delivered after samples (a file that breaks the round contract): the time is
        // that of the last sample delivered before it
        for (k, late) in [comm(100, 100, "late", 0), exec(100, "late-exec", 0), comm(100, 101, "late-thread", 0)].into_iter().enumerate() {
            let h = history_from_file_rounds(
                1000,
                vec![
                    vec![comm(100, 100, "app", 1000), fork(100, 101, 100, 100, 1100), sample(100, 100, 1500)],
                    vec![sample(100, 101, 2500)],
                    vec![late, sample(100, 100, 3000)],
                    vec![sample(100, 101, 3500), exit(100, 101, 4000)],
                ],
            );
            v.push(Case { name: format!("comm-time0-after-sample-{k}"), ops: h.to_ops() });
        }
        // names: non-ASCII, 15 / 16 bytes, empty - as process name, thread name, exec name, inherited by fork
        let names = ["caf\u{e9}", "\u{65e5}\u{672c}\u{8a9e}\u{30b9}\u{30ec}\u{30c3}\u{30c9}", "fifteen-bytes-x", "sixteen-bytes-xy", "", "seventeen-bytes-xy"];
        let mut recs = Vec::new();
        let mut t = 1000;
        for (k, n) in names.iter().enumerate() {
            let pid = 100 + 10 * k as u32;
            recs.push(comm(pid, pid, n, t));
            recs.push(fork(pid, pid + 1, pid, pid, t + 1));
            recs.push(sample(pid, pid + 1, t + 2));
            recs.push(comm(pid, pid + 1, names[(k + 1) % names.len()], t + 3));
            recs.push(fork(pid + 5, pid + 5, pid, pid + 1, t + 4));
            recs.push(exec(pid, names[(k + 2) % names.len()], t + 5));
            recs.push(sample(pid, pid, t + 6));
            t += 10;
        }
        add(&mut v, "names", 1000, recs);
        // sample times before the reference time (SAMPLE_TIME later than the first sample)
        add(
            &mut v,
            "samples-before-ref",
            5000,
            vec![comm(100, 100, "app", 1000), sample(100, 100, 2000), fork(100, 101, 100, 100, 2500), sample(100, 101, 3000), mmap(100, 101, 3500), exit(100, 101, 4000), sample(100, 100, 5000), exec(100, "x", 5500), sample(100, 100, 6000)],
        );
        // a process re-created on demand by a sample after a main-thread EXIT while a sibling was alive: the
        // sibling's later records belong to the new incarnation
        add(
            &mut v,
            "main-exit-then-sibling-records",
            1000,
            vec![comm(100, 100, "app", 1000), fork(100, 101, 100, 100, 1100), comm(100, 101, "w", 1150), exit(100, 100, 2000), sample(100, 101, 2100), comm(100, 101, "w2", 2200), exit(100, 101, 2300), exit(100, 100, 2400)],
        );
        v
    }
    fn generate(&self, rng: &mut Rng, tier: Tier, _index: u64) -> Vec<String> {
        let shape = Shape {
            max_len: if tier == Tier::Thorough { 300 } else { 120 },
            mappings: false,
            violate_pct: 25,
            // the statement is about default options; a fifth of the cases still run with reuse on
            // (model correspondence only, the judge reports not-applicable)
            allow_reuse: rng.chance(1, 5),
            allow_fold: false,
            files: Vec::new(),
            jit: false,
        };
        let mut h = gen_history(rng, &shape);
        // a sixth of the histories: out-of-order delivery (a file in which records of round N+2 are older than
        // records of round N, back-dated records, COMM / FORK / MMAP2 stamped 0 in the middle)
        if rng.chance(1, 6) {
            out_of_order(&mut h, rng, OooKinds { samples: true, mmap2: true, lifecycle: true, zero: true });
        }
        h.to_ops()
    }
    fn execute(&self, ops: &[String], stats: &mut Stats) -> Vec<String> {
        let Some(h) = History::from_ops(ops) else {
            return vec!["bad-op".to_string()];
        };
        count_history(&h, stats);
        // judged share per history length (the Lean judge decides; this mirrors `Life.grammarOk`)
        let n = h.recs.len();
        let bucket = match n {
            0..=19 => "000_019",
            20..=39 => "020_039",
            40..=59 => "040_059",
            60..=79 => "060_079",
            80..=99 => "080_099",
            _ => "100_up",
        };
        if !h.layout.is_empty() {
            stats.bump("explicit_layout");
            if h.recs.windows(2).any(|w| w[0].time() > w[1].time()) {
                stats.bump("delivery_not_time_ordered");
            }
        }
        if h.recs.iter().any(|r| matches!(r, Rec::Comm { t: 0, .. } | Rec::Fork { t: 0, .. } | Rec::Mmap2 { t: 0, .. })) {
            stats.bump("has_time0_record");
        }
        stats.bump(&format!("len_{bucket}_cases"));
        if c17_judged(&h) {
            stats.bump(&format!("len_{bucket}_judged"));
            stats.bump("judged_by_grammar");
        } else if h.reuse {
            stats.bump("not_judged_reuse");
        } else {
            stats.bump("not_judged_grammar");
        }
        {
            let mut lt = LifeTrack::new(h.ref_time);
            let mut n_orphan = 0;
            for r in &h.recs {
                if lt.orphan_thread_exit(r) {
                    n_orphan += 1;
                }
                lt.step(r);
            }
            stats.add("orphan_thread_exits", n_orphan);
            if n_orphan > 0 {
                stats.bump("cases_with_orphan_thread_exit");
            }
        }
        let dir = work_tmp("C17");
        let tag = format!("c{:016x}", fnv1a(ops));
        import_and_render(&h, Proj::C17, &dir, &tag, stats)
    }
    fn nontrivial(&self, ops: &[String], out: &[String]) -> bool {
        // a rename or exec and at least two thread entries
        ops.iter().any(|l| l.starts_with("comm ")) && out.iter().filter(|l| l.starts_with("thread ")).count() >= 2
    }
}

fn main() {
    verif_harness::runner::run_main(&C17);
}
