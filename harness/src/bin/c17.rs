//! C17 — names and lifetimes follow COMM / EXEC / FORK / EXIT. Same perf.data pipeline as C01; the
//! observable is, per thread entry: pid / tid strings, main flag, thread and process name, register /
//! unregister time, process start / end time (integer ns).
use verif_harness::common::*;
use verif_harness::gen::perfdata::*;

pub struct C17;

impl Prop for C17 {
    fn id(&self) -> &'static str {
        "C17"
    }
    fn case_count(&self, tier: Tier) -> u64 {
        match tier {
            Tier::Quick => 500,
            Tier::Thorough => 20000,
        }
    }
    fn fixed_cases(&self, _tier: Tier) -> Vec<Case> {
        let mut v = Vec::new();
        let mut add = |name: &str, ref_time: u64, recs: Vec<Rec>| {
            let h = History { ref_time, recs, ..Default::default() };
            v.push(Case { name: name.to_string(), ops: h.to_ops() });
        };
        let comm = |pid: u32, tid: u32, name: &str, t: u64| Rec::Comm { pid, tid, name: name.to_string(), exec: false, t };
        let exec = |pid: u32, name: &str, t: u64| Rec::Comm { pid, tid: pid, name: name.to_string(), exec: true, t };
        let fork = |pid: u32, tid: u32, ppid: u32, ptid: u32, t: u64| Rec::Fork { pid, tid, ppid, ptid, t };
        let exit = |pid: u32, tid: u32, t: u64| Rec::Exit { pid, tid, t };
        let sample = |pid: u32, tid: u32, t: u64| Rec::Sample { pid, tid, t, kernel: false, period: 1_000_000, ip: 0x1010, chain: vec![] };
        // the kernel's order for exit_group with a zombie leader: the main thread's EXIT precedes the siblings'.
        // Judged as long as no sibling EXIT is delivered afterwards …
        add(
            "main-exit-before-sibling-no-late-exit",
            1000,
            vec![comm(100, 100, "app", 1000), fork(100, 101, 100, 100, 1100), fork(100, 102, 100, 101, 1150), sample(100, 101, 1200), sample(100, 102, 1300), exit(100, 100, 2000), sample(200, 200, 2100)],
        );
        // … and (candidate finding C17-phantom-process-on-thread-exit) with the sibling EXITs after it
        if finding_enabled(FINDING_PHANTOM) {
            add(
                "orphan-exit-minimal",
                1000,
                vec![comm(100, 100, "app", 1000), fork(100, 101, 100, 100, 1100), sample(100, 101, 1200), exit(100, 100, 2000), exit(100, 101, 2000)],
            );
            add(
                "orphan-exit-two-siblings",
                1000,
                vec![comm(100, 100, "app", 1000), fork(100, 101, 100, 100, 1100), fork(100, 102, 100, 100, 1150), sample(100, 101, 1200), sample(100, 102, 1300), exit(100, 100, 2000), exit(100, 102, 2001), exit(100, 101, 2002), sample(200, 200, 2100)],
            );
            add("orphan-exit-never-seen-pid", 0, vec![comm(100, 100, "app", 1000), sample(100, 100, 1200), exit(300, 301, 1500), sample(100, 100, 1600)]);
        }
        // ids reused after their EXIT without a FORK: the next record of the id opens a fresh on-demand entry
        add(
            "id-reuse-without-fork",
            1000,
            vec![
                comm(100, 100, "first", 1000),
                fork(100, 101, 100, 100, 1100),
                comm(100, 101, "worker", 1150),
                sample(100, 101, 1200),
                exit(100, 101, 1300),
                sample(100, 101, 1400),
                comm(100, 101, "again", 1500),
                exit(100, 101, 1600),
                comm(100, 101, "third", 1700),
                exit(100, 100, 2000),
                sample(100, 100, 2100),
                comm(100, 100, "reborn", 2200),
                sample(100, 101, 2300),
                exit(100, 100, 2400),
                comm(100, 100, "late", 2500),
                exec(100, "execd", 2600),
                sample(100, 100, 2700),
            ],
        );
        // a process re-created on demand by a sample after a main-thread EXIT while a sibling was alive: the
        // sibling's later records belong to the new incarnation
        add(
            "main-exit-then-sibling-records",
            1000,
            vec![comm(100, 100, "app", 1000), fork(100, 101, 100, 100, 1100), comm(100, 101, "w", 1150), exit(100, 100, 2000), sample(100, 101, 2100), comm(100, 101, "w2", 2200), exit(100, 101, 2300), exit(100, 100, 2400)],
        );
        v
    }
    fn generate(&self, rng: &mut Rng, tier: Tier, _index: u64) -> Vec<String> {
        let shape = Shape {
            max_len: if tier == Tier::Thorough { 300 } else { 120 },
            mappings: false,
            violate_pct: 25,
            // the statement is about default options; a fifth of the cases still run with reuse on
            // (model correspondence only, the judge reports not-applicable)
            allow_reuse: rng.chance(1, 5),
            allow_fold: false,
            files: Vec::new(),
            jit: false,
        };
        gen_history(rng, &shape).to_ops()
    }
    fn execute(&self, ops: &[String], stats: &mut Stats) -> Vec<String> {
        let Some(h) = History::from_ops(ops) else {
            return vec!["bad-op".to_string()];
        };
        count_history(&h, stats);
        // judged share per history length (the Lean judge decides; this mirrors `Life.grammarOk`)
        let n = h.recs.len();
        let bucket = match n {
            0..=19 => "000_019",
            20..=39 => "020_039",
            40..=59 => "040_059",
            60..=79 => "060_079",
            80..=99 => "080_099",
            _ => "100_up",
        };
        stats.bump(&format!("len_{bucket}_cases"));
        if c17_judged(&h) {
            stats.bump(&format!("len_{bucket}_judged"));
            stats.bump("judged_by_grammar");
        } else if h.reuse {
            stats.bump("not_judged_reuse");
        } else {
            stats.bump("not_judged_grammar");
        }
        let dir = work_tmp("C17");
        let tag = format!("c{:016x}", fnv1a(ops));
        import_and_render(&h, Proj::C17, &dir, &tag, stats)
    }
    fn nontrivial(&self, ops: &[String], out: &[String]) -> bool {
        // a rename or exec and at least two thread entries
        ops.iter().any(|l| l.starts_with("comm ")) && out.iter().filter(|l| l.starts_with("thread ")).count() >= 2
    }
}

fn main() {
    verif_harness::runner::run_main(&C17);
}
