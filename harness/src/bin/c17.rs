//! C17 — names and lifetimes follow COMM / EXEC / FORK / EXIT. Same perf.data pipeline as C01; the
//! observable is, per thread entry: pid / tid strings, main flag, thread and process name, register /
//! unregister time, process start / end time (integer ns).
use verif_harness::common::*;
use verif_harness::gen::perfdata::*;

pub struct C17;

impl Prop for C17 {
    fn id(&self) -> &'static str {
        "C17"
    }
    fn case_count(&self, tier: Tier) -> u64 {
        match tier {
            Tier::Quick => 500,
            Tier::Thorough => 20000,
        }
    }
    fn generate(&self, rng: &mut Rng, tier: Tier, _index: u64) -> Vec<String> {
        let shape = Shape {
            max_len: if tier == Tier::Thorough { 300 } else { 120 },
            mappings: false,
            violate_pct: 25,
            // the statement is about default options; a fifth of the cases still run with reuse on
            // (model correspondence only, the judge reports not-applicable)
            allow_reuse: rng.chance(1, 5),
            allow_fold: false,
            files: Vec::new(),
            jit: false,
        };
        gen_history(rng, &shape).to_ops()
    }
    fn execute(&self, ops: &[String], stats: &mut Stats) -> Vec<String> {
        let Some(h) = History::from_ops(ops) else {
            return vec!["bad-op".to_string()];
        };
        count_history(&h, stats);
        let dir = work_tmp("C17");
        let tag = format!("c{:016x}", fnv1a(ops));
        import_and_render(&h, Proj::C17, &dir, &tag, stats)
    }
    fn nontrivial(&self, ops: &[String], out: &[String]) -> bool {
        // a rename or exec and at least two thread entries
        ops.iter().any(|l| l.starts_with("comm ")) && out.iter().filter(|l| l.starts_with("thread ")).count() >= 2
    }
}

fn main() {
    verif_harness::runner::run_main(&C17);
}
