//! C03 — replays a generated sequence of profile-building API calls on the real
//! `fxprof_processed_profile::Profile`, serializes it with `serde_json::to_value` and prints the
//! property-relevant tables of the JSON in a line format (see `lean/SamplyModel/Iface/C03.lean`
//! for the protocol description; both sides implement the same protocol).
//!
//! Handles are referred to through *registers* (`f3`, `k7`, …): an op that returns a handle names
//! the register that receives it, later ops name registers. The generator therefore only needs to
//! know kinds and owning threads of the handles it obtained, never their values.
use fxprof_processed_profile::debugid::DebugId;
use fxprof_processed_profile::*;
use serde_json::Value;
use std::collections::HashMap;
use std::panic::{catch_unwind, AssertUnwindSafe};
use std::sync::Arc;
use verif_harness::common::*;

use verif_harness::gen::c03_ops as c03_gen;

pub struct C03;

// ---------------------------------------------------------------------------------------------
// static-schema marker types (mirrored by `PT.staticSchema` in the Lean model)
// ---------------------------------------------------------------------------------------------

struct St0 {
    name: StringHandle,
    strs: Vec<StringHandle>,
}
struct St1 {
    name: StringHandle,
    strs: Vec<StringHandle>,
}
struct St2 {
    name: StringHandle,
}

const fn fld(key: &'static str, format: MarkerFieldFormat) -> StaticSchemaMarkerField {
    StaticSchemaMarkerField { key, label: "l", format, flags: MarkerFieldFlags::empty() }
}

impl StaticSchemaMarker for St0 {
    const UNIQUE_MARKER_TYPE_NAME: &'static str = "St0";
    const FIELDS: &'static [StaticSchemaMarkerField] = &[fld("f0", MarkerFieldFormat::String)];
    fn name(&self, _p: &mut Profile) -> StringHandle {
        self.name
    }
    fn string_field_value(&self, i: u32) -> StringHandle {
        match i {
            0 => self.strs[0],
            _ => unreachable!(),
        }
    }
    fn number_field_value(&self, _i: u32) -> f64 {
        unreachable!()
    }
}

impl StaticSchemaMarker for St1 {
    const UNIQUE_MARKER_TYPE_NAME: &'static str = "St1";
    const CATEGORY: Category<'static> = Category("Regular", CategoryColor::Blue);
    const FIELDS: &'static [StaticSchemaMarkerField] = &[
        fld("f0", MarkerFieldFormat::String),
        fld("f1", MarkerFieldFormat::Bytes),
        fld("f2", MarkerFieldFormat::Url),
        fld("f3", MarkerFieldFormat::Duration),
        fld("f4", MarkerFieldFormat::String),
    ];
    fn name(&self, _p: &mut Profile) -> StringHandle {
        self.name
    }
    fn string_field_value(&self, i: u32) -> StringHandle {
        match i {
            0 => self.strs[0],
            2 => self.strs[1],
            4 => self.strs[2],
            _ => unreachable!(),
        }
    }
    fn number_field_value(&self, i: u32) -> f64 {
        match i {
            1 => 512.0,
            3 => 1.5,
            _ => unreachable!(),
        }
    }
}

impl StaticSchemaMarker for St2 {
    const UNIQUE_MARKER_TYPE_NAME: &'static str = "St2";
    const CATEGORY: Category<'static> = Category("StCat", CategoryColor::Green);
    const FIELDS: &'static [StaticSchemaMarkerField] = &[];
    fn name(&self, _p: &mut Profile) -> StringHandle {
        self.name
    }
    fn string_field_value(&self, _i: u32) -> StringHandle {
        unreachable!()
    }
    fn number_field_value(&self, _i: u32) -> f64 {
        unreachable!()
    }
}

struct St3 {
    name: StringHandle,
    strs: Vec<StringHandle>,
}

impl StaticSchemaMarker for St3 {
    const UNIQUE_MARKER_TYPE_NAME: &'static str = "St3";
    const FIELDS: &'static [StaticSchemaMarkerField] = &[
        fld("f0", MarkerFieldFormat::FilePath),
        fld("f1", MarkerFieldFormat::String),
        fld("f2", MarkerFieldFormat::Seconds),
        fld("f3", MarkerFieldFormat::SanitizedString),
        fld("f4", MarkerFieldFormat::Decimal),
    ];
    fn name(&self, _p: &mut Profile) -> StringHandle {
        self.name
    }
    fn string_field_value(&self, i: u32) -> StringHandle {
        match i {
            0 => self.strs[0],
            1 => self.strs[1],
            3 => self.strs[2],
            _ => unreachable!(),
        }
    }
    fn number_field_value(&self, i: u32) -> f64 {
        match i {
            2 => 0.25,
            4 => 7.5,
            _ => unreachable!(),
        }
    }
}

/// formats of the static schemas, in the alphabet of the `mtype` op: u = unique-string,
/// s = other string kind, n = number
pub use verif_harness::gen::c03_ops::STATIC_FORMATS;

/// marker of a runtime schema
struct RtMarker {
    ty: MarkerTypeHandle,
    name: StringHandle,
    /// value per field index (None for number fields)
    strs: Vec<Option<StringHandle>>,
}

impl Marker for RtMarker {
    fn marker_type(&self, _p: &mut Profile) -> MarkerTypeHandle {
        self.ty
    }
    fn name(&self, _p: &mut Profile) -> StringHandle {
        self.name
    }
    fn string_field_value(&self, i: u32) -> StringHandle {
        self.strs[i as usize].unwrap()
    }
    fn number_field_value(&self, i: u32) -> f64 {
        i as f64
    }
}

// ---------------------------------------------------------------------------------------------
// registers
// ---------------------------------------------------------------------------------------------

#[derive(Clone)]
enum Val {
    Proc(ProcessHandle),
    Thread(ThreadHandle),
    Lib(LibraryHandle),
    Str(StringHandle),
    Cat(CategoryHandle),
    Sub(SubcategoryHandle),
    Frame(FrameHandle),
    Stack(Option<StackHandle>),
    Nsym(NativeSymbolHandle),
    MType(MarkerTypeHandle, String),
    Marker(MarkerHandle),
    Counter(CounterHandle),
}

#[derive(Clone, Copy, PartialEq, Eq, Debug)]
pub enum Kind {
    Proc,
    Thread,
    Lib,
    Str,
    Cat,
    Sub,
    Frame,
    Stack,
    Nsym,
    MType,
    Marker,
    Counter,
}

/// numbers occurring in the `Debug` rendering of a handle, e.g. `FrameHandle(ThreadHandle(0), 5)`
fn nums<T: std::fmt::Debug>(h: &T) -> String {
    let d = format!("{h:?}");
    let v: Vec<&str> = d.split(|c: char| !c.is_ascii_digit()).filter(|s| !s.is_empty()).collect();
    v.join(" ")
}

fn color(n: u64) -> CategoryColor {
    use CategoryColor::*;
    [Transparent, LightBlue, Red, LightRed, Orange, Blue, Green, Purple, Yellow, Brown, Magenta, LightGreen, Gray, DarkGray]
        [(n % 14) as usize]
}

pub fn color_name(n: u64) -> &'static str {
    ["transparent", "lightblue", "red", "lightred", "orange", "blue", "green", "purple", "yellow", "brown", "magenta",
     "lightgreen", "grey", "darkgray"][(n % 14) as usize]
}

fn unhex_str(s: &str) -> Option<String> {
    if s == "-" {
        return Some(String::new());
    }
    if s.len() % 2 != 0 || !s.bytes().all(|b| b.is_ascii_hexdigit()) {
        return None;
    }
    String::from_utf8(unhex(s)).ok()
}

pub fn hexs(s: &str) -> String {
    hex(s.as_bytes())
}

// ---------------------------------------------------------------------------------------------
// static well-formedness of an op list (same rules as `C03.parseProgram` on the Lean side)
// ---------------------------------------------------------------------------------------------

struct Checker {
    kinds: HashMap<String, Kind>,
    formats: HashMap<String, String>,
}

impl Checker {
    fn is(&self, r: &str, k: Kind) -> Option<()> {
        (self.kinds.get(r) == Some(&k)).then_some(())
    }
    fn opt(&self, r: &str, k: Kind) -> Option<()> {
        if r == "-" {
            Some(())
        } else {
            self.is(r, k)
        }
    }
    fn def(&mut self, r: &str, k: Kind) -> Option<()> {
        if r == "-" || r.is_empty() {
            return None;
        }
        self.kinds.insert(r.to_string(), k);
        Some(())
    }
    fn subcat(&self, s: &str) -> Option<()> {
        if s == "o" {
            return Some(());
        }
        let (tag, rest) = s.split_once(':')?;
        match tag {
            "c" => self.is(rest, Kind::Cat),
            "s" => self.is(rest, Kind::Sub),
            "C" => {
                let p: Vec<&str> = rest.split(':').collect();
                (p.len() == 2 && unhex_str(p[0]).is_some() && p[1].parse::<u64>().is_ok()).then_some(())
            }
            "S" => {
                let p: Vec<&str> = rest.split(':').collect();
                (p.len() == 3 && unhex_str(p[0]).is_some() && p[1].parse::<u64>().is_ok() && unhex_str(p[2]).is_some())
                    .then_some(())
            }
            _ => None,
        }
    }
}

fn num(s: &str) -> Option<u64> {
    if s.is_empty() || !s.bytes().all(|b| b.is_ascii_digit()) {
        return None;
    }
    s.parse().ok().filter(|v: &u64| *v < (1u64 << 32))
}
fn optnum(s: &str) -> Option<Option<u64>> {
    if s == "-" {
        Some(None)
    } else {
        num(s).map(Some)
    }
}
fn flag01(s: &str) -> Option<bool> {
    match s {
        "0" => Some(false),
        "1" => Some(true),
        _ => None,
    }
}
fn addr_kind(s: &str) -> Option<()> {
    matches!(s, "ip" | "ra" | "ara").then_some(())
}

/// number of string-kind fields of a format word
fn string_fields(fmt: &str) -> usize {
    fmt.chars().filter(|c| c03_gen::is_string_format(*c)).count()
}

/// the `MarkerFieldFormat` of a format letter of the `mtype` op (all 14 variants)
fn field_format(ch: char) -> Option<MarkerFieldFormat> {
    use MarkerFieldFormat::*;
    Some(match ch {
        'u' => String,
        'U' | 's' => Url,
        'P' => FilePath,
        'Z' => SanitizedString,
        'D' => Duration,
        'T' => Time,
        'S' => Seconds,
        'M' => Milliseconds,
        'C' => Microseconds,
        'N' => Nanoseconds,
        'B' => Bytes,
        'p' => Percentage,
        'i' | 'n' => Integer,
        'd' => Decimal,
        _ => return None,
    })
}

/// `st:k[:tm]` / `rt:reg[:tm]` -> (tag, argument, timing letter)
fn mtype_tok(s: &str) -> Option<(&str, &str, &str)> {
    let p: Vec<&str> = s.split(':').collect();
    match p.len() {
        2 => Some((p[0], p[1], "i")),
        3 if matches!(p[2], "i" | "v" | "s" | "e") => Some((p[0], p[1], p[2])),
        _ => None,
    }
}

pub fn check_program(ops: &[String]) -> Option<()> {
    let mut c = Checker { kinds: HashMap::new(), formats: HashMap::new() };
    for l in ops {
        let w: Vec<&str> = l.split_whitespace().collect();
        if w.is_empty() {
            return None;
        }
        match (w[0], w.len()) {
            ("process", 5) => {
                num(w[2])?;
                num(w[3])?;
                unhex_str(w[4])?;
                c.def(w[1], Kind::Proc)?;
            }
            ("thread", 6) => {
                c.is(w[2], Kind::Proc)?;
                num(w[3])?;
                num(w[4])?;
                flag01(w[5])?;
                c.def(w[1], Kind::Thread)?;
            }
            ("settid", 3) | ("setstart", 3) => {
                c.is(w[1], Kind::Thread)?;
                num(w[2])?;
            }
            ("setname", 3) => {
                c.is(w[1], Kind::Thread)?;
                unhex_str(w[2])?;
            }
            ("setpname", 3) => {
                c.is(w[1], Kind::Proc)?;
                unhex_str(w[2])?;
            }
            ("setpstart", 3) => {
                c.is(w[1], Kind::Proc)?;
                num(w[2])?;
            }
            ("lib", 3) => {
                unhex_str(w[2])?;
                c.def(w[1], Kind::Lib)?;
            }
            ("libsyms", n) if n >= 2 => {
                c.is(w[1], Kind::Lib)?;
                let mut prev: Option<u64> = None;
                for s in &w[2..] {
                    let p: Vec<&str> = s.split(':').collect();
                    if p.len() != 3 {
                        return None;
                    }
                    let a = num(p[0])?;
                    optnum(p[1])?;
                    unhex_str(p[2])?;
                    // sorted, distinct addresses (SymbolTable::new's sort + dedup are then no-ops)
                    if let Some(q) = prev {
                        if q >= a {
                            return None;
                        }
                    }
                    prev = Some(a);
                }
            }
            ("map", 6) => {
                c.is(w[1], Kind::Proc)?;
                c.is(w[2], Kind::Lib)?;
                num(w[3])?;
                num(w[4])?;
                num(w[5])?;
            }
            ("kmap", 5) => {
                c.is(w[1], Kind::Lib)?;
                num(w[2])?;
                num(w[3])?;
                num(w[4])?;
            }
            ("kunmap", 2) => {
                num(w[1])?;
            }
            ("unmap", 3) => {
                c.is(w[1], Kind::Proc)?;
                num(w[2])?;
            }
            ("clearmaps", 2) => {
                c.is(w[1], Kind::Proc)?;
            }
            ("string", 3) => {
                unhex_str(w[2])?;
                c.def(w[1], Kind::Str)?;
            }
            ("cat", 4) => {
                unhex_str(w[2])?;
                num(w[3])?;
                c.def(w[1], Kind::Cat)?;
            }
            ("subcat", 4) => {
                c.is(w[2], Kind::Cat)?;
                unhex_str(w[3])?;
                c.def(w[1], Kind::Sub)?;
            }
            ("flabel", 6) => {
                c.is(w[2], Kind::Thread)?;
                c.is(w[3], Kind::Str)?;
                c.subcat(w[4])?;
                num(w[5])?;
                c.def(w[1], Kind::Frame)?;
            }
            ("flabelsrc", 9) => {
                c.is(w[2], Kind::Thread)?;
                c.is(w[3], Kind::Str)?;
                c.opt(w[4], Kind::Str)?;
                optnum(w[5])?;
                optnum(w[6])?;
                c.subcat(w[7])?;
                num(w[8])?;
                c.def(w[1], Kind::Frame)?;
            }
            ("faddr", 7) => {
                c.is(w[2], Kind::Thread)?;
                addr_kind(w[3])?;
                num(w[4])?;
                c.subcat(w[5])?;
                num(w[6])?;
                c.def(w[1], Kind::Frame)?;
            }
            ("frel", 8) => {
                c.is(w[2], Kind::Thread)?;
                addr_kind(w[3])?;
                c.is(w[4], Kind::Lib)?;
                num(w[5])?;
                c.subcat(w[6])?;
                num(w[7])?;
                c.def(w[1], Kind::Frame)?;
            }
            ("nsym", 7) => {
                c.is(w[2], Kind::Thread)?;
                c.is(w[3], Kind::Lib)?;
                num(w[4])?;
                optnum(w[5])?;
                unhex_str(w[6])?;
                c.def(w[1], Kind::Nsym)?;
            }
            // fsym dst thread abs|rel kind lib|- addr nameStr|- nsym fileStr|- line|- col|- depth subcat flags
            ("fsym", 15) => {
                c.is(w[2], Kind::Thread)?;
                addr_kind(w[4])?;
                match w[3] {
                    "abs" => (w[5] == "-").then_some(())?,
                    "rel" => c.is(w[5], Kind::Lib)?,
                    _ => return None,
                }
                num(w[6])?;
                c.opt(w[7], Kind::Str)?;
                c.is(w[8], Kind::Nsym)?;
                c.opt(w[9], Kind::Str)?;
                optnum(w[10])?;
                optnum(w[11])?;
                (num(w[12])? < 65536).then_some(())?;
                c.subcat(w[13])?;
                num(w[14])?;
                c.def(w[1], Kind::Frame)?;
            }
            ("stack", 5) => {
                c.is(w[2], Kind::Thread)?;
                c.is(w[3], Kind::Frame)?;
                c.opt(w[4], Kind::Stack)?;
                c.def(w[1], Kind::Stack)?;
            }
            ("stackframes", n) if n >= 3 => {
                c.is(w[2], Kind::Thread)?;
                for f in &w[3..] {
                    c.is(f, Kind::Frame)?;
                }
                c.def(w[1], Kind::Stack)?;
            }
            ("sample", 5) => {
                c.is(w[1], Kind::Thread)?;
                num(w[2])?;
                c.opt(w[3], Kind::Stack)?;
                flag01(w[4])?;
            }
            ("samesample", 3) => {
                c.is(w[1], Kind::Thread)?;
                num(w[2])?;
            }
            ("allocsample", 5) => {
                c.is(w[1], Kind::Thread)?;
                num(w[2])?;
                c.opt(w[3], Kind::Stack)?;
                matches!(w[4], "foreign=0" | "foreign=1").then_some(())?;
            }
            ("mtype", 5) => {
                unhex_str(w[2])?;
                c.is(w[3], Kind::Cat)?;
                let f = if w[4] == "-" { "" } else { w[4] };
                f.chars().all(|ch| field_format(ch).is_some()).then_some(())?;
                c.def(w[1], Kind::MType)?;
                c.formats.insert(w[1].to_string(), f.to_string());
            }
            ("marker", n) if n >= 5 => {
                c.is(w[2], Kind::Thread)?;
                let (tag, rest, _tm) = mtype_tok(w[3])?;
                let fmt = match tag {
                    "st" => STATIC_FORMATS.get(num(rest)? as usize)?.to_string(),
                    "rt" => {
                        c.is(rest, Kind::MType)?;
                        c.formats.get(rest)?.clone()
                    }
                    _ => return None,
                };
                c.is(w[4], Kind::Str)?;
                (w.len() - 5 == string_fields(&fmt)).then_some(())?;
                for s in &w[5..] {
                    c.is(s, Kind::Str)?;
                }
                c.def(w[1], Kind::Marker)?;
            }
            ("mstack", 4) => {
                c.is(w[1], Kind::Thread)?;
                c.is(w[2], Kind::Marker)?;
                c.opt(w[3], Kind::Stack)?;
            }
            ("counter", 3) => {
                c.is(w[2], Kind::Proc)?;
                c.def(w[1], Kind::Counter)?;
            }
            ("csample", 3) => {
                c.is(w[1], Kind::Counter)?;
                num(w[2])?;
            }
            ("visible", 2) | ("selected", 2) => {
                c.is(w[1], Kind::Thread)?;
            }
            _ => return None,
        }
    }
    Some(())
}

// ---------------------------------------------------------------------------------------------
// executor
// ---------------------------------------------------------------------------------------------

struct Exec {
    p: Profile,
    regs: HashMap<String, Val>,
}

/// outcome of one op: `Some(line)`; `None` = an operand register is unset (an earlier op panicked)
type Step = Option<String>;

fn ts(ns: u64) -> Timestamp {
    Timestamp::from_nanos_since_reference(ns)
}

impl Exec {
    fn proc(&self, r: &str) -> Option<ProcessHandle> {
        match self.regs.get(r)? {
            Val::Proc(h) => Some(*h),
            _ => None,
        }
    }
    fn thread(&self, r: &str) -> Option<ThreadHandle> {
        match self.regs.get(r)? {
            Val::Thread(h) => Some(*h),
            _ => None,
        }
    }
    fn lib(&self, r: &str) -> Option<LibraryHandle> {
        match self.regs.get(r)? {
            Val::Lib(h) => Some(*h),
            _ => None,
        }
    }
    fn string(&self, r: &str) -> Option<StringHandle> {
        match self.regs.get(r)? {
            Val::Str(h) => Some(*h),
            _ => None,
        }
    }
    fn opt_string(&self, r: &str) -> Option<Option<StringHandle>> {
        if r == "-" {
            Some(None)
        } else {
            self.string(r).map(Some)
        }
    }
    fn cat(&self, r: &str) -> Option<CategoryHandle> {
        match self.regs.get(r)? {
            Val::Cat(h) => Some(*h),
            _ => None,
        }
    }
    fn frame(&self, r: &str) -> Option<FrameHandle> {
        match self.regs.get(r)? {
            Val::Frame(h) => Some(*h),
            _ => None,
        }
    }
    fn opt_stack(&self, r: &str) -> Option<Option<StackHandle>> {
        if r == "-" {
            return Some(None);
        }
        match self.regs.get(r)? {
            Val::Stack(h) => Some(*h),
            _ => None,
        }
    }
    fn nsym(&self, r: &str) -> Option<NativeSymbolHandle> {
        match self.regs.get(r)? {
            Val::Nsym(h) => Some(*h),
            _ => None,
        }
    }
    /// resolves a subcategory spec; the by-value forms call into the profile (they may create categories)
    fn subcat(&mut self, s: &str) -> Option<SubcategoryHandle> {
        if s == "o" {
            return Some(CategoryHandle::OTHER.into());
        }
        let (tag, rest) = s.split_once(':')?;
        match tag {
            "c" => Some(self.cat(rest)?.into()),
            "s" => match self.regs.get(rest)? {
                Val::Sub(h) => Some(*h),
                _ => None,
            },
            "C" => {
                let p: Vec<&str> = rest.split(':').collect();
                let name = unhex_str(p[0])?;
                let cat = Category(&name, color(num(p[1])?));
                Some(cat.into_subcategory_handle(&mut self.p))
            }
            "S" => {
                let p: Vec<&str> = rest.split(':').collect();
                let name = unhex_str(p[0])?;
                let sub = unhex_str(p[2])?;
                let sc = Subcategory(Category(&name, color(num(p[1])?)), &sub);
                Some(sc.into_subcategory_handle(&mut self.p))
            }
            _ => None,
        }
    }
    fn set(&mut self, r: &str, v: Val) {
        self.regs.insert(r.to_string(), v);
    }

    fn abs_addr(kind: &str, a: u64) -> FrameAddress {
        match kind {
            "ip" => FrameAddress::InstructionPointer(a),
            "ra" => FrameAddress::ReturnAddress(a),
            _ => FrameAddress::AdjustedReturnAddress(a),
        }
    }
    fn rel_addr(kind: &str, lib: LibraryHandle, a: u32) -> FrameAddress {
        match kind {
            "ip" => FrameAddress::RelativeAddressFromInstructionPointer(lib, a),
            "ra" => FrameAddress::RelativeAddressFromReturnAddress(lib, a),
            _ => FrameAddress::RelativeAddressFromAdjustedReturnAddress(lib, a),
        }
    }

    fn step(&mut self, w: &[&str], stats: &mut Stats) -> Step {
        let flags = |s: &str| FrameFlags::from_bits_truncate(num(s).unwrap_or(0) as u32 & 3);
        match w[0] {
            "process" => {
                let name = unhex_str(w[4])?;
                let h = self.p.add_process(&name, num(w[2])? as u32, ts(num(w[3])?));
                self.set(w[1], Val::Proc(h));
                Some(format!("h {}", nums(&h)))
            }
            "thread" => {
                let pr = self.proc(w[2])?;
                let h = self.p.add_thread(pr, num(w[3])? as u32, ts(num(w[4])?), flag01(w[5])?);
                self.set(w[1], Val::Thread(h));
                Some(format!("h {}", nums(&h)))
            }
            "settid" => {
                let t = self.thread(w[1])?;
                self.p.set_thread_tid(t, num(w[2])? as u32);
                Some("ok".into())
            }
            "setstart" => {
                let t = self.thread(w[1])?;
                self.p.set_thread_start_time(t, ts(num(w[2])?));
                Some("ok".into())
            }
            "setname" => {
                let t = self.thread(w[1])?;
                self.p.set_thread_name(t, &unhex_str(w[2])?);
                Some("ok".into())
            }
            "setpname" => {
                let pr = self.proc(w[1])?;
                self.p.set_process_name(pr, &unhex_str(w[2])?);
                Some("ok".into())
            }
            "setpstart" => {
                let pr = self.proc(w[1])?;
                self.p.set_process_start_time(pr, ts(num(w[2])?));
                Some("ok".into())
            }
            "lib" => {
                // the op carries the library's identity string `dir/…/name`; LibraryInfo::name is its last component
                // (so that different libraries can share a name), the path is "/lib/" + identity
                // an optional `#<variant>` suffix (`d<hex>` debug id, `c<hex>` code id, `a<digit>` arch, `n<digit>`
                // debug name, in this order) changes only those fields: name and path stay the same
                let ident = unhex_str(w[2])?;
                let (base, variant) = match ident.split_once('#') {
                    Some((b, v)) => (b.to_string(), v.to_string()),
                    None => (ident.clone(), String::new()),
                };
                let name = base.rsplit('/').next().unwrap_or("").to_string();
                let mut debug_id = DebugId::nil();
                let mut code_id = None;
                let mut arch = None;
                let mut debug_name = name.clone();
                let vb: Vec<char> = variant.chars().collect();
                let mut i = 0;
                while i + 1 < vb.len() {
                    let k = vb[i + 1];
                    match vb[i] {
                        'd' => debug_id = DebugId::from_breakpad(&format!("{}0", k.to_string().repeat(32))).ok()?,
                        'c' => code_id = Some(format!("c{k}")),
                        'a' => arch = Some(format!("arch{k}")),
                        'n' => debug_name = format!("{name}.dbg{k}"),
                        _ => return None,
                    }
                    i += 2;
                }
                if !variant.is_empty() {
                    stats.bump("libs_with_variant_fields");
                }
                let h = self.p.add_lib(LibraryInfo {
                    name: name.clone(),
                    debug_name,
                    path: format!("/lib/{base}"),
                    debug_path: format!("/lib/{base}"),
                    debug_id,
                    code_id,
                    arch,
                });
                self.set(w[1], Val::Lib(h));
                Some(format!("h {}", nums(&h)))
            }
            "libsyms" => {
                let l = self.lib(w[1])?;
                let mut syms = Vec::new();
                for s in &w[2..] {
                    let p: Vec<&str> = s.split(':').collect();
                    syms.push(Symbol {
                        address: num(p[0])? as u32,
                        size: optnum(p[1])?.map(|x| x as u32),
                        name: unhex_str(p[2])?,
                    });
                }
                self.p.set_lib_symbol_table(l, Arc::new(SymbolTable::new(syms)));
                Some("ok".into())
            }
            "map" => {
                let pr = self.proc(w[1])?;
                let l = self.lib(w[2])?;
                self.p.add_lib_mapping(pr, l, num(w[3])?, num(w[4])?, num(w[5])? as u32);
                Some("ok".into())
            }
            "kmap" => {
                let l = self.lib(w[1])?;
                self.p.add_kernel_lib_mapping(l, num(w[2])?, num(w[3])?, num(w[4])? as u32);
                Some("ok".into())
            }
            "kunmap" => {
                self.p.remove_kernel_lib_mapping(num(w[1])?);
                Some("ok".into())
            }
            "unmap" => {
                let pr = self.proc(w[1])?;
                self.p.remove_lib_mapping(pr, num(w[2])?);
                Some("ok".into())
            }
            "clearmaps" => {
                let pr = self.proc(w[1])?;
                self.p.clear_process_lib_mappings(pr);
                Some("ok".into())
            }
            "string" => {
                let h = self.p.handle_for_string(&unhex_str(w[2])?);
                self.set(w[1], Val::Str(h));
                Some(format!("h {}", nums(&h)))
            }
            "cat" => {
                let name = unhex_str(w[2])?;
                let h = self.p.handle_for_category(Category(&name, color(num(w[3])?)));
                self.set(w[1], Val::Cat(h));
                Some(format!("h {}", nums(&h)))
            }
            "subcat" => {
                let c = self.cat(w[2])?;
                let h = self.p.handle_for_subcategory(c, &unhex_str(w[3])?);
                self.set(w[1], Val::Sub(h));
                Some(format!("h {}", nums(&h)))
            }
            "flabel" => {
                let t = self.thread(w[2])?;
                let s = self.string(w[3])?;
                let sc = self.subcat(w[4])?;
                let h = self.p.handle_for_frame_with_label(t, s, sc, flags(w[5]));
                stats.bump("frames_label");
                self.set(w[1], Val::Frame(h));
                Some(format!("h {}", nums(&h)))
            }
            "flabelsrc" => {
                let t = self.thread(w[2])?;
                let s = self.string(w[3])?;
                let file = self.opt_string(w[4])?;
                let loc = SourceLocation {
                    file_path: file,
                    line: optnum(w[5])?.map(|x| x as u32),
                    col: optnum(w[6])?.map(|x| x as u32),
                };
                let sc = self.subcat(w[7])?;
                let h = self.p.handle_for_frame_with_label_and_source_location(t, s, loc, sc, flags(w[8]));
                stats.bump("frames_label_src");
                self.set(w[1], Val::Frame(h));
                Some(format!("h {}", nums(&h)))
            }
            "faddr" => {
                let t = self.thread(w[2])?;
                let sc = self.subcat(w[5])?;
                let h = self.p.handle_for_frame_with_address(t, Self::abs_addr(w[3], num(w[4])?), sc, flags(w[6]));
                stats.bump("frames_abs_address");
                self.set(w[1], Val::Frame(h));
                Some(format!("h {}", nums(&h)))
            }
            "frel" => {
                let t = self.thread(w[2])?;
                let l = self.lib(w[4])?;
                let sc = self.subcat(w[6])?;
                let h =
                    self.p.handle_for_frame_with_address(t, Self::rel_addr(w[3], l, num(w[5])? as u32), sc, flags(w[7]));
                stats.bump("frames_rel_address");
                self.set(w[1], Val::Frame(h));
                Some(format!("h {}", nums(&h)))
            }
            "nsym" => {
                let t = self.thread(w[2])?;
                let l = self.lib(w[3])?;
                let sym = Symbol {
                    address: num(w[4])? as u32,
                    size: optnum(w[5])?.map(|x| x as u32),
                    name: unhex_str(w[6])?,
                };
                let h = self.p.handle_for_native_symbol(t, l, &sym);
                stats.bump("native_symbol_handles");
                self.set(w[1], Val::Nsym(h));
                Some(format!("h {}", nums(&h)))
            }
            "fsym" => {
                let t = self.thread(w[2])?;
                let a = num(w[6])?;
                let addr = if w[3] == "abs" {
                    Self::abs_addr(w[4], a)
                } else {
                    Self::rel_addr(w[4], self.lib(w[5])?, a as u32)
                };
                let info = FrameSymbolInfo {
                    name: self.opt_string(w[7])?,
                    native_symbol: self.nsym(w[8])?,
                    source_location: SourceLocation {
                        file_path: self.opt_string(w[9])?,
                        line: optnum(w[10])?.map(|x| x as u32),
                        col: optnum(w[11])?.map(|x| x as u32),
                    },
                };
                let depth = num(w[12])? as u16;
                let sc = self.subcat(w[13])?;
                let h = self.p.handle_for_frame_with_address_and_symbol(t, addr, info, depth, sc, flags(w[14]));
                stats.bump("frames_with_symbol");
                if depth > 0 {
                    stats.bump("frames_with_inline_depth");
                }
                self.set(w[1], Val::Frame(h));
                Some(format!("h {}", nums(&h)))
            }
            "stack" => {
                let t = self.thread(w[2])?;
                let f = self.frame(w[3])?;
                let parent = self.opt_stack(w[4])?;
                let h = self.p.handle_for_stack(t, f, parent);
                self.set(w[1], Val::Stack(Some(h)));
                Some(format!("h {}", nums(&h)))
            }
            "stackframes" => {
                let t = self.thread(w[2])?;
                let mut frames = Vec::new();
                for f in &w[3..] {
                    frames.push(self.frame(f)?);
                }
                let mut it = frames.into_iter();
                let h = self.p.handle_for_stack_frames(t, |_| it.next());
                self.set(w[1], Val::Stack(h));
                Some(match h {
                    Some(h) => format!("h {}", nums(&h)),
                    None => "h none".into(),
                })
            }
            "sample" => {
                let t = self.thread(w[1])?;
                let st = self.opt_stack(w[3])?;
                let cpu = if flag01(w[4])? { CpuDelta::ZERO } else { CpuDelta::from_micros(7) };
                self.p.add_sample(t, ts(num(w[2])?), st, cpu, 1);
                Some("ok".into())
            }
            "samesample" => {
                let t = self.thread(w[1])?;
                self.p.add_sample_same_stack_zero_cpu(t, ts(num(w[2])?), 1);
                Some("ok".into())
            }
            "allocsample" => {
                let t = self.thread(w[1])?;
                let st = self.opt_stack(w[3])?;
                self.p.add_allocation_sample(t, ts(num(w[2])?), st, 0x1000, 16);
                if w[4] == "foreign=1" {
                    stats.bump("alloc_samples_foreign_stack");
                }
                Some("ok".into())
            }
            "mtype" => {
                let c = self.cat(w[3])?;
                let f = if w[4] == "-" { "" } else { w[4] };
                let fields = f
                    .chars()
                    .enumerate()
                    .map(|(i, ch)| RuntimeSchemaMarkerField {
                        key: format!("f{i}"),
                        label: "l".into(),
                        format: field_format(ch).unwrap_or(MarkerFieldFormat::Integer),
                        flags: MarkerFieldFlags::empty(),
                    })
                    .collect();
                let h = self.p.register_marker_type(RuntimeSchemaMarkerSchema {
                    type_name: unhex_str(w[2])?,
                    category: c,
                    description: None,
                    locations: MarkerLocations::MARKER_CHART,
                    chart_label: None,
                    tooltip_label: None,
                    table_label: None,
                    fields,
                    graphs: vec![],
                });
                stats.bump("runtime_schemas");
                self.set(w[1], Val::MType(h, f.to_string()));
                Some(format!("h {}", nums(&h)))
            }
            "marker" => {
                let t = self.thread(w[2])?;
                let name = self.string(w[4])?;
                let mut strs = Vec::new();
                for s in &w[5..] {
                    strs.push(self.string(s)?);
                }
                let (tag, rest, tm) = mtype_tok(w[3])?;
                let timing = match tm {
                    "v" => MarkerTiming::Interval(ts(1), ts(3)),
                    "s" => MarkerTiming::IntervalStart(ts(2)),
                    "e" => MarkerTiming::IntervalEnd(ts(4)),
                    _ => MarkerTiming::Instant(ts(1)),
                };
                stats.bump(&format!("marker_timing_{tm}"));
                let h = if tag == "st" {
                    stats.bump("markers_static_schema");
                    match num(rest)? {
                        0 => self.p.add_marker(t, timing, St0 { name, strs }),
                        1 => self.p.add_marker(t, timing, St1 { name, strs }),
                        2 => self.p.add_marker(t, timing, St2 { name }),
                        _ => self.p.add_marker(t, timing, St3 { name, strs }),
                    }
                } else {
                    stats.bump("markers_runtime_schema");
                    let (ty, fmt) = match self.regs.get(rest)? {
                        Val::MType(h, f) => (*h, f.clone()),
                        _ => return None,
                    };
                    let mut it = strs.into_iter();
                    for ch in fmt.chars() {
                        stats.bump(&format!("marker_field_format_{ch}"));
                    }
                    let strs = fmt.chars().map(|ch| if c03_gen::is_string_format(ch) { it.next() } else { None }).collect();
                    self.p.add_marker(t, timing, RtMarker { ty, name, strs })
                };
                self.set(w[1], Val::Marker(h));
                Some(format!("h {}", nums(&h)))
            }
            "mstack" => {
                let t = self.thread(w[1])?;
                let m = match self.regs.get(w[2])? {
                    Val::Marker(m) => *m,
                    _ => return None,
                };
                let st = self.opt_stack(w[3])?;
                self.p.set_marker_stack(t, m, st);
                Some("ok".into())
            }
            "counter" => {
                let pr = self.proc(w[2])?;
                let h = self.p.add_counter(pr, "c", "Memory", "d");
                self.set(w[1], Val::Counter(h));
                Some(format!("h {}", nums(&h)))
            }
            "csample" => {
                let c = match self.regs.get(w[1])? {
                    Val::Counter(c) => *c,
                    _ => return None,
                };
                self.p.add_counter_sample(c, ts(num(w[2])?), 1.0, 1);
                Some("ok".into())
            }
            "visible" => {
                let t = self.thread(w[1])?;
                self.p.add_initial_visible_thread(t);
                Some("ok".into())
            }
            "selected" => {
                let t = self.thread(w[1])?;
                self.p.add_initial_selected_thread(t);
                Some("ok".into())
            }
            _ => Some("bad-op".into()),
        }
    }
}

// ---------------------------------------------------------------------------------------------
// table dump of the serialized JSON
// ---------------------------------------------------------------------------------------------

fn arr<'a>(v: &'a Value, key: &str) -> Option<&'a Vec<Value>> {
    v.get(key)?.as_array()
}

fn tok(v: &Value) -> String {
    match v {
        Value::Null => "-".into(),
        Value::Number(n) => {
            if let Some(u) = n.as_u64() {
                u.to_string()
            } else if n.as_i64() == Some(-1) {
                "-".into()
            } else {
                "?".into()
            }
        }
        Value::Bool(b) => (*b as u8).to_string(),
        _ => "?".into(),
    }
}

fn col(table: &Value, key: &str) -> String {
    match arr(table, key) {
        Some(a) => a.iter().map(tok).collect::<Vec<_>>().join(" "),
        None => "missing".into(),
    }
}

fn header(tag: &str, table: &Value, cols: &[&str]) -> String {
    let mut s = format!("{tag} {}", table.get("length").map(tok).unwrap_or("x".into()));
    for c in cols {
        s.push(' ');
        s.push_str(&arr(table, c).map(|a| a.len().to_string()).unwrap_or("x".into()));
    }
    s
}

fn strv(v: Option<&Value>) -> String {
    hexs(v.and_then(|x| x.as_str()).unwrap_or("?"))
}

/// identity string of a serialized library: its path without the "/lib/" prefix the `lib` op added; the
/// `name` field must be the identity's last component (otherwise the identity is reported as `?name`)
fn lib_ident(l: &Value) -> String {
    let path = l.get("path").and_then(|x| x.as_str()).unwrap_or("?");
    let name = l.get("name").and_then(|x| x.as_str()).unwrap_or("?");
    let ident = path.strip_prefix("/lib/").unwrap_or("?");
    // the `#<variant>` suffix, reconstructed from the fields it stands for
    let mut variant = String::new();
    let bp = l.get("breakpadId").and_then(|x| x.as_str()).unwrap_or("?");
    if bp != "000000000000000000000000000000000" {
        let k = bp.chars().next().unwrap_or('?').to_ascii_lowercase();
        if bp.len() == 33 && bp[..32].chars().all(|c| c.to_ascii_lowercase() == k) && bp.ends_with('0') {
            variant.push_str(&format!("d{k}"));
        } else {
            variant.push_str("d?");
        }
    }
    match l.get("codeId") {
        Some(Value::Null) | None => {}
        Some(v) => variant.push_str(&format!("c{}", v.as_str().and_then(|s| s.strip_prefix('c')).unwrap_or("?"))),
    }
    match l.get("arch") {
        Some(Value::Null) | None => {}
        Some(v) => variant.push_str(&format!("a{}", v.as_str().and_then(|s| s.strip_prefix("arch")).unwrap_or("?"))),
    }
    let dn = l.get("debugName").and_then(|x| x.as_str()).unwrap_or("?");
    if dn != name {
        variant.push_str(&format!("n{}", dn.strip_prefix(&format!("{name}.dbg")).unwrap_or("?")));
    }
    if ident.rsplit('/').next().unwrap_or("") == name && l.get("debugPath").and_then(|x| x.as_str()) == Some(path) {
        if variant.is_empty() {
            hexs(ident)
        } else {
            hexs(&format!("{ident}#{variant}"))
        }
    } else {
        hexs(&format!("?{name}"))
    }
}

fn dump(json: &Value, out: &mut Vec<String>, stats: &mut Stats) {
    let libs = json.get("libs").and_then(|l| l.as_array()).cloned().unwrap_or_default();
    out.push(format!("libs {}", libs.iter().map(|l| lib_ident(l)).collect::<Vec<_>>().join(" ")).trim_end().to_string());
    let meta = &json["meta"];
    let cats = meta.get("categories").and_then(|c| c.as_array()).cloned().unwrap_or_default();
    let mut s = String::from("cats");
    for c in &cats {
        let subs = arr(c, "subcategories").map(|a| a.iter().map(|x| strv(Some(x))).collect::<Vec<_>>().join(",")).unwrap_or_default();
        s.push_str(&format!(" {}:{}:{}", strv(c.get("name")), c.get("color").and_then(|x| x.as_str()).unwrap_or("?"), subs));
    }
    out.push(s);
    for (tag, key) in [("vis", "initialVisibleThreads"), ("sel", "initialSelectedThreads")] {
        let v = meta.get(key).and_then(|x| x.as_array()).cloned().unwrap_or_default();
        out.push(format!("{tag} {}", v.iter().map(tok).collect::<Vec<_>>().join(" ")).trim_end().to_string());
    }
    // schema name -> keys of the unique-string fields
    let mut ustr_keys: HashMap<String, Vec<String>> = HashMap::new();
    for sch in meta.get("markerSchema").and_then(|x| x.as_array()).cloned().unwrap_or_default() {
        let name = sch.get("name").and_then(|x| x.as_str()).unwrap_or("?").to_string();
        let mut keys = Vec::new();
        for f in sch.get("fields").and_then(|x| x.as_array()).cloned().unwrap_or_default() {
            if f.get("format").and_then(|x| x.as_str()) == Some("unique-string") {
                keys.push(f.get("key").and_then(|x| x.as_str()).unwrap_or("?").to_string());
            }
        }
        ustr_keys.insert(name, keys);
    }
    for c in json.get("counters").and_then(|x| x.as_array()).cloned().unwrap_or_default() {
        out.push(format!(
            "counter {} {} {}",
            c.get("pid").and_then(|x| x.as_str()).unwrap_or("?"),
            c.get("mainThreadIndex").map(tok).unwrap_or("x".into()),
            {
                // `samples.length`, provided every column of the counter's sample table has that length
                let sm = c.get("samples");
                let len = sm.and_then(|s| s.get("length")).and_then(|x| x.as_u64());
                let cols_ok = ["count", "number", "timeDeltas"]
                    .iter()
                    .all(|k| sm.and_then(|s| s.get(*k)).and_then(|x| x.as_array()).map(|a| a.len() as u64) == len);
                match (len, cols_ok) {
                    (Some(l), true) => l.to_string(),
                    _ => "x".into(),
                }
            }
        ));
    }
    let threads = json.get("threads").and_then(|x| x.as_array()).cloned().unwrap_or_default();
    stats.add("threads_serialized", threads.len() as u64);
    for t in &threads {
        out.push(format!(
            "thread {} {} {} {} {}",
            t.get("pid").and_then(|x| x.as_str()).unwrap_or("?"),
            t.get("tid").and_then(|x| x.as_str()).unwrap_or("?"),
            t.get("isMainThread").map(tok).unwrap_or("x".into()),
            strv(t.get("processName")),
            strv(t.get("name"))
        ));
        let sa = t.get("stringArray").and_then(|x| x.as_array()).cloned().unwrap_or_default();
        out.push(format!("S {} {}", sa.len(), sa.iter().map(|x| strv(Some(x))).collect::<Vec<_>>().join(" ")).trim_end().to_string());
        let ft = &t["frameTable"];
        out.push(header("FT", ft, &["func", "category", "subcategory", "line", "column", "address", "nativeSymbol", "inlineDepth", "innerWindowID"]));
        for (tag, key) in [("FT.func", "func"), ("FT.cat", "category"), ("FT.sub", "subcategory"), ("FT.line", "line"), ("FT.col", "column"), ("FT.addr", "address"), ("FT.nsym", "nativeSymbol"), ("FT.depth", "inlineDepth")] {
            out.push(format!("{tag} {}", col(ft, key)).trim_end().to_string());
        }
        let fnt = &t["funcTable"];
        out.push(header("FN", fnt, &["name", "isJS", "relevantForJS", "resource", "fileName", "lineNumber", "columnNumber"]));
        out.push(format!("FN.name {}", col(fnt, "name")).trim_end().to_string());
        let flags: Vec<String> = match (arr(fnt, "isJS"), arr(fnt, "relevantForJS")) {
            (Some(a), Some(b)) if a.len() == b.len() => a
                .iter()
                .zip(b.iter())
                .map(|(x, y)| (x.as_bool().unwrap_or(false) as u8 + 2 * (y.as_bool().unwrap_or(false) as u8)).to_string())
                .collect(),
            _ => vec!["?".into()],
        };
        out.push(format!("FN.flags {}", flags.join(" ")).trim_end().to_string());
        out.push(format!("FN.res {}", col(fnt, "resource")).trim_end().to_string());
        out.push(format!("FN.file {}", col(fnt, "fileName")).trim_end().to_string());
        let rt = &t["resourceTable"];
        out.push(header("RT", rt, &["lib", "name", "host", "type"]));
        out.push(format!("RT.lib {}", col(rt, "lib")).trim_end().to_string());
        out.push(format!("RT.name {}", col(rt, "name")).trim_end().to_string());
        let ns = &t["nativeSymbols"];
        out.push(header("NS", ns, &["address", "functionSize", "libIndex", "name"]));
        for (tag, key) in [("NS.addr", "address"), ("NS.size", "functionSize"), ("NS.lib", "libIndex"), ("NS.name", "name")] {
            out.push(format!("{tag} {}", col(ns, key)).trim_end().to_string());
        }
        let st = &t["stackTable"];
        out.push(header("ST", st, &["prefix", "frame"]));
        out.push(format!("ST.prefix {}", col(st, "prefix")).trim_end().to_string());
        out.push(format!("ST.frame {}", col(st, "frame")).trim_end().to_string());
        stats.add("stack_rows", arr(st, "frame").map(|a| a.len()).unwrap_or(0) as u64);
        stats.add("frame_rows", arr(ft, "func").map(|a| a.len()).unwrap_or(0) as u64);
        stats.add("func_rows", arr(fnt, "name").map(|a| a.len()).unwrap_or(0) as u64);
        let sm = &t["samples"];
        out.push(header("SA", sm, &["stack", "timeDeltas", "weight", "threadCPUDelta"]));
        // row order is C04's subject (the serializer sorts by time with an unstable sort): compare as a multiset
        let mut stacks: Vec<Option<u64>> = arr(sm, "stack").map(|a| a.iter().map(|x| x.as_u64()).collect()).unwrap_or_default();
        stacks.sort();
        out.push(
            format!("SA.stack {}", stacks.iter().map(|x| x.map(|v| v.to_string()).unwrap_or("-".into())).collect::<Vec<_>>().join(" "))
                .trim_end()
                .to_string(),
        );
        match t.get("nativeAllocations") {
            None => out.push("NA -".into()),
            Some(na) => {
                out.push(header("NA", na, &["time", "weight", "stack", "memoryAddress", "threadId"]));
                out.push(format!("NA.stack {}", col(na, "stack")).trim_end().to_string());
            }
        }
        let mk = &t["markers"];
        out.push(header("MK", mk, &["category", "data", "endTime", "name", "phase", "startTime"]));
        out.push(format!("MK.cat {}", col(mk, "category")).trim_end().to_string());
        out.push(format!("MK.name {}", col(mk, "name")).trim_end().to_string());
        let data = arr(mk, "data").cloned().unwrap_or_default();
        let mut stk = Vec::new();
        let mut ustr = Vec::new();
        for (i, d) in data.iter().enumerate() {
            stk.push(d.get("cause").and_then(|c| c.get("stack")).map(tok).unwrap_or("-".into()));
            let ty = d.get("type").and_then(|x| x.as_str()).unwrap_or("?");
            if let Some(keys) = ustr_keys.get(ty) {
                for k in keys {
                    ustr.push(format!("{i}:{}", d.get(k).map(tok).unwrap_or("x".into())));
                }
            } else {
                ustr.push(format!("{i}:noschema"));
            }
        }
        out.push(format!("MK.stack {}", stk.join(" ")).trim_end().to_string());
        // startTime / endTime: `None` is serialized as 0.0 (serialization_helpers.rs:25), a stored time as its value in
        // ms; the harness only passes non-zero times, so "non-zero" = "a time was stored".  phase: the number
        for (tag, key) in [("MK.start", "startTime"), ("MK.end", "endTime")] {
            let c = match arr(mk, key) {
                Some(a) => a.iter().map(|v| match v.as_f64() { Some(x) if x == 0.0 => "0", Some(_) => "1", None => "?" }).collect::<Vec<_>>().join(" "),
                None => "missing".into(),
            };
            out.push(format!("{tag} {c}").trim_end().to_string());
        }
        out.push(format!("MK.phase {}", col(mk, "phase")).trim_end().to_string());
        out.push(format!("MK.ustr {}", ustr.join(" ")).trim_end().to_string());
    }
}

impl Prop for C03 {
    fn id(&self) -> &'static str {
        "C03"
    }
    fn case_count(&self, tier: Tier) -> u64 {
        match tier {
            Tier::Quick => 6000,
            Tier::Thorough => 100000,
        }
    }
    fn fixed_cases(&self, tier: Tier) -> Vec<Case> {
        c03_gen::fixed_cases(tier)
    }
    fn generate(&self, rng: &mut Rng, tier: Tier, index: u64) -> Vec<String> {
        let ops = c03_gen::generate(rng, tier, index);
        assert!(check_program(&ops).is_some(), "generator produced an ill-formed program");
        ops
    }
    fn execute(&self, ops: &[String], stats: &mut Stats) -> Vec<String> {
        if check_program(ops).is_none() {
            stats.bump("ill_formed_cases");
            return vec!["bad-op".to_string()];
        }
        let mut ex = Exec {
            p: Profile::new("verif", ReferenceTimestamp::from_millis_since_unix_epoch(0.0), SamplingInterval::from_millis(1)),
            regs: HashMap::new(),
        };
        let mut out = Vec::new();
        let half = ops.len() / 2;
        for (opi, l) in ops.iter().enumerate() {
            // serialisation must not change the profile: serialise once half-way (result discarded) so that anything
            // cached at the first serialisation (used-lib list, thread order, string tables) would be stale at the end
            if opi == half && half > 0 {
                if catch_unwind(AssertUnwindSafe(|| serde_json::to_value(&ex.p).is_ok())).is_err() {
                    stats.bump("midway_serialize_panics");
                }
            }
            let w: Vec<&str> = l.split_whitespace().collect();
            stats.bump(&format!("op_{}", w[0]));
            let r = catch_unwind(AssertUnwindSafe(|| ex.step(&w, stats)));
            match r {
                Ok(Some(line)) => out.push(line),
                Ok(None) => {
                    stats.bump("ops_skipped_unset_register");
                    out.push("skipped".into())
                }
                Err(e) => {
                    // the `assert_eq!`s on handles of another thread carry a recognisable message
                    let msg = e.downcast_ref::<String>().cloned().or_else(|| e.downcast_ref::<&str>().map(|s| s.to_string())).unwrap_or_default();
                    if msg.contains("different thread") || msg.contains("wrong thread") {
                        stats.bump("ops_rejected_foreign_handle");
                        out.push("rejected".into());
                    } else {
                        stats.bump("ops_panicked");
                        out.push("panic".into());
                    }
                }
            }
        }
        match catch_unwind(AssertUnwindSafe(|| serde_json::to_value(&ex.p))) {
            Ok(Ok(json)) => {
                // serialising twice gives the same JSON
                match catch_unwind(AssertUnwindSafe(|| serde_json::to_value(&ex.p))) {
                    Ok(Ok(again)) if again == json => dump(&json, &mut out, stats),
                    _ => {
                        stats.bump("second_serialization_differs");
                        out.push("serialize-twice-differs".into());
                    }
                }
            }
            Ok(Err(_)) => out.push("serialize-error".into()),
            Err(_) => {
                stats.bump("serialize_panics");
                out.push("panic".into());
            }
        }
        out
    }
    fn nontrivial(&self, _ops: &[String], out: &[String]) -> bool {
        // at least one thread with a non-empty stack table and one referenced stack
        out.iter().any(|l| l.starts_with("ST ") && !l.starts_with("ST 0"))
            && out.iter().any(|l| (l.starts_with("SA.stack ") || l.starts_with("MK.stack ") || l.starts_with("NA.stack ")) && l.split_whitespace().skip(1).any(|t| t != "-"))
    }
}

fn main() {
    verif_harness::runner::run_main(&C03);
}
