//! C14 — deep stacks are shortened only in the middle. perf.data pipeline with call chains of chosen
//! depth made of pairwise distinct addresses (so every kept frame is identifiable); observable: the full
//! root-first frame list of each sample.
use verif_harness::common::*;
use verif_harness::gen::perfdata::*;

pub struct C14;

/// several deep samples in one recording: on the same thread and on a second thread, so that stacks of
/// different elision counts meet in one thread's tables
fn multi_case(depths: &[u64], second_thread_depths: &[u64]) -> History {
    let t0 = 5_000_000u64;
    let mut recs = vec![Rec::Comm { pid: 100, tid: 100, name: "deep".to_string(), exec: false, t: t0 - 10 }];
    let mut t = t0;
    let mk = |tid: u32, depth: u64, t: u64, salt: u64| {
        let mut chain = vec![CTX_USER];
        for i in 0..depth {
            chain.push(0x10000 + 16 * i + 8 + salt);
        }
        Rec::Sample { pid: 100, tid, t, kernel: false, period: 1_000_000, ip: 0x10008, chain }
    };
    for (k, d) in depths.iter().enumerate() {
        recs.push(mk(100, *d, t, k as u64 % 2));
        t += 1000;
    }
    for (k, d) in second_thread_depths.iter().enumerate() {
        recs.push(mk(101, *d, t, k as u64 % 2));
        t += 1000;
    }
    History { reuse: false, fold: false, ref_time: t0, recs, ..Default::default() }
}

fn deep_case(depth: u64, fold: bool, extra_shallow: bool, mapped: bool, recursion: u64) -> History {
    let t0 = 5_000_000u64;
    let mut recs = vec![Rec::Comm { pid: 100, tid: 100, name: "deep".to_string(), exec: false, t: t0 - 10 }];
    if mapped {
        // one mapping covering part of the address range used by the chain
        recs.push(Rec::Mmap2 { pid: 100, tid: 100, addr: 0x10000, len: 0x4000, pgoff: 0x1000, exec: true, path: "/nonexistent-verif/bin/deep".to_string(), t: t0 - 5 });
    }
    let mut chain = vec![CTX_USER];
    for i in 0..depth {
        chain.push(0x10000 + 16 * i + 8);
    }
    // recursion at the root end: the same address repeated
    for _ in 0..recursion {
        chain.push(0x10000 + 16 * depth.saturating_sub(1) + 8);
    }
    recs.push(Rec::Sample { pid: 100, tid: 100, t: t0, kernel: false, period: 1_000_000, ip: 0x10008, chain });
    if extra_shallow {
        recs.push(Rec::Sample { pid: 100, tid: 100, t: t0 + 1000, kernel: false, period: 1_000_000, ip: 0x10008, chain: vec![CTX_USER, 0x10008, 0x10018, 0x10028] });
    }
    History { reuse: false, fold, ref_time: t0, recs, ..Default::default() }
}

/// one sample of `depth` recorded frames, all return addresses inside perf-map functions of pid 100; `names`
/// are the functions (16 bytes each from 0x10000), the frames cycle through them
fn jit_case(depth: u64, names: &[&str]) -> History {
    let t0 = 5_000_000u64;
    let mut recs = vec![Rec::Comm { pid: 100, tid: 100, name: "jit".to_string(), exec: false, t: t0 - 10 }];
    let mut perf_maps = Vec::new();
    for (k, n) in names.iter().enumerate() {
        perf_maps.push((100u32, PerfMapLine::Fn { addr: 0x10000 + 16 * k as u64, len: 16, name: n.to_string() }));
    }
    let mut chain = vec![CTX_USER];
    for i in 0..depth {
        chain.push(0x10000 + 16 * (i % names.len() as u64) + 1 + (i / names.len() as u64) % 15);
    }
    recs.push(Rec::Sample { pid: 100, tid: 100, t: t0, kernel: false, period: 1_000_000, ip: 0x10008, chain });
    History { reuse: false, fold: false, ref_time: t0, recs, perf_maps, ..Default::default() }
}

impl Prop for C14 {
    fn id(&self) -> &'static str {
        "C14"
    }
    fn case_count(&self, tier: Tier) -> u64 {
        match tier {
            Tier::Quick => 60,
            Tier::Thorough => 1500,
        }
    }
    fn fixed_cases(&self, tier: Tier) -> Vec<Case> {
        let mut v = Vec::new();
        // every depth around the threshold and around each further multiple of 200 below 1300 (quick: a band
        // around each boundary; thorough: every depth 0..=1300)
        let mut depths: Vec<u64> = Vec::new();
        match tier {
            Tier::Quick => {
                for d in [0u64, 1, 2, 199, 200, 201, 299, 300, 301, 400] {
                    depths.push(d);
                }
                for b in [500u64, 700, 900, 1100] {
                    for d in b - 4..=b + 4 {
                        depths.push(d);
                    }
                }
                depths.extend([600, 650, 699, 800, 899, 1000, 1299, 1300, 1301, 2000, 4096, 8000, 8100]);
            }
            Tier::Thorough => {
                depths.extend(0..=1320);
                depths.extend((1400..=8100).step_by(97));
            }
        }
        for d in depths {
            let h = deep_case(d, false, d % 2 == 0, d % 3 == 0, 0);
            v.push(Case { name: format!("depth{d}"), ops: h.to_ops() });
        }
        // several deep stacks with different elision counts on one thread / two threads
        let multis: [(&[u64], &[u64]); 6] = [
            (&[520, 750], &[]),
            (&[700, 500], &[]),
            (&[900, 1300, 600, 499], &[]),
            (&[650], &[1100, 650]),
            (&[500, 500, 700, 700], &[700, 500]),
            (&[3000, 501, 8000], &[300, 2000]),
        ];
        v.push(Case { name: "js600".to_string(), ops: jit_case(600, &["py::f"]).to_ops() });
        for (k, (a, b)) in multis.iter().enumerate() {
            v.push(Case { name: format!("multi{k}"), ops: multi_case(a, b).to_ops() });
        }
        v
    }
    fn generate(&self, rng: &mut Rng, _tier: Tier, _index: u64) -> Vec<String> {
        if rng.chance(1, 3) {
            let pick = |rng: &mut Rng| match rng.below(3) {
                0 => rng.range(1, 499),
                1 => 500 + 200 * rng.below(5) + rng.below(200),
                _ => rng.range(500, 3000),
            };
            let a: Vec<u64> = (0..rng.range(2, 4)).map(|_| pick(rng)).collect();
            let b: Vec<u64> = (0..rng.below(3)).map(|_| pick(rng)).collect();
            return multi_case(&a, &b).to_ops();
        }
        let depth = match rng.below(4) {
            0 => rng.range(0, 520),
            1 => 500 + 200 * rng.below(6) + rng.below(7) - 3,
            2 => rng.range(480, 1400),
            _ => rng.range(1400, 8100),
        };
        let fold = rng.chance(1, 3);
        let recursion = if rng.chance(1, 3) { rng.range(1, 40) } else { 0 };
        deep_case(depth.min(8100 - recursion), fold, rng.chance(1, 2), rng.chance(1, 2), recursion).to_ops()
    }
    fn execute(&self, ops: &[String], stats: &mut Stats) -> Vec<String> {
        let Some(h) = History::from_ops(ops) else {
            return vec!["bad-op".to_string()];
        };
        count_history(&h, stats);
        let dir = work_tmp("C14");
        let tag = format!("c{:016x}", fnv1a(ops));
        let out = import_and_render(&h, Proj::C02, &dir, &tag, stats);
        for l in &out {
            if l.starts_with("s ") {
                if l.contains(" e:") {
                    stats.bump("stacks_elided");
                } else {
                    stats.bump("stacks_unchanged");
                }
            }
        }
        out
    }
    fn nontrivial(&self, _ops: &[String], out: &[String]) -> bool {
        out.iter().any(|l| l.starts_with("s ") && l.split_whitespace().count() > 100)
    }
}

fn main() {
    verif_harness::runner::run_main(&C14);
}
