//! C14 — deep stacks are shortened only in the middle. perf.data pipeline with call chains of chosen
//! depth made of pairwise distinct addresses (so every kept frame is identifiable); observable: the full
//! root-first frame list of each sample.
use verif_harness::common::*;
use verif_harness::gen::perfdata::*;

pub struct C14;

/// several deep samples in one recording: on the same thread and on a second thread, so that stacks of
/// different elision counts meet in one thread's tables
fn multi_case(depths: &[u64], second_thread_depths: &[u64]) -> History {
    let t0 = 5_000_000u64;
    let mut recs = vec![Rec::Comm { pid: 100, tid: 100, name: "deep".to_string(), exec: false, t: t0 - 10 }];
    let mut t = t0;
    let mk = |tid: u32, depth: u64, t: u64, salt: u64| {
        let mut chain = vec![CTX_USER];
        for i in 0..depth {
            chain.push(0x10000 + 16 * i + 8 + salt);
        }
        Rec::Sample { pid: 100, tid, t, kernel: false, period: 1_000_000, ip: 0x10008, chain }
    };
    for (k, d) in depths.iter().enumerate() {
        recs.push(mk(100, *d, t, k as u64 % 2));
        t += 1000;
    }
    for (k, d) in second_thread_depths.iter().enumerate() {
        recs.push(mk(101, *d, t, k as u64 % 2));
        t += 1000;
    }
    History { reuse: false, fold: false, ref_time: t0, recs, ..Default::default() }
}

fn deep_case(depth: u64, fold: bool, extra_shallow: bool, mapped: bool, recursion: u64) -> History {
    let t0 = 5_000_000u64;
    let mut recs = vec![Rec::Comm { pid: 100, tid: 100, name: "deep".to_string(), exec: false, t: t0 - 10 }];
    if mapped {
        // one mapping covering part of the address range used by the chain
        recs.push(Rec::Mmap2 { pid: 100, tid: 100, addr: 0x10000, len: 0x4000, pgoff: 0x1000, exec: true, path: "/nonexistent-verif/bin/deep".to_string(), t: t0 - 5 });
    }
    let mut chain = vec![CTX_USER];
    for i in 0..depth {
        chain.push(0x10000 + 16 * i + 8);
    }
    // recursion at the root end: the same address repeated
    for _ in 0..recursion {
        chain.push(0x10000 + 16 * depth.saturating_sub(1) + 8);
    }
    recs.push(Rec::Sample { pid: 100, tid: 100, t: t0, kernel: false, period: 1_000_000, ip: 0x10008, chain });
    if extra_shallow {
        recs.push(Rec::Sample { pid: 100, tid: 100, t: t0 + 1000, kernel: false, period: 1_000_000, ip: 0x10008, chain: vec![CTX_USER, 0x10008, 0x10018, 0x10028] });
    }
    History { reuse: false, fold, ref_time: t0, recs, ..Default::default() }
}

/// One sample whose recorded frames (root first in `seq`) lie in the perf-map functions `table` of pid 100
/// (`Some(k)`: function k, 16 bytes each from 0x5000_0000) or at unmapped addresses (`None`); every frame gets
/// an offset that identifies its position, so that every kept frame is identifiable.
fn jit_seq_case(table: &[&str], seq: &[Option<usize>], ncpu: u32, shallow_too: bool) -> History {
    const A: u64 = 0x5000_0000;
    let t0 = 5_000_000u64;
    let mut recs = vec![Rec::Comm { pid: 100, tid: 100, name: "jit".to_string(), exec: false, t: t0 - 10 }];
    let mut perf_maps = Vec::new();
    for (k, n) in table.iter().enumerate() {
        perf_maps.push((100u32, PerfMapLine::Fn { addr: A + 16 * k as u64, len: 16, name: n.to_string() }));
    }
    // callee first; all entries are return addresses (looked up at - 1)
    let mut chain = vec![CTX_USER];
    for (i, f) in seq.iter().enumerate().rev() {
        chain.push(match f {
            Some(k) => A + 16 * *k as u64 + 1 + (i as u64 % 15),
            None => 0x10000 + 16 * i as u64 + 8,
        });
    }
    recs.push(Rec::Sample { pid: 100, tid: 100, t: t0, kernel: false, period: 1_000_000, ip: 0x10008, chain });
    if shallow_too {
        recs.push(Rec::Sample { pid: 100, tid: 100, t: t0 + 1000, kernel: false, period: 1_000_000, ip: A + 3, chain: vec![CTX_USER, A + 3, A + 20, 0x10028] });
    }
    History { reuse: false, fold: false, ref_time: t0, recs, perf_maps, ncpu, ..Default::default() }
}

/// `depth` recorded frames cycling through the functions `names`
fn jit_case(depth: u64, names: &[&str]) -> History {
    let seq: Vec<Option<usize>> = (0..depth as usize).map(|i| Some(i % names.len())).collect();
    jit_seq_case(names, &seq, 0, false)
}

const HANDOVER: [&str; 6] = ["Interpreter: x (a.js:1:1)", "plain", "BaselineInterpreter", "BaselineInterpreter: s (a.js:2:2)", "Ion: forEach[Call (StrictMode)]", "Builtin:b"];

fn jit_fixed_cases(tier: Tier) -> Vec<Case> {
    let mut v = Vec::new();
    let mut push = |name: String, h: History| v.push(Case { name, ops: h.to_ops() });
    // every frame in a JS function: the emitted depth is twice the recorded one
    let all_js: &[u64] = if tier == Tier::Thorough {
        &[100, 200, 249, 250, 251, 300, 400, 498, 499, 500, 501, 502, 599, 600, 601, 698, 699, 700, 701, 899, 900, 1000, 1300, 2000, 4000]
    } else {
        &[249, 250, 251, 300, 499, 500, 501, 600, 699, 700, 1300]
    };
    for d in all_js {
        push(format!("js{d}"), jit_case(*d, &["py::f"]));
    }
    // JS and non-JS functions alternating: 1.5 emitted frames per recorded frame
    for d in [333u64, 334, 500, 666, 667, 700] {
        push(format!("jsalt{d}"), jit_case(d, &["py::f", "Builtin:x"]));
    }
    // k unmapped root frames, then JS frames: the label frame / the native frame of the first JS frame is the
    // 200th kept frame (and around it)
    for k in [197usize, 198, 199, 200, 201] {
        for d in [600usize, 700] {
            let seq: Vec<Option<usize>> = (0..d).map(|i| if i < k { None } else { Some(0) }).collect();
            push(format!("jsafter{k}-{d}"), jit_seq_case(&["py::f"], &seq, 0, k % 2 == 0));
        }
    }
    // JS frames only inside the elided middle / only in the leaf part / only in the root part
    for (name, lo, hi) in [("mid", 250usize, 300usize), ("leaf", 560, 600), ("root", 10, 60), ("across-start", 190, 210), ("across-end", 390, 410)] {
        let seq: Vec<Option<usize>> = (0..600).map(|i| if i >= lo && i < hi { Some(0) } else { None }).collect();
        push(format!("jsonly-{name}"), jit_seq_case(&["JS:~g app.js:1:1"], &seq, 0, false));
    }
    // the baseline-interpreter name hand-over, deep
    for d in [300usize, 520, 700] {
        let pat = [0usize, 1, 1, 2, 2, 3, 2, 4, 2, 5, 0, 5, 2, 0, 3, 2];
        let seq: Vec<Option<usize>> = (0..d).map(|i| Some(pat[i % pat.len()])).collect();
        push(format!("jshandover{d}"), jit_seq_case(&HANDOVER, &seq, 0, false));
    }
    // per-CPU label frame on top of JS label frames
    for d in [250usize, 499, 500, 600] {
        let seq: Vec<Option<usize>> = (0..d).map(|i| Some(i % 2)).collect();
        push(format!("jspercpu{d}"), jit_seq_case(&["py::f", "plain"], &seq, 2, true));
    }
    v
}

fn jit_random_case(rng: &mut Rng) -> History {
    let n_fn = rng.range(1, 6) as usize;
    let table: Vec<&str> = (0..n_fn).map(|_| if rng.chance(1, 3) { "py::f" } else { *rng.pick(&JIT_NAMES) }).collect();
    let depth = match rng.below(5) {
        0 => rng.range(200, 520),
        1 => 500 + 200 * rng.below(4) + rng.below(7) - 3,
        2 => rng.range(480, 1400),
        3 => rng.range(240, 260),
        _ => rng.range(1, 300),
    } as usize;
    // runs of frames in the same function (recursion) or unmapped
    let mut seq: Vec<Option<usize>> = Vec::with_capacity(depth);
    while seq.len() < depth {
        let what = if rng.chance(1, 4) { None } else { Some(rng.below(n_fn as u64) as usize) };
        let run = match rng.below(4) {
            0 => 1,
            1 => rng.range(1, 5),
            2 => rng.range(5, 60),
            _ => rng.range(60, 400),
        } as usize;
        for _ in 0..run.min(depth - seq.len()) {
            seq.push(what);
        }
    }
    let ncpu = if rng.chance(1, 4) { rng.range(1, 4) as u32 } else { 0 };
    jit_seq_case(&table, &seq, ncpu, rng.chance(1, 3))
}

impl Prop for C14 {
    fn id(&self) -> &'static str {
        "C14"
    }
    fn case_count(&self, tier: Tier) -> u64 {
        match tier {
            Tier::Quick => 100,
            Tier::Thorough => 1500,
        }
    }
    fn fixed_cases(&self, tier: Tier) -> Vec<Case> {
        let mut v = Vec::new();
        // every depth around the threshold and around each further multiple of 200 below 1300 (quick: a band
        // around each boundary; thorough: every depth 0..=1300)
        let mut depths: Vec<u64> = Vec::new();
        match tier {
            Tier::Quick => {
                for d in [0u64, 1, 2, 199, 200, 201, 299, 300, 301, 400] {
                    depths.push(d);
                }
                for b in [500u64, 700, 900, 1100] {
                    for d in b - 4..=b + 4 {
                        depths.push(d);
                    }
                }
                depths.extend([600, 650, 699, 800, 899, 1000, 1299, 1300, 1301, 2000, 4096, 8000, 8100]);
            }
            Tier::Thorough => {
                depths.extend(0..=1320);
                depths.extend((1400..=8100).step_by(97));
            }
        }
        for d in depths {
            let h = deep_case(d, false, d % 2 == 0, d % 3 == 0, 0);
            v.push(Case { name: format!("depth{d}"), ops: h.to_ops() });
        }
        // several deep stacks with different elision counts on one thread / two threads
        let multis: [(&[u64], &[u64]); 6] = [
            (&[520, 750], &[]),
            (&[700, 500], &[]),
            (&[900, 1300, 600, 499], &[]),
            (&[650], &[1100, 650]),
            (&[500, 500, 700, 700], &[700, 500]),
            (&[3000, 501, 8000], &[300, 2000]),
        ];
        v.extend(jit_fixed_cases(tier));
        // `--per-cpu-threads`: the copies on the CPU tracks carry the thread label as extra first frame
        let percpu: &[u64] = if tier == Tier::Thorough { &[0, 1, 3, 200, 497, 498, 499, 500, 501, 502, 698, 699, 700, 701, 899, 900, 901, 1300, 8000] } else { &[3, 498, 499, 500, 501, 699, 700] };
        for d in percpu {
            let mut h = deep_case(*d, false, true, d % 2 == 0, 0);
            h.ncpu = 3;
            v.push(Case { name: format!("percpu{d}"), ops: h.to_ops() });
        }
        {
            // several threads (renamed in between) on several CPUs
            let mut h = multi_case(&[520, 30, 750], &[499, 500]);
            h.recs.insert(2, Rec::Comm { pid: 100, tid: 100, name: "renamed".to_string(), exec: false, t: 5_000_500 });
            h.ncpu = 2;
            v.push(Case { name: "percpu-multi".to_string(), ops: h.to_ops() });
        }
        for (k, (a, b)) in multis.iter().enumerate() {
            v.push(Case { name: format!("multi{k}"), ops: multi_case(a, b).to_ops() });
        }
        v
    }
    fn generate(&self, rng: &mut Rng, _tier: Tier, _index: u64) -> Vec<String> {
        if rng.chance(2, 5) {
            return jit_random_case(rng).to_ops();
        }
        if rng.chance(1, 3) {
            let pick = |rng: &mut Rng| match rng.below(3) {
                0 => rng.range(1, 499),
                1 => 500 + 200 * rng.below(5) + rng.below(200),
                _ => rng.range(500, 3000),
            };
            let a: Vec<u64> = (0..rng.range(2, 4)).map(|_| pick(rng)).collect();
            let b: Vec<u64> = (0..rng.below(3)).map(|_| pick(rng)).collect();
            return multi_case(&a, &b).to_ops();
        }
        let depth = match rng.below(4) {
            0 => rng.range(0, 520),
            1 => 500 + 200 * rng.below(6) + rng.below(7) - 3,
            2 => rng.range(480, 1400),
            _ => rng.range(1400, 8100),
        };
        let fold = rng.chance(1, 3);
        let recursion = if rng.chance(1, 3) { rng.range(1, 40) } else { 0 };
        let mut h = deep_case(depth.min(8100 - recursion), fold, rng.chance(1, 2), rng.chance(1, 2), recursion);
        if rng.chance(1, 4) {
            h.ncpu = rng.range(1, 4) as u32;
        }
        h.to_ops()
    }
    fn execute(&self, ops: &[String], stats: &mut Stats) -> Vec<String> {
        let Some(h) = History::from_ops(ops) else {
            return vec!["bad-op".to_string()];
        };
        count_history(&h, stats);
        let dir = work_tmp("C14");
        let tag = format!("c{:016x}", fnv1a(ops));
        let out = import_and_render(&h, Proj::C02, &dir, &tag, stats);
        for l in &out {
            if l.starts_with("s ") {
                if l.contains(" j:") {
                    stats.bump("stacks_with_js_labels");
                }
                if l.contains(" x:") {
                    stats.bump("stacks_per_cpu_copies");
                }
                if l.split_whitespace().count() > 503 {
                    stats.bump("stacks_deeper_than_501");
                }
                if l.contains(" e:") {
                    stats.bump("stacks_elided");
                } else {
                    stats.bump("stacks_unchanged");
                }
            }
        }
        out
    }
    fn nontrivial(&self, _ops: &[String], out: &[String]) -> bool {
        out.iter().any(|l| l.starts_with("s ") && l.split_whitespace().count() > 100)
    }
}

fn main() {
    verif_harness::runner::run_main(&C14);
}
