//! C14 — deep stacks are shortened only in the middle. perf.data pipeline with call chains of chosen
//! depth made of pairwise distinct addresses (so every kept frame is identifiable); observable: the full
//! root-first frame list of each sample.
use verif_harness::common::*;
use verif_harness::gen::perfdata::*;

pub struct C14;

/// several deep samples in one recording: on the same thread and on a second thread, so that stacks of
/// different elision counts meet in one thread's tables
fn multi_case(depths: &[u64], second_thread_depths: &[u64]) -> History {
    let t0 = 5_000_000u64;
    let mut recs = vec![Rec::Comm { pid: 100, tid: 100, name: "deep".to_string(), exec: false, t: t0 - 10 }];
    let mut t = t0;
    let mk = |tid: u32, depth: u64, t: u64, salt: u64| {
        let mut chain = vec![CTX_USER];
        for i in 0..depth {
            chain.push(0x10000 + 16 * i + 8 + salt);
        }
        Rec::Sample { pid: 100, tid, t, kernel: false, period: 1_000_000, ip: 0x10008, chain }
    };
    for (k, d) in depths.iter().enumerate() {
        recs.push(mk(100, *d, t, k as u64 % 2));
        t += 1000;
    }
    for (k, d) in second_thread_depths.iter().enumerate() {
        recs.push(mk(101, *d, t, k as u64 % 2));
        t += 1000;
    }
    History { reuse: false, fold: false, ref_time: t0, recs, ..Default::default() }
}

fn deep_case(depth: u64, fold: bool, extra_shallow: bool, mapped: bool, recursion: u64) -> History {
    let t0 = 5_000_000u64;
    let mut recs = vec![Rec::Comm { pid: 100, tid: 100, name: "deep".to_string(), exec: false, t: t0 - 10 }];
    if mapped {
        // one mapping covering part of the address range used by the chain
        recs.push(Rec::Mmap2 { pid: 100, tid: 100, addr: 0x10000, len: 0x4000, pgoff: 0x1000, exec: true, path: "/nonexistent-verif/bin/deep".to_string(), t: t0 - 5 });
    }
    let mut chain = vec![CTX_USER];
    for i in 0..depth {
        chain.push(0x10000 + 16 * i + 8);
    }
    // recursion at the root end: the same address repeated
    for _ in 0..recursion {
        chain.push(0x10000 + 16 * depth.saturating_sub(1) + 8);
    }
    recs.push(Rec::Sample { pid: 100, tid: 100, t: t0, kernel: false, period: 1_000_000, ip: 0x10008, chain });
    if extra_shallow {
        recs.push(Rec::Sample { pid: 100, tid: 100, t: t0 + 1000, kernel: false, period: 1_000_000, ip: 0x10008, chain: vec![CTX_USER, 0x10008, 0x10018, 0x10028] });
    }
    History { reuse: false, fold, ref_time: t0, recs, ..Default::default() }
}

/// One sample whose recorded frames (root first in `seq`) lie in the perf-map functions `table` of pid 100
/// (`Some(k)`: function k, 16 bytes each from 0x5000_0000) or at unmapped addresses (`None`); every frame gets
/// an offset that identifies its position, so that every kept frame is identifiable.
fn jit_seq_case(table: &[&str], seq: &[Option<usize>], ncpu: u32, shallow_too: bool) -> History {
    const A: u64 = 0x5000_0000;
    let t0 = 5_000_000u64;
    let mut recs = vec![Rec::Comm { pid: 100, tid: 100, name: "jit".to_string(), exec: false, t: t0 - 10 }];
    let mut perf_maps = Vec::new();
    for (k, n) in table.iter().enumerate() {
        perf_maps.push((100u32, PerfMapLine::Fn { addr: A + 16 * k as u64, len: 16, name: n.to_string() }));
    }
    // callee first; all entries are return addresses (looked up at - 1)
    let mut chain = vec![CTX_USER];
    for (i, f) in seq.iter().enumerate().rev() {
        chain.push(match f {
            Some(k) => A + 16 * *k as u64 + 1 + (i as u64 % 15),
            None => 0x10000 + 16 * i as u64 + 8,
        });
    }
    recs.push(Rec::Sample { pid: 100, tid: 100, t: t0, kernel: false, period: 1_000_000, ip: 0x10008, chain });
    if shallow_too {
        recs.push(Rec::Sample { pid: 100, tid: 100, t: t0 + 1000, kernel: false, period: 1_000_000, ip: A + 3, chain: vec![CTX_USER, A + 3, A + 20, 0x10028] });
    }
    History { reuse: false, fold: false, ref_time: t0, recs, perf_maps, ncpu, ..Default::default() }
}

/// `depth` recorded frames cycling through the functions `names`
fn jit_case(depth: u64, names: &[&str]) -> History {
    let seq: Vec<Option<usize>> = (0..depth as usize).map(|i| Some(i % names.len())).collect();
    jit_seq_case(names, &seq, 0, false)
}

const HANDOVER: [&str; 6] = ["Interpreter: x (a.js:1:1)", "plain", "BaselineInterpreter", "BaselineInterpreter: s (a.js:2:2)", "Ion: forEach[Call (StrictMode)]", "Builtin:b"];

fn jit_fixed_cases(tier: Tier) -> Vec<Case> {
    let mut v = Vec::new();
    let mut push = |name: String, h: History| v.push(Case { name, ops: h.to_ops() });
    // every frame in a JS function: the emitted depth is twice the recorded one
    let all_js: &[u64] = if tier == Tier::Thorough {
        &[100, 200, 249, 250, 251, 300, 400, 498, 499, 500, 501, 502, 599, 600, 601, 698, 699, 700, 701, 899, 900, 1000, 1300, 2000, 4000]
    } else {
        &[249, 250, 251, 300, 499, 500, 501, 600, 699, 700, 1300]
    };
    for d in all_js {
        push(format!("js{d}"), jit_case(*d, &["py::f"]));
    }
    // JS and non-JS functions alternating: 1.5 emitted frames per recorded frame
    for d in [333u64, 334, 500, 666, 667, 700] {
        push(format!("jsalt{d}"), jit_case(d, &["py::f", "Builtin:x"]));
    }
    // k unmapped root frames, then JS frames: the label frame / the native frame of the first JS frame is the
    // 200th kept frame (and around it)
    for k in [197usize, 198, 199, 200, 201] {
        for d in [600usize, 700] {
            let seq: Vec<Option<usize>> = (0..d).map(|i| if i < k { None } else { Some(0) }).collect();
            push(format!("jsafter{k}-{d}"), jit_seq_case(&["py::f"], &seq, 0, k % 2 == 0));
        }
    }
    // JS frames only inside the elided middle / only in the leaf part / only in the root part
    for (name, lo, hi) in [("mid", 250usize, 300usize), ("leaf", 560, 600), ("root", 10, 60), ("across-start", 190, 210), ("across-end", 390, 410)] {
        let seq: Vec<Option<usize>> = (0..600).map(|i| if i >= lo && i < hi { Some(0) } else { None }).collect();
        push(format!("jsonly-{name}"), jit_seq_case(&["JS:~g app.js:1:1"], &seq, 0, false));
    }
    // the baseline-interpreter name hand-over, deep
    for d in [300usize, 520, 700] {
        let pat = [0usize, 1, 1, 2, 2, 3, 2, 4, 2, 5, 0, 5, 2, 0, 3, 2];
        let seq: Vec<Option<usize>> = (0..d).map(|i| Some(pat[i % pat.len()])).collect();
        push(format!("jshandover{d}"), jit_seq_case(&HANDOVER, &seq, 0, false));
    }
    // per-CPU label frame on top of JS label frames
    for d in [250usize, 499, 500, 600] {
        let seq: Vec<Option<usize>> = (0..d).map(|i| Some(i % 2)).collect();
        push(format!("jspercpu{d}"), jit_seq_case(&["py::f", "plain"], &seq, 2, true));
    }
    v
}

fn jit_random_case(rng: &mut Rng) -> History {
    let n_fn = rng.range(1, 6) as usize;
    let table: Vec<&str> = (0..n_fn).map(|_| if rng.chance(1, 3) { "py::f" } else { *rng.pick(&JIT_NAMES) }).collect();
    let depth = match rng.below(5) {
        0 => rng.range(200, 520),
        1 => 500 + 200 * rng.below(4) + rng.below(7) - 3,
        2 => rng.range(480, 1400),
        3 => rng.range(240, 260),
        _ => rng.range(1, 300),
    } as usize;
    // runs of frames in the same function (recursion) or unmapped
    let mut seq: Vec<Option<usize>> = Vec::with_capacity(depth);
    while seq.len() < depth {
        let what = if rng.chance(1, 4) { None } else { Some(rng.below(n_fn as u64) as usize) };
        let run = match rng.below(4) {
            0 => 1,
            1 => rng.range(1, 5),
            2 => rng.range(5, 60),
            _ => rng.range(60, 400),
        } as usize;
        for _ in 0..run.min(depth - seq.len()) {
            seq.push(what);
        }
    }
    let ncpu = if rng.chance(1, 4) { rng.range(1, 4) as u32 } else { 0 };
    jit_seq_case(&table, &seq, ncpu, rng.chance(1, 3))
}

// ---------------------------------------------------------------------------------------------
// marker stacks: samples of a second, "other" event (`probe:deep_call`) become markers with a stack
// (`handle_other_event_sample`); the depth limiter applies to them exactly as to sample stacks

/// a user-mode call chain of `depth` pairwise distinct return addresses from `base` (callee first)
fn chain_at(base: u64, depth: u64, salt: u64) -> Vec<u64> {
    let mut chain = vec![CTX_USER];
    for i in 0..depth {
        chain.push(base + 16 * i + 8 + salt);
    }
    chain
}

/// how the thread / process of the other-event samples is first seen
#[derive(Clone, Copy, PartialEq)]
enum Seen {
    /// COMM + main-event sample of the thread come first
    Known,
    /// the thread (tid 101 of the known process 100) is first seen through the other event
    ThreadViaOev,
    /// the whole process (pid 300) is seen through the other event only
    ProcViaOev,
}

/// One other-event sample of `depth` frames, mixed with main-event samples of the same thread (one before at a
/// different deep depth unless the thread is first seen through the other event, one after at `depth + 1`, and a
/// shallow one), optionally a second other-event sample at the same timestamp as a main-event sample.
fn oev_case(depth: u64, ncpu: u32, seen: Seen, mapped: bool, kernel_frames: u64, twin: bool) -> History {
    let t0 = 5_000_000u64;
    let (pid, tid) = match seen {
        Seen::Known => (100u32, 100u32),
        Seen::ThreadViaOev => (100, 101),
        Seen::ProcViaOev => (300, 301),
    };
    let mut recs = vec![Rec::Comm { pid: 100, tid: 100, name: "deep".to_string(), exec: false, t: t0 - 10 }];
    if mapped {
        recs.push(Rec::Mmap2 { pid, tid: pid, addr: 0x20000, len: 0x3000, pgoff: 0x1000, exec: true, path: "/nonexistent-verif/bin/probe".to_string(), t: t0 - 5 });
    }
    let mut t = t0;
    recs.push(Rec::Sample { pid: 100, tid: 100, t, kernel: false, period: 1_000_000, ip: 0x10008, chain: chain_at(0x10000, 3, 0) });
    t += 1000;
    if seen == Seen::Known {
        recs.push(Rec::Sample { pid, tid, t, kernel: false, period: 1_000_000, ip: 0x10008, chain: chain_at(0x10000, (depth + 197) % 1200, 1) });
        t += 1000;
    }
    // the other-event sample: its own address range, so that no frame is shared with the samples by accident
    let mut chain = Vec::new();
    if kernel_frames > 0 {
        chain.push(CTX_KERNEL);
        for i in 0..kernel_frames {
            chain.push(0xffff_ffff_8100_0000 + 32 * i);
        }
    }
    chain.extend(chain_at(0x20000, depth - kernel_frames.min(depth), 0));
    let ip = if kernel_frames > 0 { 0xffff_ffff_8100_0000 } else { 0x20008 };
    recs.push(Rec::Other { pid, tid, t, kernel: kernel_frames > 0, ip, chain: chain.clone() });
    if twin {
        // a main-event sample of the same thread at the same timestamp (no dedup across events), then a second
        // other-event sample at that timestamp again with another stack
        recs.push(Rec::Sample { pid, tid, t, kernel: false, period: 1_000_000, ip: 0x10008, chain: chain_at(0x10000, depth, 0) });
        recs.push(Rec::Other { pid, tid, t, kernel: false, ip: 0x30008, chain: chain_at(0x30000, depth + 2, 0) });
    }
    t += 1000;
    if seen != Seen::ProcViaOev {
        recs.push(Rec::Sample { pid, tid, t, kernel: false, period: 1_000_000, ip: 0x10008, chain: chain_at(0x10000, depth + 1, 0) });
        t += 1000;
        recs.push(Rec::Sample { pid, tid, t, kernel: false, period: 1_000_000, ip: 0x10008, chain: chain_at(0x10000, 4, 0) });
        t += 1000;
    }
    // a shallow other-event sample after the deep one (the marker before it must keep its own stack)
    recs.push(Rec::Other { pid, tid, t, kernel: false, ip: 0x20008, chain: chain_at(0x20000, 5, 1) });
    History { reuse: false, fold: false, ref_time: t0, recs, ncpu, ..Default::default() }
}

/// `jit_seq_case` with the deep stack recorded by the other event as well (JS label frames in a marker stack)
fn oev_jit_case(table: &[&str], seq: &[Option<usize>], ncpu: u32) -> History {
    let mut h = jit_seq_case(table, seq, ncpu, true);
    let Some(Rec::Sample { pid, tid, t, ip, chain, .. }) = h.recs.iter().find(|r| matches!(r, Rec::Sample { .. })).cloned() else {
        return h;
    };
    let pos = h.recs.iter().position(|r| matches!(r, Rec::Sample { .. })).unwrap();
    h.recs.insert(pos + 1, Rec::Other { pid, tid, t: t + 500, kernel: false, ip, chain: chain.clone() });
    h.recs.insert(pos, Rec::Other { pid, tid: tid + 7, t: t - 1, kernel: false, ip, chain });
    h
}

fn oev_fixed_cases(tier: Tier) -> Vec<Case> {
    let mut v = Vec::new();
    let mut push = |name: String, h: History| v.push(Case { name, ops: h.to_ops() });
    let band: u64 = if tier == Tier::Thorough { 4 } else { 2 };
    let mut depths: Vec<u64> = vec![1, 2, 199, 200, 201, 300, 400, 498];
    for b in [500u64, 700, 900, 1100] {
        depths.extend(b - band..=b + band);
    }
    depths.extend([600, 899, 1300, 2000, 8000]);
    if tier == Tier::Thorough {
        depths.extend((503..=1320).step_by(7));
    }
    depths.sort();
    depths.dedup();
    for (k, d) in depths.iter().enumerate() {
        let seen = match k % 3 {
            0 => Seen::Known,
            1 => Seen::ThreadViaOev,
            _ => Seen::ProcViaOev,
        };
        // every depth without and with `--per-cpu-threads`
        push(format!("oev{d}"), oev_case(*d, 0, seen, d % 2 == 0, 0, k % 4 == 0));
        push(format!("oev{d}-percpu"), oev_case(*d, 2, if seen == Seen::ProcViaOev { Seen::Known } else { Seen::ThreadViaOev }, d % 2 == 1, 0, k % 4 == 1));
    }
    // kernel frames in front (the marker stack keeps them: `convert`, not `convert_no_kernel`)
    for d in [499u64, 500, 501, 700] {
        push(format!("oev{d}-kernel"), oev_case(d, 0, Seen::Known, false, 3, false));
    }
    // JS label frames inside a marker stack (known finding C14-js-label-depth applies to these too)
    for d in [249usize, 250, 300, 499, 500, 600] {
        let seq: Vec<Option<usize>> = (0..d).map(|_| Some(0)).collect();
        push(format!("oev-js{d}"), oev_jit_case(&["py::f"], &seq, 0));
    }
    for (k, d) in [(198usize, 600usize), (199, 600), (200, 700), (201, 700)] {
        let seq: Vec<Option<usize>> = (0..d).map(|i| if i < k { None } else { Some(0) }).collect();
        push(format!("oev-jsafter{k}-{d}"), oev_jit_case(&["py::f"], &seq, if k % 2 == 0 { 2 } else { 0 }));
    }
    for d in [520usize, 700] {
        let pat = [0usize, 1, 1, 2, 2, 3, 2, 4, 2, 5, 0, 5, 2, 0, 3, 2];
        let seq: Vec<Option<usize>> = (0..d).map(|i| Some(pat[i % pat.len()])).collect();
        push(format!("oev-jshandover{d}"), oev_jit_case(&HANDOVER, &seq, 0));
    }
    // the other-event sample of the idle thread (tid 0 is not special for markers); only without per-CPU threads
    {
        let t0 = 5_000_000u64;
        let recs = vec![
            Rec::Comm { pid: 100, tid: 100, name: "deep".to_string(), exec: false, t: t0 - 10 },
            Rec::Sample { pid: 100, tid: 100, t: t0, kernel: false, period: 1_000_000, ip: 0x10008, chain: chain_at(0x10000, 3, 0) },
            Rec::Other { pid: 100, tid: 0, t: t0 + 100, kernel: false, ip: 0x20008, chain: chain_at(0x20000, 650, 0) },
            Rec::Sample { pid: 100, tid: 0, t: t0 + 200, kernel: false, period: 1_000_000, ip: 0x10008, chain: chain_at(0x10000, 3, 0) },
        ];
        push("oev-tid0".to_string(), History { ref_time: t0, recs, ..Default::default() });
    }
    // several marker stacks with different elision counts on one thread, EXIT / EXEC in between (parked buffer)
    {
        let t0 = 5_000_000u64;
        let mut recs = vec![Rec::Comm { pid: 100, tid: 100, name: "deep".to_string(), exec: false, t: t0 - 10 }];
        let mut t = t0;
        for (k, d) in [520u64, 750, 499, 900, 1300, 30].iter().enumerate() {
            recs.push(Rec::Other { pid: 100, tid: 100 + (k as u32 % 2), t, kernel: false, ip: 0x20008, chain: chain_at(0x20000, *d, k as u64 % 3) });
            t += 500;
            recs.push(Rec::Sample { pid: 100, tid: 100 + (k as u32 % 2), t, kernel: false, period: 1_000_000, ip: 0x10008, chain: chain_at(0x10000, *d + 100, 0) });
            t += 500;
            if k == 2 {
                recs.push(Rec::Comm { pid: 100, tid: 100, name: "execd".to_string(), exec: true, t });
                t += 500;
            }
        }
        recs.push(Rec::Exit { pid: 100, tid: 100, t });
        push("oev-multi".to_string(), History { ref_time: t0, recs, ..Default::default() });
    }
    v
}

/// random: an existing kind of case with other-event samples sprinkled in
fn oev_random_case(rng: &mut Rng) -> History {
    if rng.chance(1, 4) {
        let mut h = jit_random_case(rng);
        let samples: Vec<(usize, Rec)> = h.recs.iter().cloned().enumerate().filter(|(_, r)| matches!(r, Rec::Sample { .. })).collect();
        if let Some((pos, Rec::Sample { pid, tid, t, ip, chain, .. })) = samples.first().cloned() {
            let ntid = if rng.chance(1, 2) { tid } else { tid + 1 + rng.below(3) as u32 };
            h.recs.insert(pos + 1, Rec::Other { pid, tid: ntid, t: t + 1 + rng.below(900), kernel: false, ip, chain });
        }
        return h;
    }
    let depth = match rng.below(4) {
        0 => rng.range(1, 520),
        1 => 500 + 200 * rng.below(5) + rng.below(7) - 3,
        2 => rng.range(480, 1400),
        _ => rng.range(1400, 8000),
    };
    let seen = *rng.pick(&[Seen::Known, Seen::ThreadViaOev, Seen::ProcViaOev]);
    let ncpu = if rng.chance(1, 3) { rng.range(1, 3) as u32 } else { 0 };
    let kernel = if rng.chance(1, 5) { rng.range(1, 4) } else { 0 };
    let mut h = oev_case(depth, ncpu, seen, rng.chance(1, 2), kernel, rng.chance(1, 3));
    h.fold = rng.chance(1, 4);
    h
}

fn old_case_count(tier: Tier) -> u64 {
    match tier {
        Tier::Quick => 100,
        Tier::Thorough => 1500,
    }
}

impl Prop for C14 {
    fn id(&self) -> &'static str {
        "C14"
    }
    fn case_count(&self, tier: Tier) -> u64 {
        // the cases behind the older ones are the other-event families (the older ones keep their seeds)
        old_case_count(tier) + match tier {
            Tier::Quick => 40,
            Tier::Thorough => 500,
        }
    }
    fn fixed_cases(&self, tier: Tier) -> Vec<Case> {
        let mut v = Vec::new();
        // every depth around the threshold and around each further multiple of 200 below 1300 (quick: a band
        // around each boundary; thorough: every depth 0..=1300)
        let mut depths: Vec<u64> = Vec::new();
        match tier {
            Tier::Quick => {
                for d in [0u64, 1, 2, 199, 200, 201, 299, 300, 301, 400] {
                    depths.push(d);
                }
                for b in [500u64, 700, 900, 1100] {
                    for d in b - 4..=b + 4 {
                        depths.push(d);
                    }
                }
                depths.extend([600, 650, 800, 1000, 1299, 1300, 1301, 2000, 4096, 8000, 8100]);
            }
            Tier::Thorough => {
                depths.extend(0..=1320);
                depths.extend((1400..=8100).step_by(97));
            }
        }
        for d in depths {
            let h = deep_case(d, false, d % 2 == 0, d % 3 == 0, 0);
            v.push(Case { name: format!("depth{d}"), ops: h.to_ops() });
        }
        // several deep stacks with different elision counts on one thread / two threads
        let multis: [(&[u64], &[u64]); 6] = [
            (&[520, 750], &[]),
            (&[700, 500], &[]),
            (&[900, 1300, 600, 499], &[]),
            (&[650], &[1100, 650]),
            (&[500, 500, 700, 700], &[700, 500]),
            (&[3000, 501, 8000], &[300, 2000]),
        ];
        v.extend(jit_fixed_cases(tier));
        // `--per-cpu-threads`: the copies on the CPU tracks carry the thread label as extra first frame
        let percpu: &[u64] = if tier == Tier::Thorough { &[0, 1, 3, 200, 497, 498, 499, 500, 501, 502, 698, 699, 700, 701, 899, 900, 901, 1300, 8000] } else { &[3, 498, 499, 500, 501, 699, 700] };
        for d in percpu {
            let mut h = deep_case(*d, false, true, d % 2 == 0, 0);
            h.ncpu = 3;
            v.push(Case { name: format!("percpu{d}"), ops: h.to_ops() });
        }
        {
            // several threads (renamed in between) on several CPUs
            let mut h = multi_case(&[520, 30, 750], &[499, 500]);
            h.recs.insert(2, Rec::Comm { pid: 100, tid: 100, name: "renamed".to_string(), exec: false, t: 5_000_500 });
            h.ncpu = 2;
            v.push(Case { name: "percpu-multi".to_string(), ops: h.to_ops() });
        }
        for (k, (a, b)) in multis.iter().enumerate() {
            v.push(Case { name: format!("multi{k}"), ops: multi_case(a, b).to_ops() });
        }
        v.extend(oev_fixed_cases(tier));
        v
    }
    fn generate(&self, rng: &mut Rng, tier: Tier, index: u64) -> Vec<String> {
        if index >= old_case_count(tier) {
            return oev_random_case(rng).to_ops();
        }
        if rng.chance(2, 5) {
            return jit_random_case(rng).to_ops();
        }
        if rng.chance(1, 3) {
            let pick = |rng: &mut Rng| match rng.below(3) {
                0 => rng.range(1, 499),
                1 => 500 + 200 * rng.below(5) + rng.below(200),
                _ => rng.range(500, 3000),
            };
            let a: Vec<u64> = (0..rng.range(2, 4)).map(|_| pick(rng)).collect();
            let b: Vec<u64> = (0..rng.below(3)).map(|_| pick(rng)).collect();
            return multi_case(&a, &b).to_ops();
        }
        let depth = match rng.below(4) {
            0 => rng.range(0, 520),
            1 => 500 + 200 * rng.below(6) + rng.below(7) - 3,
            2 => rng.range(480, 1400),
            _ => rng.range(1400, 8100),
        };
        let fold = rng.chance(1, 3);
        let recursion = if rng.chance(1, 3) { rng.range(1, 40) } else { 0 };
        let mut h = deep_case(depth.min(8100 - recursion), fold, rng.chance(1, 2), rng.chance(1, 2), recursion);
        if rng.chance(1, 4) {
            h.ncpu = rng.range(1, 4) as u32;
        }
        h.to_ops()
    }
    fn execute(&self, ops: &[String], stats: &mut Stats) -> Vec<String> {
        let Some(h) = History::from_ops(ops) else {
            return vec!["bad-op".to_string()];
        };
        count_history(&h, stats);
        let dir = work_tmp("C14");
        let tag = format!("c{:016x}", fnv1a(ops));
        let out = import_and_render(&h, Proj::C02, &dir, &tag, stats);
        for l in &out {
            if l.starts_with("m ") {
                stats.bump("marker_stacks");
                if l.contains(" e:") {
                    stats.bump("marker_stacks_elided");
                }
                if l.contains(" j:") {
                    stats.bump("marker_stacks_with_js_labels");
                }
            }
            if l.starts_with("s ") {
                if l.contains(" j:") {
                    stats.bump("stacks_with_js_labels");
                }
                if l.contains(" x:") {
                    stats.bump("stacks_per_cpu_copies");
                }
                if l.split_whitespace().count() > 503 {
                    stats.bump("stacks_deeper_than_501");
                }
                if l.contains(" e:") {
                    stats.bump("stacks_elided");
                } else {
                    stats.bump("stacks_unchanged");
                }
            }
        }
        out
    }
    fn nontrivial(&self, _ops: &[String], out: &[String]) -> bool {
        out.iter().any(|l| (l.starts_with("s ") || l.starts_with("m ")) && l.split_whitespace().count() > 100)
    }
}

fn main() {
    verif_harness::runner::run_main(&C14);
}
