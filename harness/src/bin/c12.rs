//! C12 — drives the real `samply/src/shared/context_switch.rs` (compiled into the harness by path;
//! the module has no dependencies) event by event.
//!
//! ops:  `interval <n>` then `in <t>` | `out <t>` | `sample <t>` | `consume`
//! out:  per event `ok` | `group none` | `group <b> <e> <c>` | `delta <n>` | `panic`,
//!       then `final <unknown|on|off> <t> <onAcc> <offAcc>`
use verif_harness::common::*;
use std::panic::{catch_unwind, AssertUnwindSafe};

#[allow(dead_code)]
#[path = "../../../repo-link/samply/src/shared/context_switch.rs"]
mod context_switch;
use context_switch::{ContextSwitchHandler, ThreadContextSwitchData};

pub struct C12;

/// The state fields are private; recover them from the derived `Debug` output
/// (state kind + the numbers in declaration order).
fn final_line(t: &ThreadContextSwitchData) -> String {
    let d = format!("{t:?}");
    let nums: Vec<u64> = d
        .split(|c: char| !c.is_ascii_digit())
        .filter(|s| !s.is_empty())
        .filter_map(|s| s.parse().ok())
        .collect();
    if d.contains("Unknown") {
        format!("final unknown 0 {} {}", nums[0], nums[1])
    } else if d.contains("Off {") {
        format!("final off {} {} {}", nums[0], nums[1], nums[2])
    } else {
        format!("final on {} {} {}", nums[0], nums[1], nums[2])
    }
}

const EVS: [&str; 3] = ["in", "out", "sample"];
const INCS: [u64; 4] = [0, 1, 2, 5];
const INTERVALS: [u64; 4] = [1, 2, 3, 10];

fn enumerate(len: usize, interval: u64, out: &mut Vec<Case>) {
    // every history of exactly `len` events over 13 choices per step
    let mut idx = vec![0usize; len];
    loop {
        let mut t = 0u64;
        let mut ops = vec![format!("interval {interval}")];
        for &c in &idx {
            if c == 12 {
                ops.push("consume".to_string());
            } else {
                t += INCS[c % 4];
                ops.push(format!("{} {}", EVS[c / 4], t));
            }
        }
        let name = format!("x{}i{}-{}", len, interval, idx.iter().map(|c| format!("{c:x}")).collect::<String>());
        out.push(Case { name, ops });
        let mut k = 0;
        loop {
            if k == len {
                return;
            }
            idx[k] += 1;
            if idx[k] < 13 {
                break;
            }
            idx[k] = 0;
            k += 1;
        }
    }
}

impl Prop for C12 {
    fn id(&self) -> &'static str {
        "C12"
    }
    fn case_count(&self, tier: Tier) -> u64 {
        match tier {
            Tier::Quick => 3000,
            Tier::Thorough => 60000,
        }
    }
    fn fixed_cases(&self, tier: Tier) -> Vec<Case> {
        let max_len = match tier {
            Tier::Quick => 3,
            Tier::Thorough => 5,
        };
        let mut v = Vec::new();
        for &interval in &INTERVALS {
            for len in 0..=max_len {
                enumerate(len, interval, &mut v);
            }
        }
        // the remainder can be carried across two sleeps only from four events on: depth 4 for two intervals
        // also in the quick tier
        if tier == Tier::Quick {
            for interval in [2u64, 3] {
                enumerate(4, interval, &mut v);
            }
        }
        // excluded points of the theorems' hypotheses (`0 < interval`, time-ordered): the model has the
        // panics of the code as outcomes; compared model-vs-code, not judged
        for len in 0..=3 {
            enumerate(len, 0, &mut v);
        }
        for (k, h) in [
            &["in 10", "out 5"][..],
            &["in 10", "sample 9", "consume"][..],
            &["out 10", "in 5"][..],
            &["out 10", "sample 3"][..],
            &["in 5", "out 10", "in 20", "out 15", "in 30", "consume"][..],
            &["sample 100", "sample 99"][..],
            &["out 0", "in 7", "in 6"][..],
        ]
        .iter()
        .enumerate()
        {
            for interval in [1u64, 3] {
                let mut ops = vec![format!("interval {interval}")];
                ops.extend(h.iter().map(|s| s.to_string()));
                v.push(Case { name: format!("unordered{k}i{interval}"), ops });
            }
        }
        v
    }
    fn generate(&self, rng: &mut Rng, _tier: Tier, _index: u64) -> Vec<String> {
        let interval = match rng.below(5) {
            0 => rng.range(1, 3),
            1 => rng.range(4, 40),
            2 => rng.range(100, 100_000),
            3 => 1_000_000,
            // the converter's default off-cpu interval and very large intervals
            _ => *rng.pick(&[1_000_000u64, 250_000, 1 << 33, u32::MAX as u64, (1 << 40) + 7]),
        };
        let len = if rng.chance(1, 10) { rng.range(200, 1000) } else { rng.range(1, 60) };
        // time steps: around the interval, thousands of intervals (many off-cpu samples per group), and
        // gaps beyond 2^32 ns / timestamps near 2^62
        let scale = *rng.pick(&[1u64, 1, 3, interval, interval / 2 + 1, interval * 3, interval * 5000, 1 << 34, 1 << 45]);
        let mut t = if rng.chance(1, 12) { (1u64 << 62) + rng.below(1000) } else { rng.below(1000) };
        // 1 in 25 histories steps back in time somewhere (excluded point, model-vs-code only); 1 in 40 has interval 0
        let backstep_at = if rng.chance(1, 25) { Some(rng.below(len)) } else { None };
        let interval = if rng.chance(1, 40) { 0 } else { interval };
        let mut ops = vec![format!("interval {interval}")];
        for k in 0..len {
            if backstep_at == Some(k) {
                t = t.saturating_sub(1 + rng.below(scale + 2));
            }
            let inc = match rng.below(5) {
                0 => 0,
                1 => rng.below(3),
                _ => rng.below(scale * 2 + 1),
            };
            t += inc;
            match rng.below(10) {
                0..=2 => ops.push(format!("in {t}")),
                3..=5 => ops.push(format!("out {t}")),
                6..=7 => ops.push(format!("sample {t}")),
                _ => ops.push("consume".to_string()),
            }
        }
        ops
    }
    fn execute(&self, ops: &[String], stats: &mut Stats) -> Vec<String> {
        let mut out = Vec::new();
        let interval: u64 = ops[0].split_whitespace().nth(1).and_then(|s| s.parse().ok()).unwrap_or(1);
        let handler = ContextSwitchHandler::new(interval);
        let mut thread = ThreadContextSwitchData::default();
        for l in &ops[1..] {
            let w: Vec<&str> = l.split_whitespace().collect();
            let t: u64 = w.get(1).and_then(|s| s.parse().ok()).unwrap_or(0);
            let r = catch_unwind(AssertUnwindSafe(|| match w[0] {
                "in" => match handler.handle_switch_in(t, &mut thread) {
                    None => "group none".to_string(),
                    Some(g) => format!("group {} {} {}", g.begin_timestamp, g.end_timestamp, g.sample_count),
                },
                "sample" => match handler.handle_on_cpu_sample(t, &mut thread) {
                    None => "group none".to_string(),
                    Some(g) => format!("group {} {} {}", g.begin_timestamp, g.end_timestamp, g.sample_count),
                },
                "out" => {
                    handler.handle_switch_out(t, &mut thread);
                    "ok".to_string()
                }
                "consume" => format!("delta {}", handler.consume_cpu_delta(&mut thread)),
                _ => "bad-op".to_string(),
            }));
            match r {
                Ok(line) => {
                    if line.starts_with("group ") && line != "group none" {
                        stats.bump("groups_emitted");
                    }
                    stats.bump(&format!("ev_{}", w[0]));
                    out.push(line);
                }
                Err(_) => {
                    stats.bump("panics");
                    out.push("panic".to_string());
                    return out;
                }
            }
        }
        out.push(final_line(&thread));
        out
    }
    fn nontrivial(&self, ops: &[String], out: &[String]) -> bool {
        // a non-zero cpu delta was handed out or an off-cpu group was emitted
        ops.len() >= 3
            && out.iter().any(|l| (l.starts_with("delta ") && l != "delta 0") || (l.starts_with("group ") && l != "group none"))
    }
}

fn main() {
    verif_harness::runner::run_main(&C12);
}
