//! C12 — drives the real `samply/src/shared/context_switch.rs` (compiled into the harness by path;
//! the module has no dependencies) event by event.
//!
//! ops:  `interval <n>` then `in <t>` | `out <t>` | `sample <t>` | `consume`
//! out:  per event `ok` | `group none` | `group <b> <e> <c>` | `delta <n>` | `panic`,
//!       then `final <unknown|on|off> <t> <onAcc> <offAcc>`
//!
//! Second mode `conv` (cases whose first op line is `cfg …`): a perf.data record history with context-switch
//! records / `sched:sched_switch` samples (op lines of `gen/perfdata.rs`) is written to a file and converted by
//! the `samply` binary; the observable is, per thread entry, `s <t> <on|off> <weight> <cpu delta µs>`.
use verif_harness::common::*;
use verif_harness::gen::perfdata::{self, CsCfg, CsShape, History, Proj, Rec};
use std::panic::{catch_unwind, AssertUnwindSafe};

#[allow(dead_code)]
#[path = "../../../repo-link/samply/src/shared/context_switch.rs"]
mod context_switch;
use context_switch::{ContextSwitchHandler, ThreadContextSwitchData};

pub struct C12;

/// The state fields are private; recover them from the derived `Debug` output
/// (state kind + the numbers in declaration order).
fn final_line(t: &ThreadContextSwitchData) -> String {
    let d = format!("{t:?}");
    let nums: Vec<u64> = d
        .split(|c: char| !c.is_ascii_digit())
        .filter(|s| !s.is_empty())
        .filter_map(|s| s.parse().ok())
        .collect();
    if d.contains("Unknown") {
        format!("final unknown 0 {} {}", nums[0], nums[1])
    } else if d.contains("Off {") {
        format!("final off {} {} {}", nums[0], nums[1], nums[2])
    } else {
        format!("final on {} {} {}", nums[0], nums[1], nums[2])
    }
}

const EVS: [&str; 3] = ["in", "out", "sample"];
const INCS: [u64; 4] = [0, 1, 2, 5];
const INTERVALS: [u64; 4] = [1, 2, 3, 10];

fn enumerate(len: usize, interval: u64, out: &mut Vec<Case>) {
    // every history of exactly `len` events over 13 choices per step
    let mut idx = vec![0usize; len];
    loop {
        let mut t = 0u64;
        let mut ops = vec![format!("interval {interval}")];
        for &c in &idx {
            if c == 12 {
                ops.push("consume".to_string());
            } else {
                t += INCS[c % 4];
                ops.push(format!("{} {}", EVS[c / 4], t));
            }
        }
        let name = format!("x{}i{}-{}", len, interval, idx.iter().map(|c| format!("{c:x}")).collect::<String>());
        out.push(Case { name, ops });
        let mut k = 0;
        loop {
            if k == len {
                return;
            }
            idx[k] += 1;
            if idx[k] < 13 {
                break;
            }
            idx[k] = 0;
            k += 1;
        }
    }
}

impl Prop for C12 {
    fn id(&self) -> &'static str {
        "C12"
    }
    fn case_count(&self, tier: Tier) -> u64 {
        match tier {
            Tier::Quick => 3000,
            Tier::Thorough => 60000,
        }
    }
    fn fixed_cases(&self, tier: Tier) -> Vec<Case> {
        let max_len = match tier {
            Tier::Quick => 3,
            Tier::Thorough => 5,
        };
        let mut v = Vec::new();
        for &interval in &INTERVALS {
            for len in 0..=max_len {
                enumerate(len, interval, &mut v);
            }
        }
        // the remainder can be carried across two sleeps only from four events on: depth 4 for two intervals
        // also in the quick tier
        if tier == Tier::Quick {
            for interval in [2u64, 3] {
                enumerate(4, interval, &mut v);
            }
        }
        // excluded points of the theorems' hypotheses (`0 < interval`, time-ordered): the model has the
        // panics of the code as outcomes; compared model-vs-code, not judged
        for len in 0..=3 {
            enumerate(len, 0, &mut v);
        }
        for (k, h) in [
            &["in 10", "out 5"][..],
            &["in 10", "sample 9", "consume"][..],
            &["out 10", "in 5"][..],
            &["out 10", "sample 3"][..],
            &["in 5", "out 10", "in 20", "out 15", "in 30", "consume"][..],
            &["sample 100", "sample 99"][..],
            &["out 0", "in 7", "in 6"][..],
        ]
        .iter()
        .enumerate()
        {
            for interval in [1u64, 3] {
                let mut ops = vec![format!("interval {interval}")];
                ops.extend(h.iter().map(|s| s.to_string()));
                v.push(Case { name: format!("unordered{k}i{interval}"), ops });
            }
        }
        v.extend(conv_fixed_cases());
        v
    }
    fn generate(&self, rng: &mut Rng, tier: Tier, index: u64) -> Vec<String> {
        // every tenth (quick) / twentieth (thorough) random case is a converter-level history
        let every = if tier == Tier::Quick { 10 } else { 20 };
        if index % every == 0 {
            let shape = CsShape { max_len: if tier == Tier::Quick { 60 } else { 200 }, lifecycle: rng.chance(1, 3), allow_reuse: false };
            return perfdata::gen_cs_history(rng, &shape).to_ops();
        }
        let interval = match rng.below(5) {
            0 => rng.range(1, 3),
            1 => rng.range(4, 40),
            2 => rng.range(100, 100_000),
            3 => 1_000_000,
            // the converter's default off-cpu interval and very large intervals
            _ => *rng.pick(&[1_000_000u64, 250_000, 1 << 33, u32::MAX as u64, (1 << 40) + 7]),
        };
        let len = if rng.chance(1, 10) { rng.range(200, 1000) } else { rng.range(1, 60) };
        // time steps: around the interval, thousands of intervals (many off-cpu samples per group), and
        // gaps beyond 2^32 ns / timestamps near 2^62
        let scale = *rng.pick(&[1u64, 1, 3, interval, interval / 2 + 1, interval * 3, interval * 5000, 1 << 34, 1 << 45]);
        let mut t = if rng.chance(1, 12) { (1u64 << 62) + rng.below(1000) } else { rng.below(1000) };
        // 1 in 25 histories steps back in time somewhere (excluded point, model-vs-code only); 1 in 40 has interval 0
        let backstep_at = if rng.chance(1, 25) { Some(rng.below(len)) } else { None };
        let interval = if rng.chance(1, 40) { 0 } else { interval };
        let mut ops = vec![format!("interval {interval}")];
        for k in 0..len {
            if backstep_at == Some(k) {
                t = t.saturating_sub(1 + rng.below(scale + 2));
            }
            let inc = match rng.below(5) {
                0 => 0,
                1 => rng.below(3),
                _ => rng.below(scale * 2 + 1),
            };
            t += inc;
            match rng.below(10) {
                0..=2 => ops.push(format!("in {t}")),
                3..=5 => ops.push(format!("out {t}")),
                6..=7 => ops.push(format!("sample {t}")),
                _ => ops.push("consume".to_string()),
            }
        }
        ops
    }
    fn execute(&self, ops: &[String], stats: &mut Stats) -> Vec<String> {
        if ops.first().map(|l| l.starts_with("cfg ")).unwrap_or(false) {
            return conv_execute(ops, stats);
        }
        let mut out = Vec::new();
        let interval: u64 = ops[0].split_whitespace().nth(1).and_then(|s| s.parse().ok()).unwrap_or(1);
        let handler = ContextSwitchHandler::new(interval);
        let mut thread = ThreadContextSwitchData::default();
        for l in &ops[1..] {
            let w: Vec<&str> = l.split_whitespace().collect();
            let t: u64 = w.get(1).and_then(|s| s.parse().ok()).unwrap_or(0);
            let r = catch_unwind(AssertUnwindSafe(|| match w[0] {
                "in" => match handler.handle_switch_in(t, &mut thread) {
                    None => "group none".to_string(),
                    Some(g) => format!("group {} {} {}", g.begin_timestamp, g.end_timestamp, g.sample_count),
                },
                "sample" => match handler.handle_on_cpu_sample(t, &mut thread) {
                    None => "group none".to_string(),
                    Some(g) => format!("group {} {} {}", g.begin_timestamp, g.end_timestamp, g.sample_count),
                },
                "out" => {
                    handler.handle_switch_out(t, &mut thread);
                    "ok".to_string()
                }
                "consume" => format!("delta {}", handler.consume_cpu_delta(&mut thread)),
                _ => "bad-op".to_string(),
            }));
            match r {
                Ok(line) => {
                    if line.starts_with("group ") && line != "group none" {
                        stats.bump("groups_emitted");
                    }
                    stats.bump(&format!("ev_{}", w[0]));
                    out.push(line);
                }
                Err(_) => {
                    stats.bump("panics");
                    out.push("panic".to_string());
                    return out;
                }
            }
        }
        out.push(final_line(&thread));
        out
    }
    fn nontrivial(&self, ops: &[String], out: &[String]) -> bool {
        if ops.first().map(|l| l.starts_with("cfg ")).unwrap_or(false) {
            // a sample with a non-zero cpu delta or an off-CPU sample reached the profile
            return out.iter().any(|l| {
                let w: Vec<&str> = l.split_whitespace().collect();
                w.len() == 5 && w[0] == "s" && (w[2] == "off" || w[4] != "0")
            });
        }
        // a non-zero cpu delta was handed out or an off-cpu group was emitted
        ops.len() >= 3
            && out.iter().any(|l| (l.starts_with("delta ") && l != "delta 0") || (l.starts_with("group ") && l != "group none"))
    }
}

fn conv_execute(ops: &[String], stats: &mut Stats) -> Vec<String> {
    let Some(h) = History::from_ops(ops) else {
        return vec!["bad-op".to_string()];
    };
    stats.bump("conv_cases");
    perfdata::count_history(&h, stats);
    if let Some(cs) = &h.cs {
        stats.bump(&format!("conv_mode_{}", cs.word().split(':').nth(1).unwrap_or("-")));
    }
    let dir = perfdata::work_tmp("C12");
    let tag = format!("c{:016x}", fnv1a(ops));
    let out = perfdata::import_and_render(&h, Proj::Cs, &dir, &tag, stats);
    stats.add("conv_off_cpu_samples", out.iter().filter(|l| l.starts_with("s ") && l.contains(" off ")).count() as u64);
    out
}

fn cs_case(name: &str, letters: &str, period: u64, ref_time: u64, recs: Vec<Rec>) -> Case {
    // a recording without the sched:sched_switch event has no such samples
    let recs = recs.into_iter().filter(|r| letters.contains('s') || !matches!(r, Rec::Sched { .. })).collect();
    let h = History { cs: CsCfg::parse(letters, &period.to_string()), ref_time, recs, ..Default::default() };
    Case { name: format!("conv-{name}"), ops: h.to_ops() }
}

/// Boundary families at converter level (thread 100/101 of process 100; times in ns).
fn conv_fixed_cases() -> Vec<Case> {
    let (p, t) = (100u32, 101u32);
    let sample = |tm: u64| Rec::Sample { pid: p, tid: t, t: tm, kernel: false, period: 1_000_000, ip: 0x1000, chain: vec![] };
    let sched = |tm: u64| Rec::Sched { pid: p, tid: t, t: tm, kernel: false, ip: perfdata::OFF_STACK_BASE + 0x20, chain: vec![perfdata::CTX_USER, perfdata::OFF_STACK_BASE + 0x20, perfdata::OFF_STACK_BASE + 0x40] };
    let sched_kernel_only = |tm: u64| Rec::Sched { pid: p, tid: t, t: tm, kernel: true, ip: 0xffff_ffff_8100_0000, chain: vec![perfdata::CTX_KERNEL, 0xffff_ffff_8100_0010] };
    let sin = |tm: u64| Rec::SwitchIn { pid: p, tid: t, t: tm };
    let sout = |tm: u64| Rec::SwitchOut { pid: p, tid: t, t: tm, preempt: false };
    let b = 5_000_000u64;
    let mut v = Vec::new();
    // the repo's unit-test history (interval 10 µs here), every wake-up with a stored stack
    for (letters, name) in [("cs", "unit-test"), ("c", "unit-test-nostack"), ("csw", "unit-test-wide"), ("s", "unit-test-sched-only"), ("-", "unit-test-no-indicator"), ("csh", "unit-test-hw")] {
        let k = 1000u64;
        v.push(cs_case(name, letters, 10 * k, b, vec![
            sin(b), sched(b + 3 * k), sout(b + 3 * k), sin(b + 5 * k), sample(b + 12 * k), sched(b + 13 * k), sout(b + 13 * k), sin(b + 15 * k),
            sched(b + 16 * k), sout(b + 16 * k), sin(b + 21 * k), sched(b + 23 * k), sout(b + 23 * k), sin(b + 27 * k), sched(b + 30 * k), sout(b + 30 * k),
            sin(b + 48 * k), sample(b + 51 * k), sample(b + 61 * k),
        ]));
    }
    // sleeps of exactly 0, 1, 2, 3 intervals and one ns less / more, woken by a switch-in or by a sample
    for (i, d) in [0u64, 999_000, 1_000_000, 1_001_000, 1_999_000, 2_000_000, 2_000_001, 3_000_000, 2_500_000_000].iter().enumerate() {
        for by_sample in [false, true] {
            let wake = if by_sample { sample(b + 2_000_000 + d) } else { sin(b + 2_000_000 + d) };
            v.push(cs_case(&format!("sleep{i}-{}", if by_sample { "sample" } else { "in" }), "cs", 1_000_000, b, vec![
                sin(b), sample(b + 1_000_000), sched(b + 2_000_000), sout(b + 2_000_000), wake, sample(b + 2_000_000 + d + 500_000),
            ]));
        }
    }
    // remainder carried across sleeps: 0.6 + 0.6 intervals
    v.push(cs_case("carry", "cs", 1_000_000, b, vec![
        sin(b), sched(b + 100_000), sout(b + 100_000), sin(b + 700_000), sched(b + 800_000), sout(b + 800_000), sin(b + 1_400_000), sample(b + 1_500_000),
    ]));
    // group dropped: no sched_switch sample before the wake-up; the stack is cleared by an intermediate sample
    v.push(cs_case("dropped-nostack", "cs", 1_000_000, b, vec![sin(b), sample(b + 400_000), sout(b + 1_000_000), sin(b + 4_000_000), sample(b + 4_500_000)]));
    v.push(cs_case("stack-cleared-by-sample", "cs", 1_000_000, b, vec![sin(b), sched(b + 100_000), sample(b + 200_000), sout(b + 1_000_000), sin(b + 4_000_000), sample(b + 4_500_000)]));
    v.push(cs_case("stack-kernel-only", "cs", 1_000_000, b, vec![sin(b), sample(b + 300_000), sched_kernel_only(b + 1_000_000), sout(b + 1_000_000), sin(b + 4_000_000), sample(b + 4_500_000)]));
    // repeated switch-out, sample before switch-in, thread first seen through a switch-out
    v.push(cs_case("repeated-out", "cs", 1_000_000, b, vec![sin(b), sched(b + 1000), sout(b + 1000), sout(b + 1000), sout(b + 2_000_000), sin(b + 3_001_000), sample(b + 3_100_000)]));
    v.push(cs_case("sample-before-in", "cs", 1_000_000, b, vec![sin(b), sched(b + 1000), sout(b + 1000), sample(b + 3_001_000), sin(b + 3_002_000), sample(b + 3_100_000)]));
    v.push(cs_case("first-out", "cs", 1_000_000, b, vec![sched(b), sout(b), sin(b + 3_000_000), sample(b + 3_100_000)]));
    // the cpu delta goes to the first sample of the group, zero to the rest sample
    v.push(cs_case("group-cpu", "cs", 1_000_000, b, vec![sin(b), sched(b + 700_000), sout(b + 700_000), sin(b + 5_700_000), sample(b + 5_800_000)]));
    // SchedSwitchAndSamples: the sched_switch sample is the switch-out
    v.push(cs_case("sched-and-samples", "s", 1_000_000, b, vec![sample(b), sample(b + 1_000_000), sched(b + 1_500_000), sample(b + 5_500_000), sample(b + 6_500_000)]));
    // excluded point: interval 0 (frequency above 10^9 Hz) -> division by zero at the first wake-up
    v.push(cs_case("interval0", "csf", 2_000_000_000, b, vec![sin(b), sched(b + 1000), sout(b + 1000), sin(b + 3000)]));
    v.push(cs_case("interval0-no-wake", "csf", 2_000_000_000, b, vec![sin(b), sample(b + 1000), sout(b + 2000)]));
    v.push(cs_case("freq0", "csf", 0, b, vec![sin(b), sample(b + 1000)]));
    v
}

fn main() {
    verif_harness::runner::run_main(&C12);
}
