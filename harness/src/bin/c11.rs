//! C11 — drives the real `fxprof_processed_profile` code in-process.
//!
//! `mode table`:   the public `LibMappings<u32>` type (`fxprof-processed-profile/src/lib_mappings.rs`), call by call:
//!                 `add_mapping`, `remove_mapping`, `clear`, and `lookup` + `convert_address` at every probe address.
//! `mode profile`: the public `Profile` API — `add_lib`, `add_lib_mapping`, `add_kernel_lib_mapping`,
//!                 `remove_lib_mapping`, `remove_kernel_lib_mapping`, `clear_process_lib_mappings`,
//!                 `handle_for_frame_with_address` (+ `handle_for_stack`, `add_sample`), then `serde_json` and a
//!                 read-back of samples.stack → stackTable.frame → frameTable.address/func → funcTable.resource/name →
//!                 resourceTable.lib → libs[..].name.
//!
//! Line protocol: see lean/SamplyModel/Iface/C11.lean.
use fxprof_processed_profile::{
    CategoryHandle, CpuDelta, FrameAddress, FrameFlags, LibMappings, LibraryHandle, LibraryInfo, Profile,
    ReferenceTimestamp, SamplingInterval, ThreadHandle, Timestamp,
};
use std::collections::{BTreeMap, BTreeSet};
use std::panic::{catch_unwind, AssertUnwindSafe};
use verif_harness::common::*;

pub struct C11;

const NPROC: u64 = 3;
const U32LIM: u64 = 1 << 32;

// ------------------------------------------------------------------------------------------------
// executor: table mode

fn table_len(m: &LibMappings<u32>) -> usize {
    // the map is private; its derived Debug output has one `Mapping {` per entry
    format!("{m:?}").matches("Mapping {").count()
}

/// `ents <start>:<end>:<rel>:<value>*` from the derived `Debug` output (field names are not relied upon: the four
/// integers of every `Mapping { .. }` in declaration order)
fn table_dump(m: &LibMappings<u32>) -> String {
    let d = format!("{m:?}");
    let mut line = String::from("ents");
    for chunk in d.split("Mapping {").skip(1) {
        let body = chunk.split('}').next().unwrap_or("");
        let nums: Vec<&str> = body.split(|c: char| !c.is_ascii_digit()).filter(|s| !s.is_empty()).collect();
        if nums.len() != 4 {
            return "ents err:debug-format".to_string();
        }
        line.push_str(&format!(" {}:{}:{}:{}", nums[0], nums[1], nums[2], nums[3]));
    }
    line
}

fn exec_table(ops: &[String], stats: &mut Stats) -> Vec<String> {
    let mut out = Vec::new();
    let mut m: LibMappings<u32> = LibMappings::new();
    for l in ops {
        let w: Vec<&str> = l.split_whitespace().collect();
        let num = |i: usize| -> Option<u64> { w.get(i).and_then(|s| s.parse::<u64>().ok()) };
        match w.first().copied() {
            Some("add") => {
                let (Some(s), Some(e), Some(rel), Some(v)) = (num(1), num(2), num(3), num(4)) else {
                    return vec!["bad-op".into()];
                };
                if rel >= U32LIM || v >= U32LIM {
                    return vec!["bad-op".into()];
                }
                let before = table_len(&m);
                let r = catch_unwind(AssertUnwindSafe(|| m.add_mapping(s, e, rel as u32, v as u32)));
                match r {
                    Ok(()) => {
                        let after = table_len(&m);
                        let evicted = before + 1 - after;
                        stats.bump(&format!("t_add_evicts_{}", evicted.min(3)));
                        if e <= s {
                            stats.bump("t_add_empty_range_accepted");
                        }
                        out.push("ok".into());
                    }
                    Err(_) => {
                        stats.bump("t_add_panic");
                        out.push("panic".into());
                    }
                }
            }
            Some("remove") => {
                let Some(s) = num(1) else { return vec!["bad-op".into()] };
                match m.remove_mapping(s) {
                    None => {
                        stats.bump("t_remove_miss");
                        out.push("removed -".into());
                    }
                    Some((rel, v)) => {
                        stats.bump("t_remove_hit");
                        out.push(format!("removed {rel} {v}"));
                    }
                }
            }
            Some("clear") => {
                m.clear();
                stats.bump("t_clear");
                out.push("ok".into());
            }
            Some("dump") => {
                stats.bump(&format!("t_dump_entries_{}", table_len(&m).min(5)));
                out.push(table_dump(&m));
            }
            Some("probe") => {
                let mut line = String::from("res");
                for i in 1..w.len() {
                    let Some(a) = num(i) else { return vec!["bad-op".into()] };
                    let lk = match m.lookup(a) {
                        None => "-".to_string(),
                        Some(v) => v.to_string(),
                    };
                    let cv = match catch_unwind(AssertUnwindSafe(|| m.convert_address(a).map(|(r, v)| (r, *v)))) {
                        Ok(None) => {
                            stats.bump("t_probe_miss");
                            "-".to_string()
                        }
                        Ok(Some((rel, v))) => {
                            stats.bump("t_probe_hit");
                            format!("{v}:{rel}")
                        }
                        Err(_) => {
                            stats.bump("t_probe_convert_panic");
                            "!".to_string()
                        }
                    };
                    line.push_str(&format!(" {lk}/{cv}"));
                }
                out.push(line);
            }
            _ => return vec!["bad-op".into()],
        }
    }
    out
}

// ------------------------------------------------------------------------------------------------
// executor: profile mode

struct Prof {
    profile: Profile,
    threads: Vec<ThreadHandle>,
    procs: Vec<fxprof_processed_profile::ProcessHandle>,
    libs: BTreeMap<u64, LibraryHandle>,
}

impl Prof {
    fn lib(&mut self, v: u64) -> LibraryHandle {
        if let Some(h) = self.libs.get(&v) {
            return *h;
        }
        let name = format!("lib{v}");
        let h = self.profile.add_lib(LibraryInfo {
            name: name.clone(),
            debug_name: name.clone(),
            path: format!("/c11/{name}"),
            debug_path: format!("/c11/{name}"),
            debug_id: fxprof_processed_profile::debugid::DebugId::nil(),
            code_id: None,
            arch: None,
        });
        self.libs.insert(v, h);
        h
    }
}

enum FrameOut {
    Panic,
    Sample(usize, usize), // (process number, sample index in that process's thread)
}

fn exec_profile(ops: &[String], stats: &mut Stats) -> Vec<String> {
    let mut p = Prof {
        profile: Profile::new(
            "c11",
            ReferenceTimestamp::from_millis_since_unix_epoch(0.0),
            SamplingInterval::from_millis(1),
        ),
        threads: Vec::new(),
        procs: Vec::new(),
        libs: BTreeMap::new(),
    };
    for k in 0..NPROC {
        let ph = p.profile.add_process(&format!("proc{k}"), 100 + k as u32, Timestamp::from_nanos_since_reference(k));
        let th = p.profile.add_thread(ph, 1000 + k as u32, Timestamp::from_nanos_since_reference(k), true);
        p.procs.push(ph);
        p.threads.push(th);
    }
    // one entry per op line: Some(text) for mapping ops, frame placeholder otherwise
    let mut lines: Vec<Result<String, FrameOut>> = Vec::new();
    let mut sample_counts = vec![0usize; NPROC as usize];
    for (k, l) in ops.iter().enumerate() {
        let w: Vec<&str> = l.split_whitespace().collect();
        let num = |i: usize| -> Option<u64> { w.get(i).and_then(|s| s.parse::<u64>().ok()) };
        let proc_at = |i: usize| -> Option<usize> { num(i).filter(|q| *q < NPROC).map(|q| q as usize) };
        let okline = |r: std::thread::Result<()>, stats: &mut Stats, what: &str| -> Result<String, FrameOut> {
            match r {
                Ok(()) => Ok("ok".to_string()),
                Err(_) => {
                    stats.bump(&format!("p_{what}_panic"));
                    Ok("panic".to_string())
                }
            }
        };
        match w.first().copied() {
            Some("kadd") => {
                let (Some(s), Some(e), Some(rel), Some(v)) = (num(1), num(2), num(3), num(4)) else {
                    return vec!["bad-op".into()];
                };
                if rel >= U32LIM {
                    return vec!["bad-op".into()];
                }
                let lib = p.lib(v);
                let r = catch_unwind(AssertUnwindSafe(|| p.profile.add_kernel_lib_mapping(lib, s, e, rel as u32)));
                stats.bump("p_kadd");
                lines.push(okline(r, stats, "kadd"));
            }
            Some("kremove") => {
                let Some(s) = num(1) else { return vec!["bad-op".into()] };
                p.profile.remove_kernel_lib_mapping(s);
                stats.bump("p_kremove");
                lines.push(Ok("ok".into()));
            }
            Some("padd") => {
                let (Some(q), Some(s), Some(e), Some(rel), Some(v)) = (proc_at(1), num(2), num(3), num(4), num(5)) else {
                    return vec!["bad-op".into()];
                };
                if rel >= U32LIM {
                    return vec!["bad-op".into()];
                }
                let lib = p.lib(v);
                let ph = p.procs[q];
                let r = catch_unwind(AssertUnwindSafe(|| p.profile.add_lib_mapping(ph, lib, s, e, rel as u32)));
                stats.bump("p_padd");
                lines.push(okline(r, stats, "padd"));
            }
            Some("premove") => {
                let (Some(q), Some(s)) = (proc_at(1), num(2)) else { return vec!["bad-op".into()] };
                p.profile.remove_lib_mapping(p.procs[q], s);
                stats.bump("p_premove");
                lines.push(Ok("ok".into()));
            }
            Some("pclear") => {
                let Some(q) = proc_at(1) else { return vec!["bad-op".into()] };
                p.profile.clear_process_lib_mappings(p.procs[q]);
                stats.bump("p_pclear");
                lines.push(Ok("ok".into()));
            }
            Some("frame") => {
                let (Some(q), Some(a)) = (proc_at(1), num(3)) else { return vec!["bad-op".into()] };
                let fa = match w.get(2).copied() {
                    Some("ip") => FrameAddress::InstructionPointer(a),
                    Some("ra") => FrameAddress::ReturnAddress(a),
                    Some("ara") => FrameAddress::AdjustedReturnAddress(a),
                    _ => return vec!["bad-op".into()],
                };
                stats.bump(&format!("p_frame_{}", w[2]));
                let th = p.threads[q];
                let r = catch_unwind(AssertUnwindSafe(|| {
                    p.profile.handle_for_frame_with_address(th, fa, CategoryHandle::OTHER, FrameFlags::empty())
                }));
                match r {
                    Err(_) => {
                        stats.bump("p_frame_panic");
                        lines.push(Err(FrameOut::Panic));
                    }
                    Ok(fh) => {
                        let st = p.profile.handle_for_stack(th, fh, None);
                        p.profile.add_sample(
                            th,
                            Timestamp::from_nanos_since_reference(1_000_000 + 1000 * k as u64),
                            Some(st),
                            CpuDelta::ZERO,
                            1,
                        );
                        lines.push(Err(FrameOut::Sample(q, sample_counts[q])));
                        sample_counts[q] += 1;
                    }
                }
            }
            _ => return vec!["bad-op".into()],
        }
    }
    // serialize and read back
    let json = match serde_json::to_value(&p.profile) {
        Ok(j) => j,
        Err(_) => return vec!["err:serialize".into()],
    };
    let libs = &json["libs"];
    let mut by_proc: Vec<Option<&serde_json::Value>> = vec![None; NPROC as usize];
    if let Some(ths) = json["threads"].as_array() {
        for t in ths {
            if let Some(tid) = t["tid"].as_str().and_then(|s| s.parse::<u64>().ok()) {
                if (1000..1000 + NPROC).contains(&tid) {
                    by_proc[(tid - 1000) as usize] = Some(t);
                }
            }
        }
    }
    let mut out = Vec::new();
    for l in lines {
        match l {
            Ok(s) => out.push(s),
            Err(FrameOut::Panic) => out.push("frame panic".into()),
            Err(FrameOut::Sample(q, i)) => {
                let line = (|| -> Option<String> {
                    let t = by_proc[q]?;
                    let stack = t["samples"]["stack"].get(i)?.as_u64()? as usize;
                    let frame = t["stackTable"]["frame"].get(stack)?.as_u64()? as usize;
                    if !t["stackTable"]["prefix"].get(stack)?.is_null() {
                        return Some("frame err:prefix".into());
                    }
                    let addr = t["frameTable"]["address"].get(frame)?.as_i64()?;
                    let func = t["frameTable"]["func"].get(frame)?.as_u64()? as usize;
                    let res = t["funcTable"]["resource"].get(func)?.as_i64()?;
                    if res >= 0 {
                        if addr < 0 {
                            return Some("frame err:lib-without-address".into());
                        }
                        let lib = t["resourceTable"]["lib"].get(res as usize)?.as_u64()? as usize;
                        let name = libs.get(lib)?["name"].as_str()?;
                        let v = name.strip_prefix("lib")?.parse::<u64>().ok()?;
                        Some(format!("frame lib {v} {addr}"))
                    } else {
                        if addr >= 0 {
                            return Some("frame err:address-without-lib".into());
                        }
                        let name_idx = t["funcTable"]["name"].get(func)?.as_u64()? as usize;
                        let name = t["stringArray"].get(name_idx)?.as_str()?;
                        let a = u64::from_str_radix(name.strip_prefix("0x")?, 16).ok()?;
                        Some(format!("frame unknown {a}"))
                    }
                })()
                .unwrap_or_else(|| "frame err:readback".into());
                if line.starts_with("frame lib") {
                    stats.bump("p_frame_in_lib");
                } else if line.starts_with("frame unknown") {
                    stats.bump("p_frame_unknown");
                }
                out.push(line);
            }
        }
    }
    out
}

// ------------------------------------------------------------------------------------------------
// generators

fn probe_line(addrs: &BTreeSet<u64>) -> String {
    let mut s = String::from("probe");
    for a in addrs {
        s.push_str(&format!(" {a}"));
    }
    s
}

fn grid_probes(grid: &[u64]) -> BTreeSet<u64> {
    let mut s = BTreeSet::new();
    for &g in grid {
        s.insert(g.saturating_sub(1));
        s.insert(g);
    }
    if let Some(&l) = grid.last() {
        s.insert(l.saturating_add(1));
    }
    s
}

/// every op sequence of exactly `len` ops over `grid`: add of every non-empty grid interval, remove of every grid
/// point, clear; all boundary addresses probed after every op
fn enum_table(grid: &[u64], len: usize, tag: &str, out: &mut Vec<Case>) {
    let mut choices: Vec<(u8, u64, u64)> = Vec::new();
    for i in 0..grid.len() {
        for j in i + 1..grid.len() {
            choices.push((0, grid[i], grid[j]));
        }
    }
    for &g in grid {
        choices.push((1, g, 0));
    }
    choices.push((2, 0, 0));
    let probe = probe_line(&grid_probes(grid));
    let n = choices.len();
    let mut idx = vec![0usize; len];
    loop {
        let mut ops = vec!["mode table".to_string()];
        for (k, &c) in idx.iter().enumerate() {
            let (kind, a, b) = choices[c];
            match kind {
                0 => ops.push(format!("add {a} {b} {} {}", 100 * (k + 1), k + 1)),
                1 => ops.push(format!("remove {a}")),
                _ => ops.push("clear".to_string()),
            }
            ops.push(probe.clone());
            ops.push("dump".to_string());
        }
        let name = format!("{tag}{len}-{}", idx.iter().map(|c| format!("{c:x}.")).collect::<String>());
        out.push(Case { name, ops });
        let mut k = 0;
        loop {
            if k == len {
                return;
            }
            idx[k] += 1;
            if idx[k] < n {
                break;
            }
            idx[k] = 0;
            k += 1;
        }
    }
}

/// every sequence of exactly `len` mapping calls over a 3-point grid on the kernel table and the tables of processes
/// 0 and 1; instruction-pointer frames at every boundary after every call, all three address kinds at the end
fn enum_profile(len: usize, out: &mut Vec<Case>) {
    let grid = [10u64, 20, 30];
    let addrs: Vec<u64> = grid_probes(&grid).into_iter().collect();
    let mut choices: Vec<String> = Vec::new();
    for i in 0..3 {
        for j in i + 1..3 {
            choices.push(format!("kadd {} {}", grid[i], grid[j]));
            choices.push(format!("padd 0 {} {}", grid[i], grid[j]));
            choices.push(format!("padd 1 {} {}", grid[i], grid[j]));
        }
    }
    for &g in &grid {
        choices.push(format!("kremove {g}"));
        choices.push(format!("premove 0 {g}"));
    }
    choices.push("pclear 0".to_string());
    let n = choices.len();
    let mut idx = vec![0usize; len];
    loop {
        let mut ops = vec!["mode profile".to_string()];
        for (k, &c) in idx.iter().enumerate() {
            let ch = &choices[c];
            if ch.contains("add") {
                ops.push(format!("{ch} {} {}", 100 * (k + 1), k + 1));
            } else {
                ops.push(ch.clone());
            }
            for q in 0..2 {
                for &a in &addrs {
                    ops.push(format!("frame {q} ip {a}"));
                }
            }
        }
        for q in 0..2 {
            for kind in ["ra", "ara"] {
                for &a in &addrs {
                    ops.push(format!("frame {q} {kind} {a}"));
                }
            }
        }
        ops.push("frame 2 ip 15".to_string());
        ops.push("frame 2 ra 20".to_string());
        let name = format!("xp{len}-{}", idx.iter().map(|c| format!("{c:x}.")).collect::<String>());
        out.push(Case { name, ops });
        let mut k = 0;
        loop {
            if k == len {
                return;
            }
            idx[k] += 1;
            if idx[k] < n {
                break;
            }
            idx[k] = 0;
            k += 1;
        }
    }
}

/// hand-written boundary families (DESIGN.md §7 C11 / Appendix B)
fn boundary_cases() -> Vec<Case> {
    let mut v = Vec::new();
    let mut t = |name: &str, body: &[&str]| {
        let mut ops = vec!["mode table".to_string()];
        for s in body {
            ops.push(s.to_string());
            if !s.starts_with("probe") {
                ops.push("dump".to_string());
            }
        }
        v.push(Case { name: name.to_string(), ops });
    };
    // the repository's own unit test
    t("unit-test", &[
        "add 100 200 100 1", "add 200 250 200 2", "probe 200", "add 180 220 180 3", "probe 200 170 220 179 180 219",
        "add 225 250 225 4", "add 255 270 255 5", "add 100 150 100 6", "probe 90 150 149 200 260 99 100 224 225 250 254 255 269 270",
    ]);
    // new range starts inside an old one (removal start = covering mapping's start), old one must vanish entirely
    t("start-inside", &["add 100 200 0 1", "add 150 160 0 2", "probe 99 100 149 150 159 160 199 200"]);
    // new range starts exactly at an old end (touching): old one must survive
    t("touching", &["add 100 200 0 1", "add 200 300 0 2", "probe 99 100 199 200 299 300", "add 50 100 0 3", "probe 49 50 99 100 199 200"]);
    // swallowing several, starting before all of them
    t("swallow", &["add 10 20 0 1", "add 30 40 0 2", "add 50 60 0 3", "add 70 80 0 4", "add 5 65 7 5", "probe 4 5 10 19 20 30 49 50 59 60 64 65 69 70 79 80"]);
    // new range ends exactly at an old start / one past an old start
    t("end-at-start", &["add 100 200 0 1", "add 50 100 0 2", "probe 99 100", "add 40 101 0 3", "probe 40 99 100 101 150 199"]);
    // identical ranges, re-adding after remove, remove of non-start address, clear
    t("identical", &["add 100 200 1 1", "add 100 200 2 2", "probe 100 199", "remove 100", "probe 100 199", "remove 100",
        "add 100 200 3 3", "remove 150", "probe 150", "clear", "probe 100 150 199", "add 100 200 4 4", "probe 99 100 199 200"]);
    // lookup address exactly at the key of a later mapping (range(..=avma) must include the key itself)
    t("key-inclusive", &["add 0 10 0 1", "add 10 20 0 2", "add 20 30 0 3", "probe 0 9 10 19 20 29 30"]);
    // u64 extremes
    t("u64-max", &["add 18446744073709551000 18446744073709551615 0 1", "probe 18446744073709550999 18446744073709551000 18446744073709551614 18446744073709551615",
        "add 0 1 0 2", "probe 0 1", "add 0 18446744073709551615 0 3", "probe 0 1 4294967295 4294967296 18446744073709551614 18446744073709551615"]);
    // 32-bit guard: exactly fitting, one too many, mapping longer than 2^32 (truncating cast)
    t("guard", &["add 4096 8192 4294963200 1", "probe 4096 8191 8192", "add 4096 8192 4294963201 2", "probe 4096 8190 8191",
        "add 0 8589934592 5 3", "probe 0 4294967290 4294967291 4294967296 4294967297 8589934591"]);
    // excluded points: empty and inverted ranges
    t("empty-range", &["add 100 200 0 1", "add 150 150 0 2", "probe 100 149 150 199", "add 300 250 0 3", "probe 250 300",
        "add 160 120 0 4", "probe 100 119 120 150 160 199", "add 500 400 0 5", "probe 400 500"]);
    let mut p = |name: &str, body: &[&str]| {
        let mut ops = vec!["mode profile".to_string()];
        ops.extend(body.iter().map(|s| s.to_string()));
        v.push(Case { name: name.to_string(), ops });
    };
    p("kernel-first", &[
        "padd 0 1000 2000 0 1", "kadd 1500 1600 16 2", "padd 1 1000 1200 0 3", "frame 0 ip 1550", "frame 0 ip 1600", "frame 0 ra 1600",
        "frame 0 ra 1000", "frame 0 ara 1000", "frame 1 ip 1300", "frame 1 ip 1100", "frame 1 ip 1550", "frame 2 ip 1550", "frame 2 ip 1100",
        "kremove 1500", "frame 0 ip 1550", "frame 2 ip 1550", "pclear 0", "frame 0 ip 1550", "frame 1 ip 1100",
    ]);
    p("same-range-both", &["padd 0 100 200 0 1", "kadd 100 200 50 2", "frame 0 ip 100", "frame 0 ip 199", "frame 0 ra 200", "frame 0 ra 100",
        "frame 0 ip 200", "premove 0 100", "frame 0 ip 150", "kremove 100", "frame 0 ip 150"]);
    p("ra-zero", &["padd 0 0 10 0 1", "frame 0 ra 0", "frame 0 ra 1", "frame 0 ra 10", "frame 0 ra 11", "frame 0 ip 0", "frame 0 ara 0",
        "frame 1 ra 0", "frame 0 ra 18446744073709551615", "kadd 18446744073709551000 18446744073709551615 0 2", "frame 0 ra 18446744073709551615",
        "frame 0 ip 18446744073709551615", "frame 0 ip 18446744073709551614"]);
    p("profile-guard", &["kadd 4096 8192 4294963201 1", "padd 0 4096 8192 0 2", "frame 0 ip 8190", "frame 0 ip 8191", "frame 0 ra 8192", "frame 0 ra 8191",
        "padd 1 0 8589934592 5 3", "frame 1 ip 4294967296", "frame 1 ip 100"]);
    p("profile-empty-range", &["padd 0 100 200 0 1", "padd 0 300 250 0 2", "frame 0 ip 150", "kadd 500 400 0 3", "frame 0 ip 450", "padd 0 150 150 0 4", "frame 0 ip 150"]);
    v
}

#[derive(Clone, Copy, PartialEq)]
enum Family {
    Grid,
    Max,
    Guard,
    Excluded,
    Long,
}

fn make_grid(rng: &mut Rng, fam: Family) -> Vec<u64> {
    let n = match fam {
        Family::Long => 30,
        Family::Guard => 8,
        _ => 12,
    };
    let steps: &[u64] = match fam {
        Family::Guard => &[1, 2, 1 << 31, (1 << 32) - 1, 1 << 32, (1 << 32) + 1, 4096],
        _ => &[1, 1, 2, 3, 8, 16, 100, 4096],
    };
    let mut gaps: Vec<u64> = (0..n).map(|_| *rng.pick(steps)).collect();
    let span: u64 = gaps.iter().sum();
    let base = match fam {
        Family::Max => u64::MAX - span,
        _ => *rng.pick(&[0u64, 0, 1, 0x1000, 0x7fff_0000_0000, 0xffff_8000_0000_0000]),
    };
    let mut g = Vec::with_capacity(n + 1);
    let mut x = base;
    g.push(x);
    for d in gaps.drain(..) {
        x += d;
        g.push(x);
    }
    g
}

fn pick_range(rng: &mut Rng, grid: &[u64], fam: Family) -> (u64, u64) {
    let n = grid.len();
    let i = rng.below(n as u64 - 1) as usize;
    let maxspan = if rng.chance(1, 4) { n - 1 - i } else { (n - 1 - i).min(3) };
    let j = i + 1 + rng.below(maxspan as u64) as usize;
    let (s, e) = (grid[i], grid[j]);
    if fam == Family::Excluded && rng.chance(1, 4) {
        if rng.chance(1, 2) {
            (s, s)
        } else {
            (e, s)
        }
    } else {
        (s, e)
    }
}

fn pick_rel(rng: &mut Rng, s: u64, e: u64, base: u64, fam: Family) -> u64 {
    let len = e.saturating_sub(s);
    if fam == Family::Guard {
        return match rng.below(5) {
            0 => U32LIM.saturating_sub(len).min(U32LIM - 1),                       // fits exactly (when len ≤ 2^32)
            1 => (U32LIM.saturating_sub(len) + rng.range(1, 3)).min(U32LIM - 1),   // last addresses overflow
            2 => U32LIM - 1,
            3 => 0,
            _ => rng.below(U32LIM),
        };
    }
    let room = U32LIM.saturating_sub(len);
    match rng.below(4) {
        0 => 0,
        1 => (s - base).min(room.saturating_sub(1)), // like real callers: start − base address
        2 => rng.below(4096).min(room.saturating_sub(1)),
        _ => {
            if room > 0 {
                rng.below(room)
            } else {
                0
            }
        }
    }
}

fn boundary_set(s: u64, e: u64, into: &mut BTreeSet<u64>) {
    into.insert(s.saturating_sub(1));
    into.insert(s);
    into.insert(s.saturating_add(1));
    into.insert(e.saturating_sub(1));
    into.insert(e);
}

fn gen_table(rng: &mut Rng, fam: Family) -> Vec<String> {
    let grid = make_grid(rng, fam);
    let base = grid[0];
    let n_ops = match fam {
        Family::Long => rng.range(60, 160),
        _ => rng.range(2, 30),
    };
    let mut ops = vec!["mode table".to_string()];
    let mut added: Vec<(u64, u64, u64, u64)> = Vec::new();
    let mut all_bounds: BTreeSet<u64> = BTreeSet::new();
    for k in 0..n_ops {
        let mut here: BTreeSet<u64> = BTreeSet::new();
        match rng.below(20) {
            0..=12 => {
                let (s, e) = pick_range(rng, &grid, fam);
                let rel = pick_rel(rng, s, e, base, fam);
                ops.push(format!("add {s} {e} {rel} {}", k + 1));
                added.push((s, e, rel, k + 1));
                boundary_set(s, e, &mut here);
            }
            13 => {
                // identical re-add of an earlier mapping (possibly removed or displaced since)
                if let Some(&(s, e, rel, _)) = (!added.is_empty()).then(|| rng.pick(&added)) {
                    ops.push(format!("add {s} {e} {rel} {}", k + 1));
                    boundary_set(s, e, &mut here);
                } else {
                    ops.push("clear".to_string());
                }
            }
            14..=17 => {
                let s = if !added.is_empty() && rng.chance(3, 4) {
                    let m = rng.pick(&added);
                    if rng.chance(1, 8) {
                        m.1 // an end address: must not remove anything unless another mapping starts there
                    } else {
                        m.0
                    }
                } else {
                    *rng.pick(&grid)
                };
                ops.push(format!("remove {s}"));
                here.insert(s);
                here.insert(s.saturating_sub(1));
            }
            18 => ops.push("clear".to_string()),
            _ => {
                // a mapping strictly inside / around an existing one, off the grid
                if let Some(&(s, e, _, _)) = (!added.is_empty()).then(|| rng.pick(&added)) {
                    if e > s && e - s >= 3 {
                        let s2 = s + 1 + rng.below((e - s - 2).min(1000));
                        let e2 = s2 + 1 + rng.below((e - s2 - 1).min(1000).max(1));
                        let rel = pick_rel(rng, s2, e2, base, fam);
                        ops.push(format!("add {s2} {e2} {rel} {}", k + 1));
                        added.push((s2, e2, rel, k + 1));
                        boundary_set(s2, e2, &mut here);
                    } else {
                        ops.push(format!("remove {s}"));
                    }
                } else {
                    ops.push("clear".to_string());
                }
            }
        }
        all_bounds.extend(here.iter().copied());
        // probes: everything around this op + up to 16 older boundaries
        let mut probes = here.clone();
        let older: Vec<u64> = all_bounds.iter().copied().collect();
        for _ in 0..16.min(older.len()) {
            probes.insert(*rng.pick(&older));
        }
        if fam == Family::Guard {
            // addresses deep inside long mappings: around multiples of 2^32 from a start
            if let Some(&(s, e, _, _)) = (!added.is_empty()).then(|| rng.pick(&added)) {
                for d in [U32LIM - 1, U32LIM, U32LIM + 1] {
                    if let Some(a) = s.checked_add(d) {
                        if a < e {
                            probes.insert(a);
                        }
                    }
                }
            }
        }
        ops.push(probe_line(&probes));
        if fam != Family::Long || k % 8 == 0 || k + 1 == n_ops {
            ops.push("dump".to_string());
        }
    }
    ops
}

fn gen_profile(rng: &mut Rng, fam: Family) -> Vec<String> {
    let grid = make_grid(rng, fam);
    let base = grid[0];
    let n_ops = match fam {
        Family::Long => rng.range(60, 150),
        _ => rng.range(3, 40),
    };
    let mut ops = vec!["mode profile".to_string()];
    let mut bounds: BTreeSet<u64> = BTreeSet::new();
    let mut starts: Vec<(Option<u64>, u64)> = Vec::new();
    let kinds = ["ip", "ra", "ara"];
    for _ in 0..n_ops {
        match rng.below(20) {
            0..=3 => {
                let (s, e) = pick_range(rng, &grid, fam);
                let rel = pick_rel(rng, s, e, base, fam);
                ops.push(format!("kadd {s} {e} {rel} {}", rng.below(6)));
                starts.push((None, s));
                boundary_set(s, e, &mut bounds);
                bounds.insert(e.saturating_add(1));
            }
            4..=9 => {
                let (s, e) = pick_range(rng, &grid, fam);
                let rel = pick_rel(rng, s, e, base, fam);
                let q = rng.below(NPROC);
                ops.push(format!("padd {q} {s} {e} {rel} {}", rng.below(6)));
                starts.push((Some(q), s));
                boundary_set(s, e, &mut bounds);
                bounds.insert(e.saturating_add(1));
            }
            10 => {
                let s = starts.iter().filter(|x| x.0.is_none()).map(|x| x.1).last().unwrap_or(grid[0]);
                ops.push(format!("kremove {s}"));
            }
            11..=12 => {
                if let Some(&(Some(q), s)) = starts.iter().filter(|x| x.0.is_some()).last() {
                    let q = if rng.chance(1, 5) { (q + 1) % NPROC } else { q };
                    ops.push(format!("premove {q} {s}"));
                } else {
                    ops.push(format!("premove 0 {}", rng.pick(&grid)));
                }
            }
            13 => ops.push(format!("pclear {}", rng.below(NPROC))),
            _ => {
                let a = if bounds.is_empty() || rng.chance(1, 10) {
                    *rng.pick(&grid)
                } else {
                    let b: Vec<u64> = bounds.iter().copied().collect();
                    *rng.pick(&b)
                };
                ops.push(format!("frame {} {} {a}", rng.below(NPROC), rng.pick(&kinds)));
            }
        }
    }
    // closing sweep: every boundary, every process, ip and ra
    let b: Vec<u64> = bounds.iter().copied().collect();
    for q in 0..NPROC {
        for &a in b.iter().take(40) {
            ops.push(format!("frame {q} ip {a}"));
            ops.push(format!("frame {q} ra {a}"));
        }
    }
    ops
}

impl Prop for C11 {
    fn id(&self) -> &'static str {
        "C11"
    }
    fn case_count(&self, tier: Tier) -> u64 {
        match tier {
            Tier::Quick => 4000,
            Tier::Thorough => 60000,
        }
    }
    fn fixed_cases(&self, tier: Tier) -> Vec<Case> {
        let mut v = boundary_cases();
        let g5 = [10u64, 20, 30, 40, 50];
        let g4 = [10u64, 20, 30, 40];
        match tier {
            Tier::Quick => {
                for len in 0..=3 {
                    enum_table(&g5, len, "x5g", &mut v);
                }
                enum_table(&g4, 4, "x4g", &mut v);
                for len in 0..=2 {
                    enum_profile(len, &mut v);
                }
            }
            Tier::Thorough => {
                for len in 0..=4 {
                    enum_table(&g5, len, "x5g", &mut v);
                }
                enum_table(&g4, 5, "x4g", &mut v);
                for len in 0..=3 {
                    enum_profile(len, &mut v);
                }
            }
        }
        v
    }
    fn generate(&self, rng: &mut Rng, _tier: Tier, _index: u64) -> Vec<String> {
        let fam = match rng.below(20) {
            0..=10 => Family::Grid,
            11..=12 => Family::Max,
            13..=15 => Family::Guard,
            16..=17 => Family::Excluded,
            _ => Family::Long,
        };
        if rng.chance(3, 5) {
            gen_table(rng, fam)
        } else {
            gen_profile(rng, fam)
        }
    }
    fn execute(&self, ops: &[String], stats: &mut Stats) -> Vec<String> {
        match ops.first().map(|s| s.trim()) {
            Some("mode table") => {
                stats.bump("mode_table");
                exec_table(&ops[1..], stats)
            }
            Some("mode profile") => {
                stats.bump("mode_profile");
                exec_profile(&ops[1..], stats)
            }
            _ => vec!["bad-op".to_string()],
        }
    }
    fn nontrivial(&self, ops: &[String], out: &[String]) -> bool {
        // at least two mapping calls, and at least one address resolved into a mapping
        let calls = ops.iter().filter(|l| l.contains("add ") || l.contains("remove ") || l.contains("clear")).count();
        let hit = out.iter().any(|l| {
            l.starts_with("frame lib") || (l.starts_with("res") && l.split_whitespace().skip(1).any(|t| !t.starts_with("-/")))
        });
        calls >= 2 && hit
    }
}

fn main() {
    verif_harness::runner::run_main(&C11);
}
