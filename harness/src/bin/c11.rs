//! C11 — drives the real `fxprof_processed_profile` code in-process.
//!
//! `mode table`:   the public `LibMappings<u32>` type (`fxprof-processed-profile/src/lib_mappings.rs`), call by call:
//!                 `add_mapping`, `remove_mapping`, `clear`, and `lookup` + `convert_address` at every probe address.
//! `mode profile`: the public `Profile` API — `add_lib`, `add_lib_mapping`, `add_kernel_lib_mapping`,
//!                 `remove_lib_mapping`, `remove_kernel_lib_mapping`, `clear_process_lib_mappings`,
//!                 `handle_for_frame_with_address` (+ `handle_for_stack`, `add_sample`), then `serde_json` and a
//!                 read-back of samples.stack → stackTable.frame → frameTable.address/func → funcTable.resource/name →
//!                 resourceTable.lib → libs[..].name.
//!
//! `mode threads`: the same API, but the case creates processes and threads itself (`add_process`, `add_thread`), frames
//!                 are addressed by *thread*, through `handle_for_frame_with_address` or `handle_for_native_symbol` +
//!                 `handle_for_frame_with_address_and_symbol`, with all six `FrameAddress` variants; handles that were
//!                 never handed out (excluded point) are minted from a second, larger `Profile`.
//!
//! Line protocol: see lean/SamplyModel/Iface/C11.lean.
use fxprof_processed_profile::{
    CategoryHandle, CpuDelta, FrameAddress, FrameFlags, FrameSymbolInfo, LibMappings, LibraryHandle, LibraryInfo,
    ProcessHandle, Profile, ReferenceTimestamp, SamplingInterval, SourceLocation, Symbol, ThreadHandle, Timestamp,
};
use std::collections::{BTreeMap, BTreeSet};
use std::panic::{catch_unwind, AssertUnwindSafe};
use verif_harness::common::*;

pub struct C11;

const NPROC: u64 = 3;
const U32LIM: u64 = 1 << 32;

// ------------------------------------------------------------------------------------------------
// executor: table mode

fn table_len(m: &LibMappings<u32>) -> usize {
    // the map is private; its derived Debug output has one `Mapping {` per entry
    format!("{m:?}").matches("Mapping {").count()
}

/// `ents <start>:<end>:<rel>:<value>*` from the derived `Debug` output (field names are not relied upon: the four
/// integers of every `Mapping { .. }` in declaration order)
fn table_dump(m: &LibMappings<u32>) -> String {
    let d = format!("{m:?}");
    let mut line = String::from("ents");
    for chunk in d.split("Mapping {").skip(1) {
        let body = chunk.split('}').next().unwrap_or("");
        let nums: Vec<&str> = body.split(|c: char| !c.is_ascii_digit()).filter(|s| !s.is_empty()).collect();
        if nums.len() != 4 {
            return "ents err:debug-format".to_string();
        }
        line.push_str(&format!(" {}:{}:{}:{}", nums[0], nums[1], nums[2], nums[3]));
    }
    line
}

fn exec_table(ops: &[String], stats: &mut Stats) -> Vec<String> {
    let mut out = Vec::new();
    let mut m: LibMappings<u32> = LibMappings::new();
    // the eviction statistic formats the whole table twice per add: only on cases of ordinary length
    let count_evictions = ops.len() <= 400;
    for l in ops {
        let w: Vec<&str> = l.split_whitespace().collect();
        let num = |i: usize| -> Option<u64> { w.get(i).and_then(|s| s.parse::<u64>().ok()) };
        match w.first().copied() {
            Some("add") => {
                let (Some(s), Some(e), Some(rel), Some(v)) = (num(1), num(2), num(3), num(4)) else {
                    return vec!["bad-op".into()];
                };
                if rel >= U32LIM || v >= U32LIM {
                    return vec!["bad-op".into()];
                }
                let before = if count_evictions { table_len(&m) } else { 0 };
                let r = catch_unwind(AssertUnwindSafe(|| m.add_mapping(s, e, rel as u32, v as u32)));
                match r {
                    Ok(()) => {
                        if count_evictions {
                            let after = table_len(&m);
                            let evicted = before + 1 - after;
                            stats.bump(&format!("t_add_evicts_{}", evicted.min(3)));
                        }
                        if e <= s {
                            stats.bump("t_add_empty_range_accepted");
                        }
                        out.push("ok".into());
                    }
                    Err(_) => {
                        stats.bump("t_add_panic");
                        out.push("panic".into());
                    }
                }
            }
            Some("remove") => {
                let Some(s) = num(1) else { return vec!["bad-op".into()] };
                match m.remove_mapping(s) {
                    None => {
                        stats.bump("t_remove_miss");
                        out.push("removed -".into());
                    }
                    Some((rel, v)) => {
                        stats.bump("t_remove_hit");
                        out.push(format!("removed {rel} {v}"));
                    }
                }
            }
            Some("clear") => {
                m.clear();
                stats.bump("t_clear");
                out.push("ok".into());
            }
            Some("dump") => {
                let n = table_len(&m);
                stats.bump(&format!("t_dump_entries_{}", if n >= 200 { 200 } else if n >= 50 { 50 } else { n.min(5) }));
                out.push(table_dump(&m));
            }
            Some("probe") => {
                let mut line = String::from("res");
                for i in 1..w.len() {
                    let Some(a) = num(i) else { return vec!["bad-op".into()] };
                    let lk = match m.lookup(a) {
                        None => "-".to_string(),
                        Some(v) => v.to_string(),
                    };
                    let cv = match catch_unwind(AssertUnwindSafe(|| m.convert_address(a).map(|(r, v)| (r, *v)))) {
                        Ok(None) => {
                            stats.bump("t_probe_miss");
                            "-".to_string()
                        }
                        Ok(Some((rel, v))) => {
                            stats.bump("t_probe_hit");
                            format!("{v}:{rel}")
                        }
                        Err(_) => {
                            stats.bump("t_probe_convert_panic");
                            "!".to_string()
                        }
                    };
                    line.push_str(&format!(" {lk}/{cv}"));
                }
                out.push(line);
            }
            _ => return vec!["bad-op".into()],
        }
    }
    out
}

// ------------------------------------------------------------------------------------------------
// executor: profile mode

struct Prof {
    profile: Profile,
    threads: Vec<ThreadHandle>,
    procs: Vec<fxprof_processed_profile::ProcessHandle>,
    libs: BTreeMap<u64, LibraryHandle>,
}

impl Prof {
    fn lib(&mut self, v: u64) -> LibraryHandle {
        if let Some(h) = self.libs.get(&v) {
            return *h;
        }
        let name = format!("lib{v}");
        let h = self.profile.add_lib(LibraryInfo {
            name: name.clone(),
            debug_name: name.clone(),
            path: format!("/c11/{name}"),
            debug_path: format!("/c11/{name}"),
            debug_id: fxprof_processed_profile::debugid::DebugId::nil(),
            code_id: None,
            arch: None,
        });
        self.libs.insert(v, h);
        h
    }
}

enum FrameOut {
    Panic,
    Sample(usize, usize), // (process number, sample index in that process's thread)
}

fn exec_profile(ops: &[String], stats: &mut Stats) -> Vec<String> {
    let mut p = Prof {
        profile: Profile::new(
            "c11",
            ReferenceTimestamp::from_millis_since_unix_epoch(0.0),
            SamplingInterval::from_millis(1),
        ),
        threads: Vec::new(),
        procs: Vec::new(),
        libs: BTreeMap::new(),
    };
    for k in 0..NPROC {
        let ph = p.profile.add_process(&format!("proc{k}"), 100 + k as u32, Timestamp::from_nanos_since_reference(k));
        let th = p.profile.add_thread(ph, 1000 + k as u32, Timestamp::from_nanos_since_reference(k), true);
        p.procs.push(ph);
        p.threads.push(th);
    }
    // one entry per op line: Some(text) for mapping ops, frame placeholder otherwise
    let mut lines: Vec<Result<String, FrameOut>> = Vec::new();
    let mut sample_counts = vec![0usize; NPROC as usize];
    for (k, l) in ops.iter().enumerate() {
        let w: Vec<&str> = l.split_whitespace().collect();
        let num = |i: usize| -> Option<u64> { w.get(i).and_then(|s| s.parse::<u64>().ok()) };
        let proc_at = |i: usize| -> Option<usize> { num(i).filter(|q| *q < NPROC).map(|q| q as usize) };
        let okline = |r: std::thread::Result<()>, stats: &mut Stats, what: &str| -> Result<String, FrameOut> {
            match r {
                Ok(()) => Ok("ok".to_string()),
                Err(_) => {
                    stats.bump(&format!("p_{what}_panic"));
                    Ok("panic".to_string())
                }
            }
        };
        match w.first().copied() {
            Some("kadd") => {
                let (Some(s), Some(e), Some(rel), Some(v)) = (num(1), num(2), num(3), num(4)) else {
                    return vec!["bad-op".into()];
                };
                if rel >= U32LIM {
                    return vec!["bad-op".into()];
                }
                let lib = p.lib(v);
                let r = catch_unwind(AssertUnwindSafe(|| p.profile.add_kernel_lib_mapping(lib, s, e, rel as u32)));
                stats.bump("p_kadd");
                lines.push(okline(r, stats, "kadd"));
            }
            Some("kremove") => {
                let Some(s) = num(1) else { return vec!["bad-op".into()] };
                p.profile.remove_kernel_lib_mapping(s);
                stats.bump("p_kremove");
                lines.push(Ok("ok".into()));
            }
            Some("padd") => {
                let (Some(q), Some(s), Some(e), Some(rel), Some(v)) = (proc_at(1), num(2), num(3), num(4), num(5)) else {
                    return vec!["bad-op".into()];
                };
                if rel >= U32LIM {
                    return vec!["bad-op".into()];
                }
                let lib = p.lib(v);
                let ph = p.procs[q];
                let r = catch_unwind(AssertUnwindSafe(|| p.profile.add_lib_mapping(ph, lib, s, e, rel as u32)));
                stats.bump("p_padd");
                lines.push(okline(r, stats, "padd"));
            }
            Some("premove") => {
                let (Some(q), Some(s)) = (proc_at(1), num(2)) else { return vec!["bad-op".into()] };
                p.profile.remove_lib_mapping(p.procs[q], s);
                stats.bump("p_premove");
                lines.push(Ok("ok".into()));
            }
            Some("pclear") => {
                let Some(q) = proc_at(1) else { return vec!["bad-op".into()] };
                p.profile.clear_process_lib_mappings(p.procs[q]);
                stats.bump("p_pclear");
                lines.push(Ok("ok".into()));
            }
            Some("frame") => {
                let (Some(q), Some(a)) = (proc_at(1), num(3)) else { return vec!["bad-op".into()] };
                let fa = match w.get(2).copied() {
                    Some("ip") => FrameAddress::InstructionPointer(a),
                    Some("ra") => FrameAddress::ReturnAddress(a),
                    Some("ara") => FrameAddress::AdjustedReturnAddress(a),
                    _ => return vec!["bad-op".into()],
                };
                stats.bump(&format!("p_frame_{}", w[2]));
                let th = p.threads[q];
                let r = catch_unwind(AssertUnwindSafe(|| {
                    p.profile.handle_for_frame_with_address(th, fa, CategoryHandle::OTHER, FrameFlags::empty())
                }));
                match r {
                    Err(_) => {
                        stats.bump("p_frame_panic");
                        lines.push(Err(FrameOut::Panic));
                    }
                    Ok(fh) => {
                        let st = p.profile.handle_for_stack(th, fh, None);
                        p.profile.add_sample(
                            th,
                            Timestamp::from_nanos_since_reference(1_000_000 + 1000 * k as u64),
                            Some(st),
                            CpuDelta::ZERO,
                            1,
                        );
                        lines.push(Err(FrameOut::Sample(q, sample_counts[q])));
                        sample_counts[q] += 1;
                    }
                }
            }
            _ => return vec!["bad-op".into()],
        }
    }
    // serialize and read back
    let json = match serde_json::to_value(&p.profile) {
        Ok(j) => j,
        Err(_) => return vec!["err:serialize".into()],
    };
    let libs = &json["libs"];
    let mut by_proc: Vec<Option<&serde_json::Value>> = vec![None; NPROC as usize];
    if let Some(ths) = json["threads"].as_array() {
        for t in ths {
            if let Some(tid) = t["tid"].as_str().and_then(|s| s.parse::<u64>().ok()) {
                if (1000..1000 + NPROC).contains(&tid) {
                    by_proc[(tid - 1000) as usize] = Some(t);
                }
            }
        }
    }
    let mut out = Vec::new();
    for l in lines {
        match l {
            Ok(s) => out.push(s),
            Err(FrameOut::Panic) => out.push("frame panic".into()),
            Err(FrameOut::Sample(q, i)) => {
                let line = (|| -> Option<String> {
                    let t = by_proc[q]?;
                    let stack = t["samples"]["stack"].get(i)?.as_u64()? as usize;
                    let frame = t["stackTable"]["frame"].get(stack)?.as_u64()? as usize;
                    if !t["stackTable"]["prefix"].get(stack)?.is_null() {
                        return Some("frame err:prefix".into());
                    }
                    let addr = t["frameTable"]["address"].get(frame)?.as_i64()?;
                    let func = t["frameTable"]["func"].get(frame)?.as_u64()? as usize;
                    let res = t["funcTable"]["resource"].get(func)?.as_i64()?;
                    if res >= 0 {
                        if addr < 0 {
                            return Some("frame err:lib-without-address".into());
                        }
                        let lib = t["resourceTable"]["lib"].get(res as usize)?.as_u64()? as usize;
                        let name = libs.get(lib)?["name"].as_str()?;
                        let v = name.strip_prefix("lib")?.parse::<u64>().ok()?;
                        Some(format!("frame lib {v} {addr}"))
                    } else {
                        if addr >= 0 {
                            return Some("frame err:address-without-lib".into());
                        }
                        let name_idx = t["funcTable"]["name"].get(func)?.as_u64()? as usize;
                        let name = t["stringArray"].get(name_idx)?.as_str()?;
                        let a = u64::from_str_radix(name.strip_prefix("0x")?, 16).ok()?;
                        Some(format!("frame unknown {a}"))
                    }
                })()
                .unwrap_or_else(|| "frame err:readback".into());
                if line.starts_with("frame lib") {
                    stats.bump("p_frame_in_lib");
                } else if line.starts_with("frame unknown") {
                    stats.bump("p_frame_unknown");
                }
                out.push(line);
            }
        }
    }
    out
}

// ------------------------------------------------------------------------------------------------
// executor: threads mode

const IDX_LIM: usize = 64;

/// the index inside a handle, from its derived `Debug` form (`ProcessHandle(3)`, `ThreadHandle(7)`)
fn handle_index<T: std::fmt::Debug>(h: &T) -> Option<usize> {
    let d = format!("{h:?}");
    let digits: String = d.chars().filter(|c| c.is_ascii_digit()).collect();
    digits.parse().ok()
}

/// a second profile with `IDX_LIM` processes and threads: the only way to obtain a handle with a given index that the
/// profile under test has not handed out (the excluded point "handle of another profile")
struct Donor {
    procs: Vec<ProcessHandle>,
    threads: Vec<ThreadHandle>,
}

fn make_donor() -> Donor {
    let mut d = Profile::new("donor", ReferenceTimestamp::from_millis_since_unix_epoch(0.0), SamplingInterval::from_millis(1));
    let mut procs = Vec::new();
    let mut threads = Vec::new();
    for k in 0..IDX_LIM {
        let ph = d.add_process("d", k as u32, Timestamp::from_nanos_since_reference(0));
        procs.push(ph);
    }
    for k in 0..IDX_LIM {
        threads.push(d.add_thread(procs[0], k as u32, Timestamp::from_nanos_since_reference(0), false));
    }
    Donor { procs, threads }
}

enum ThFrame {
    Panic,
    Orphan,
    Sample(usize, usize), // (thread creation index, sample index in that thread)
}

fn read_frame(t: &serde_json::Value, libs: &serde_json::Value, i: usize) -> Option<String> {
    let stack = t["samples"]["stack"].get(i)?.as_u64()? as usize;
    let frame = t["stackTable"]["frame"].get(stack)?.as_u64()? as usize;
    if !t["stackTable"]["prefix"].get(stack)?.is_null() {
        return Some("frame err:prefix".into());
    }
    let addr = t["frameTable"]["address"].get(frame)?.as_i64()?;
    let func = t["frameTable"]["func"].get(frame)?.as_u64()? as usize;
    let res = t["funcTable"]["resource"].get(func)?.as_i64()?;
    if res >= 0 {
        if addr < 0 {
            return Some("frame err:lib-without-address".into());
        }
        let lib = t["resourceTable"]["lib"].get(res as usize)?.as_u64()? as usize;
        let name = libs.get(lib)?["name"].as_str()?;
        let v = name.strip_prefix("lib")?.parse::<u64>().ok()?;
        Some(format!("frame lib {v} {addr}"))
    } else {
        if addr >= 0 {
            return Some("frame err:address-without-lib".into());
        }
        let name_idx = t["funcTable"]["name"].get(func)?.as_u64()? as usize;
        let name = t["stringArray"].get(name_idx)?.as_str()?;
        let a = u64::from_str_radix(name.strip_prefix("0x")?, 16).ok()?;
        Some(format!("frame unknown {a}"))
    }
}

/// the text between the `{` at `open` and its matching `}` (strings in the output never contain braces: all names
/// are generated by this file)
fn brace_body(d: &str, open: usize) -> Option<&str> {
    let mut depth = 0usize;
    for (i, c) in d[open..].char_indices() {
        match c {
            '{' => depth += 1,
            '}' => {
                depth -= 1;
                if depth == 0 {
                    return Some(&d[open + 1..open + i]);
                }
            }
            _ => {}
        }
    }
    None
}

/// `tables k <ents> p0 <ents> ..` from the derived `Debug` output of `Profile`: every `LibMappings { .. }` in it is
/// the kernel table (the one preceded by `kernel_libs: `) or the `libs` of one process, in process order; per entry
/// the four integers of `Mapping { .. }` (the last one is the index inside the `LibraryHandle`)
fn profile_tables(profile: &Profile, n_procs: usize, lib_value: &BTreeMap<usize, u64>) -> String {
    let d = format!("{profile:?}");
    let mut kernel: Option<String> = None;
    let mut procs: Vec<String> = Vec::new();
    let mut from = 0usize;
    while let Some(pos) = d[from..].find("LibMappings {") {
        let at = from + pos;
        let open = at + "LibMappings ".len();
        let Some(body) = brace_body(&d, open) else { return "tables err:debug-format".into() };
        let mut ents = String::new();
        for chunk in body.split("Mapping {").skip(1) {
            let inner = chunk.split('}').next().unwrap_or("");
            let nums: Vec<&str> = inner.split(|c: char| !c.is_ascii_digit()).filter(|s| !s.is_empty()).collect();
            if nums.len() != 4 {
                return "tables err:debug-format".into();
            }
            let Some(v) = nums[3].parse::<usize>().ok().and_then(|h| lib_value.get(&h)) else {
                return "tables err:unknown-lib".into();
            };
            ents.push_str(&format!(" {}:{}:{}:{v}", nums[0], nums[1], nums[2]));
        }
        if d[..at].ends_with("kernel_libs: ") {
            if kernel.is_some() {
                return "tables err:debug-format".into();
            }
            kernel = Some(ents);
        } else {
            procs.push(ents);
        }
        from = open + body.len();
    }
    let Some(kernel) = kernel else { return "tables err:debug-format".into() };
    if procs.len() != n_procs {
        return "tables err:debug-format".into();
    }
    let mut line = format!("tables k{kernel}");
    for (i, e) in procs.iter().enumerate() {
        line.push_str(&format!(" p{i}{e}"));
    }
    line
}

fn exec_threads(ops: &[String], stats: &mut Stats) -> Vec<String> {
    let mut p = Prof {
        profile: Profile::new("c11t", ReferenceTimestamp::from_millis_since_unix_epoch(0.0), SamplingInterval::from_millis(1)),
        threads: Vec::new(),
        procs: Vec::new(),
        libs: BTreeMap::new(),
    };
    let mut donor: Option<Donor> = None;
    // handles the profile under test handed out, by the index they carry
    let mut own_procs: BTreeMap<usize, ProcessHandle> = BTreeMap::new();
    let mut own_threads: BTreeMap<usize, ThreadHandle> = BTreeMap::new();
    let mut thread_owner: BTreeMap<usize, usize> = BTreeMap::new();
    let mut proc_attempts = 0usize;
    let mut thread_attempts = 0usize; // every `add_thread` call pushes a thread, also one that panics afterwards
    let mut orphans: BTreeSet<usize> = BTreeSet::new();
    let mut sample_counts: BTreeMap<usize, usize> = BTreeMap::new();
    let mut lines: Vec<Result<String, ThFrame>> = Vec::new();
    let mut sym_lib: Option<LibraryHandle> = None;
    for (k, l) in ops.iter().enumerate() {
        let w: Vec<&str> = l.split_whitespace().collect();
        let num = |i: usize| -> Option<u64> { w.get(i).and_then(|s| s.parse::<u64>().ok()) };
        let idx = |i: usize| -> Option<usize> { num(i).filter(|q| (*q as usize) < IDX_LIM).map(|q| q as usize) };
        macro_rules! proc_handle {
            ($q:expr) => {{
                match own_procs.get(&$q) {
                    Some(h) => *h,
                    None => {
                        stats.bump("th_foreign_process_handle");
                        donor.get_or_insert_with(make_donor).procs[$q]
                    }
                }
            }};
        }
        macro_rules! thread_handle {
            ($q:expr) => {{
                match own_threads.get(&$q) {
                    Some(h) => *h,
                    None => {
                        stats.bump("th_foreign_thread_handle");
                        donor.get_or_insert_with(make_donor).threads[$q]
                    }
                }
            }};
        }
        let okline = |r: std::thread::Result<()>, stats: &mut Stats, what: &str| -> Result<String, ThFrame> {
            match r {
                Ok(()) => Ok("ok".to_string()),
                Err(_) => {
                    stats.bump(&format!("th_{what}_panic"));
                    Ok("panic".to_string())
                }
            }
        };
        match w.first().copied() {
            Some("proc") => {
                if w.len() != 1 {
                    return vec!["bad-op".into()];
                }
                let ph = p.profile.add_process(
                    &format!("proc{proc_attempts}"),
                    100 + proc_attempts as u32,
                    Timestamp::from_nanos_since_reference(proc_attempts as u64),
                );
                proc_attempts += 1;
                stats.bump("th_proc");
                match handle_index(&ph) {
                    Some(i) => {
                        own_procs.insert(i, ph);
                        lines.push(Ok(format!("h {i}")));
                    }
                    None => lines.push(Ok("err:handle-debug".into())),
                }
            }
            Some("thread") => {
                let Some(q) = idx(1) else { return vec!["bad-op".into()] };
                if w.len() != 2 {
                    return vec!["bad-op".into()];
                }
                let ph = proc_handle!(q);
                let a = thread_attempts;
                thread_attempts += 1;
                let r = catch_unwind(AssertUnwindSafe(|| {
                    p.profile.add_thread(ph, 1000 + a as u32, Timestamp::from_nanos_since_reference(a as u64), a % 2 == 0)
                }));
                stats.bump("th_thread");
                match r {
                    Ok(th) => match handle_index(&th) {
                        Some(i) => {
                            if i != q {
                                stats.bump("th_thread_index_differs_from_process_index");
                            }
                            own_threads.insert(i, th);
                            thread_owner.insert(i, q);
                            lines.push(Ok(format!("h {i}")));
                        }
                        None => lines.push(Ok("err:handle-debug".into())),
                    },
                    Err(_) => {
                        stats.bump("th_thread_panic");
                        orphans.insert(a);
                        lines.push(Ok("panic".into()));
                    }
                }
            }
            Some("kadd") => {
                let (Some(s), Some(e), Some(rel), Some(v)) = (num(1), num(2), num(3), num(4)) else {
                    return vec!["bad-op".into()];
                };
                if rel >= U32LIM || w.len() != 5 {
                    return vec!["bad-op".into()];
                }
                let lib = p.lib(v);
                let r = catch_unwind(AssertUnwindSafe(|| p.profile.add_kernel_lib_mapping(lib, s, e, rel as u32)));
                stats.bump("th_kadd");
                lines.push(okline(r, stats, "kadd"));
            }
            Some("kremove") => {
                let Some(s) = num(1) else { return vec!["bad-op".into()] };
                if w.len() != 2 {
                    return vec!["bad-op".into()];
                }
                p.profile.remove_kernel_lib_mapping(s);
                stats.bump("th_kremove");
                lines.push(Ok("ok".into()));
            }
            Some("padd") => {
                let (Some(q), Some(s), Some(e), Some(rel), Some(v)) = (idx(1), num(2), num(3), num(4), num(5)) else {
                    return vec!["bad-op".into()];
                };
                if rel >= U32LIM || w.len() != 6 {
                    return vec!["bad-op".into()];
                }
                let lib = p.lib(v);
                let ph = proc_handle!(q);
                let r = catch_unwind(AssertUnwindSafe(|| p.profile.add_lib_mapping(ph, lib, s, e, rel as u32)));
                stats.bump("th_padd");
                lines.push(okline(r, stats, "padd"));
            }
            Some("premove") => {
                let (Some(q), Some(s)) = (idx(1), num(2)) else { return vec!["bad-op".into()] };
                if w.len() != 3 {
                    return vec!["bad-op".into()];
                }
                let ph = proc_handle!(q);
                let r = catch_unwind(AssertUnwindSafe(|| p.profile.remove_lib_mapping(ph, s)));
                stats.bump("th_premove");
                lines.push(okline(r, stats, "premove"));
            }
            Some("pclear") => {
                let Some(q) = idx(1) else { return vec!["bad-op".into()] };
                if w.len() != 2 {
                    return vec!["bad-op".into()];
                }
                let ph = proc_handle!(q);
                let r = catch_unwind(AssertUnwindSafe(|| p.profile.clear_process_lib_mappings(ph)));
                stats.bump("th_pclear");
                lines.push(okline(r, stats, "pclear"));
            }
            Some("pdump") => {
                if w.len() != 1 {
                    return vec!["bad-op".into()];
                }
                let mut lib_value: BTreeMap<usize, u64> = BTreeMap::new();
                for (v, h) in &p.libs {
                    if let Some(i) = handle_index(h) {
                        lib_value.insert(i, *v);
                    }
                }
                stats.bump("th_pdump");
                lines.push(Ok(profile_tables(&p.profile, proc_attempts, &lib_value)));
            }
            Some(kw @ ("frame" | "fsym")) => {
                let with_sym = kw == "fsym";
                let Some(t) = idx(1) else { return vec!["bad-op".into()] };
                let (nt, rest) = if with_sym {
                    let Some(nt) = idx(2) else { return vec!["bad-op".into()] };
                    (nt, &w[3..])
                } else {
                    (t, &w[2..])
                };
                let arg = |i: usize| -> Option<u64> { rest.get(i).and_then(|s| s.parse::<u64>().ok()) };
                let fa = match (rest.first().copied(), rest.len()) {
                    (Some("ip"), 2) => arg(1).map(FrameAddress::InstructionPointer),
                    (Some("ra"), 2) => arg(1).map(FrameAddress::ReturnAddress),
                    (Some("ara"), 2) => arg(1).map(FrameAddress::AdjustedReturnAddress),
                    (Some(kind @ ("rip" | "rra" | "rara")), 3) => match (arg(1), arg(2)) {
                        (Some(v), Some(rel)) if rel < U32LIM => {
                            let lib = p.lib(v);
                            Some(match kind {
                                "rip" => FrameAddress::RelativeAddressFromInstructionPointer(lib, rel as u32),
                                "rra" => FrameAddress::RelativeAddressFromReturnAddress(lib, rel as u32),
                                _ => FrameAddress::RelativeAddressFromAdjustedReturnAddress(lib, rel as u32),
                            })
                        }
                        _ => None,
                    },
                    _ => None,
                };
                let Some(fa) = fa else { return vec!["bad-op".into()] };
                stats.bump(&format!("th_{kw}_{}", rest[0]));
                let th = thread_handle!(t);
                if let Some(owner) = thread_owner.get(&t) {
                    if *owner != t {
                        stats.bump("th_frame_on_thread_whose_index_differs_from_its_process");
                    }
                }
                let r = if with_sym {
                    let nth = thread_handle!(nt);
                    if nt != t {
                        stats.bump("th_fsym_symbol_of_other_thread");
                    }
                    let sl = match sym_lib {
                        Some(l) => l,
                        None => {
                            let l = p.lib(999_999);
                            sym_lib = Some(l);
                            l
                        }
                    };
                    catch_unwind(AssertUnwindSafe(|| {
                        let ns = p.profile.handle_for_native_symbol(
                            nth,
                            sl,
                            &Symbol { address: 16, size: Some(16), name: "c11sym".to_string() },
                        );
                        let info = FrameSymbolInfo { name: None, native_symbol: ns, source_location: SourceLocation::default() };
                        p.profile.handle_for_frame_with_address_and_symbol(th, fa, info, 0, CategoryHandle::OTHER, FrameFlags::empty())
                    }))
                } else {
                    catch_unwind(AssertUnwindSafe(|| {
                        p.profile.handle_for_frame_with_address(th, fa, CategoryHandle::OTHER, FrameFlags::empty())
                    }))
                };
                match r {
                    Err(_) => {
                        stats.bump("th_frame_panic");
                        lines.push(Err(ThFrame::Panic));
                    }
                    Ok(fh) => {
                        if orphans.contains(&t) {
                            stats.bump("th_frame_on_orphan_thread");
                            lines.push(Err(ThFrame::Orphan));
                        } else {
                            let st = p.profile.handle_for_stack(th, fh, None);
                            p.profile.add_sample(
                                th,
                                Timestamp::from_nanos_since_reference(1_000_000 + 1000 * k as u64),
                                Some(st),
                                CpuDelta::ZERO,
                                1,
                            );
                            let c = sample_counts.entry(t).or_insert(0);
                            lines.push(Err(ThFrame::Sample(t, *c)));
                            *c += 1;
                        }
                    }
                }
            }
            _ => return vec!["bad-op".into()],
        }
    }
    let json = match serde_json::to_value(&p.profile) {
        Ok(j) => j,
        Err(_) => return vec!["err:serialize".into()],
    };
    let libs = &json["libs"];
    let mut by_thread: BTreeMap<usize, &serde_json::Value> = BTreeMap::new();
    if let Some(ths) = json["threads"].as_array() {
        for t in ths {
            if let Some(tid) = t["tid"].as_str().and_then(|s| s.parse::<usize>().ok()) {
                if tid >= 1000 {
                    by_thread.insert(tid - 1000, t);
                }
            }
        }
    }
    let mut out = Vec::new();
    for l in lines {
        match l {
            Ok(s) => out.push(s),
            Err(ThFrame::Panic) => out.push("frame panic".into()),
            Err(ThFrame::Orphan) => out.push("frame orphan".into()),
            Err(ThFrame::Sample(t, i)) => {
                let line = by_thread.get(&t).and_then(|tj| read_frame(tj, libs, i)).unwrap_or_else(|| "frame err:readback".into());
                if line.starts_with("frame lib") {
                    stats.bump("th_frame_in_lib");
                } else if line.starts_with("frame unknown") {
                    stats.bump("th_frame_unknown");
                }
                out.push(line);
            }
        }
    }
    out
}

// ------------------------------------------------------------------------------------------------
// generators

fn probe_line(addrs: &BTreeSet<u64>) -> String {
    let mut s = String::from("probe");
    for a in addrs {
        s.push_str(&format!(" {a}"));
    }
    s
}

fn grid_probes(grid: &[u64]) -> BTreeSet<u64> {
    let mut s = BTreeSet::new();
    for &g in grid {
        s.insert(g.saturating_sub(1));
        s.insert(g);
    }
    if let Some(&l) = grid.last() {
        s.insert(l.saturating_add(1));
    }
    s
}

/// every op sequence of exactly `len` ops over `grid`: add of every non-empty grid interval, remove of every grid
/// point, clear; all boundary addresses probed after every op
fn enum_table(grid: &[u64], len: usize, tag: &str, out: &mut Vec<Case>) {
    let mut choices: Vec<(u8, u64, u64)> = Vec::new();
    for i in 0..grid.len() {
        for j in i + 1..grid.len() {
            choices.push((0, grid[i], grid[j]));
        }
    }
    for &g in grid {
        choices.push((1, g, 0));
    }
    choices.push((2, 0, 0));
    let probe = probe_line(&grid_probes(grid));
    let n = choices.len();
    let mut idx = vec![0usize; len];
    loop {
        let mut ops = vec!["mode table".to_string()];
        for (k, &c) in idx.iter().enumerate() {
            let (kind, a, b) = choices[c];
            match kind {
                0 => ops.push(format!("add {a} {b} {} {}", 100 * (k + 1), k + 1)),
                1 => ops.push(format!("remove {a}")),
                _ => ops.push("clear".to_string()),
            }
            ops.push(probe.clone());
            ops.push("dump".to_string());
        }
        let name = format!("{tag}{len}-{}", idx.iter().map(|c| format!("{c:x}.")).collect::<String>());
        out.push(Case { name, ops });
        let mut k = 0;
        loop {
            if k == len {
                return;
            }
            idx[k] += 1;
            if idx[k] < n {
                break;
            }
            idx[k] = 0;
            k += 1;
        }
    }
}

/// every sequence of exactly `len` mapping calls over a 3-point grid on the kernel table and the tables of processes
/// 0 and 1; instruction-pointer frames at every boundary after every call, all three address kinds at the end
fn enum_profile(len: usize, out: &mut Vec<Case>) {
    let grid = [10u64, 20, 30];
    let addrs: Vec<u64> = grid_probes(&grid).into_iter().collect();
    let mut choices: Vec<String> = Vec::new();
    for i in 0..3 {
        for j in i + 1..3 {
            choices.push(format!("kadd {} {}", grid[i], grid[j]));
            choices.push(format!("padd 0 {} {}", grid[i], grid[j]));
            choices.push(format!("padd 1 {} {}", grid[i], grid[j]));
        }
    }
    for &g in &grid {
        choices.push(format!("kremove {g}"));
        choices.push(format!("premove 0 {g}"));
    }
    choices.push("pclear 0".to_string());
    let n = choices.len();
    let mut idx = vec![0usize; len];
    loop {
        let mut ops = vec!["mode profile".to_string()];
        for (k, &c) in idx.iter().enumerate() {
            let ch = &choices[c];
            if ch.contains("add") {
                ops.push(format!("{ch} {} {}", 100 * (k + 1), k + 1));
            } else {
                ops.push(ch.clone());
            }
            for q in 0..2 {
                for &a in &addrs {
                    ops.push(format!("frame {q} ip {a}"));
                }
            }
        }
        for q in 0..2 {
            for kind in ["ra", "ara"] {
                for &a in &addrs {
                    ops.push(format!("frame {q} {kind} {a}"));
                }
            }
        }
        ops.push("frame 2 ip 15".to_string());
        ops.push("frame 2 ra 20".to_string());
        let name = format!("xp{len}-{}", idx.iter().map(|c| format!("{c:x}.")).collect::<String>());
        out.push(Case { name, ops });
        let mut k = 0;
        loop {
            if k == len {
                return;
            }
            idx[k] += 1;
            if idx[k] < n {
                break;
            }
            idx[k] = 0;
            k += 1;
        }
    }
}

/// hand-written boundary families (DESIGN.md §7 C11 / Appendix B)
fn boundary_cases() -> Vec<Case> {
    let mut v = Vec::new();
    let mut t = |name: &str, body: &[&str]| {
        let mut ops = vec!["mode table".to_string()];
        for s in body {
            ops.push(s.to_string());
            if !s.starts_with("probe") {
                ops.push("dump".to_string());
            }
        }
        v.push(Case { name: name.to_string(), ops });
    };
    // the repository's own unit test
    t("unit-test", &[
        "add 100 200 100 1", "add 200 250 200 2", "probe 200", "add 180 220 180 3", "probe 200 170 220 179 180 219",
        "add 225 250 225 4", "add 255 270 255 5", "add 100 150 100 6", "probe 90 150 149 200 260 99 100 224 225 250 254 255 269 270",
    ]);
    // new range starts inside an old one (removal start = covering mapping's start), old one must vanish entirely
    t("start-inside", &["add 100 200 0 1", "add 150 160 0 2", "probe 99 100 149 150 159 160 199 200"]);
    // new range starts exactly at an old end (touching): old one must survive
    t("touching", &["add 100 200 0 1", "add 200 300 0 2", "probe 99 100 199 200 299 300", "add 50 100 0 3", "probe 49 50 99 100 199 200"]);
    // swallowing several, starting before all of them
    t("swallow", &["add 10 20 0 1", "add 30 40 0 2", "add 50 60 0 3", "add 70 80 0 4", "add 5 65 7 5", "probe 4 5 10 19 20 30 49 50 59 60 64 65 69 70 79 80"]);
    // new range ends exactly at an old start / one past an old start
    t("end-at-start", &["add 100 200 0 1", "add 50 100 0 2", "probe 99 100", "add 40 101 0 3", "probe 40 99 100 101 150 199"]);
    // identical ranges, re-adding after remove, remove of non-start address, clear
    t("identical", &["add 100 200 1 1", "add 100 200 2 2", "probe 100 199", "remove 100", "probe 100 199", "remove 100",
        "add 100 200 3 3", "remove 150", "probe 150", "clear", "probe 100 150 199", "add 100 200 4 4", "probe 99 100 199 200"]);
    // lookup address exactly at the key of a later mapping (range(..=avma) must include the key itself)
    t("key-inclusive", &["add 0 10 0 1", "add 10 20 0 2", "add 20 30 0 3", "probe 0 9 10 19 20 29 30"]);
    // u64 extremes
    t("u64-max", &["add 18446744073709551000 18446744073709551615 0 1", "probe 18446744073709550999 18446744073709551000 18446744073709551614 18446744073709551615",
        "add 0 1 0 2", "probe 0 1", "add 0 18446744073709551615 0 3", "probe 0 1 4294967295 4294967296 18446744073709551614 18446744073709551615"]);
    // 32-bit guard: exactly fitting, one too many, mapping longer than 2^32 (truncating cast)
    t("guard", &["add 4096 8192 4294963200 1", "probe 4096 8191 8192", "add 4096 8192 4294963201 2", "probe 4096 8190 8191",
        "add 0 8589934592 5 3", "probe 0 4294967290 4294967291 4294967296 4294967297 8589934591"]);
    // excluded points: empty and inverted ranges
    t("empty-range", &["add 100 200 0 1", "add 150 150 0 2", "probe 100 149 150 199", "add 300 250 0 3", "probe 250 300",
        "add 160 120 0 4", "probe 100 119 120 150 160 199", "add 500 400 0 5", "probe 400 500"]);
    let mut p = |name: &str, body: &[&str]| {
        let mut ops = vec!["mode profile".to_string()];
        ops.extend(body.iter().map(|s| s.to_string()));
        v.push(Case { name: name.to_string(), ops });
    };
    p("kernel-first", &[
        "padd 0 1000 2000 0 1", "kadd 1500 1600 16 2", "padd 1 1000 1200 0 3", "frame 0 ip 1550", "frame 0 ip 1600", "frame 0 ra 1600",
        "frame 0 ra 1000", "frame 0 ara 1000", "frame 1 ip 1300", "frame 1 ip 1100", "frame 1 ip 1550", "frame 2 ip 1550", "frame 2 ip 1100",
        "kremove 1500", "frame 0 ip 1550", "frame 2 ip 1550", "pclear 0", "frame 0 ip 1550", "frame 1 ip 1100",
    ]);
    p("same-range-both", &["padd 0 100 200 0 1", "kadd 100 200 50 2", "frame 0 ip 100", "frame 0 ip 199", "frame 0 ra 200", "frame 0 ra 100",
        "frame 0 ip 200", "premove 0 100", "frame 0 ip 150", "kremove 100", "frame 0 ip 150"]);
    p("ra-zero", &["padd 0 0 10 0 1", "frame 0 ra 0", "frame 0 ra 1", "frame 0 ra 10", "frame 0 ra 11", "frame 0 ip 0", "frame 0 ara 0",
        "frame 1 ra 0", "frame 0 ra 18446744073709551615", "kadd 18446744073709551000 18446744073709551615 0 2", "frame 0 ra 18446744073709551615",
        "frame 0 ip 18446744073709551615", "frame 0 ip 18446744073709551614"]);
    p("profile-guard", &["kadd 4096 8192 4294963201 1", "padd 0 4096 8192 0 2", "frame 0 ip 8190", "frame 0 ip 8191", "frame 0 ra 8192", "frame 0 ra 8191",
        "padd 1 0 8589934592 5 3", "frame 1 ip 4294967296", "frame 1 ip 100"]);
    p("profile-empty-range", &["padd 0 100 200 0 1", "padd 0 300 250 0 2", "frame 0 ip 150", "kadd 500 400 0 3", "frame 0 ip 450", "padd 0 150 150 0 4", "frame 0 ip 150"]);
    let mut th = |name: &str, body: &[&str]| {
        let mut ops = vec!["mode threads".to_string()];
        ops.extend(body.iter().map(|s| s.to_string()));
        v.push(Case { name: name.to_string(), ops });
    };
    // thread index never equals the process index; two threads of one process; both frame functions
    th("thread-hop", &[
        "proc", "proc", "proc", "thread 2", "thread 0", "thread 0", "thread 1",
        "padd 0 1000 2000 0 1", "padd 1 1000 1200 7 3", "padd 2 1000 3000 100 4", "kadd 1500 1600 16 2",
        "frame 0 ip 1100", "frame 1 ip 1100", "frame 2 ip 1100", "frame 3 ip 1100",
        "fsym 0 0 ip 1100", "fsym 1 1 ip 1100", "fsym 2 2 ip 1100", "fsym 3 3 ip 1100",
        "frame 0 ip 1550", "fsym 3 3 ra 1601", "frame 3 ra 1201", "fsym 1 1 ra 1201", "frame 0 ra 1000", "fsym 0 0 ara 1000",
        "premove 0 1000", "frame 1 ip 1100", "fsym 2 2 ip 1100", "frame 0 ip 1100", "pclear 2", "fsym 0 0 ip 1100", "frame 0 ip 1550",
        "kremove 1500", "fsym 0 0 ip 1550", "frame 3 ip 1550", "pdump",
    ]);
    // processes and threads created after mappings exist: a new process starts empty; its index equals a thread index
    th("late-creation", &[
        "proc", "padd 0 100 200 0 1", "thread 0", "frame 0 ip 150", "proc", "thread 1", "thread 0", "frame 1 ip 150", "fsym 2 2 ip 150",
        "padd 1 100 300 50 2", "frame 1 ip 150", "frame 1 ip 250", "frame 0 ip 250", "fsym 2 2 ip 250", "proc", "thread 2", "fsym 3 3 ip 150",
        "kadd 140 160 0 3", "frame 3 ip 150", "frame 3 ip 139", "frame 1 ip 139", "frame 0 ra 140", "fsym 1 1 ra 161", "pdump",
    ]);
    // the RelativeAddressFrom* variants never consult a table (also for a library that is mapped elsewhere)
    th("relative-variants", &[
        "proc", "proc", "thread 1", "thread 0", "padd 0 100 200 0 1", "kadd 300 400 0 2",
        "frame 0 rip 1 50", "frame 0 rra 1 50", "frame 0 rara 1 50", "frame 1 rra 2 0", "frame 1 rra 2 1", "fsym 1 1 rip 7 4294967295",
        "fsym 0 0 rra 7 4294967295", "frame 1 rip 1 50", "fsym 1 1 rara 3 0",
    ]);
    // same address asked through both functions and two threads of one process right after kernel changes
    th("same-address-two-threads", &[
        "proc", "proc", "thread 1", "thread 1", "thread 0", "padd 1 100 200 0 1", "frame 0 ip 150", "fsym 1 1 ip 150", "kadd 120 180 0 2",
        "frame 1 ip 150", "fsym 0 0 ip 150", "frame 2 ip 150", "kremove 120", "fsym 1 1 ip 150", "frame 0 ip 150", "frame 2 ip 150",
    ]);
    // excluded point: handles the profile never handed out, a native symbol of another thread
    th("foreign-handles", &[
        "proc", "thread 0", "padd 0 100 200 0 1", "frame 0 ip 150", "padd 1 100 200 0 2", "premove 3 100", "pclear 2", "frame 0 ip 150",
        "frame 1 ip 150", "fsym 0 1 ip 150", "thread 0", "fsym 0 1 ip 150", "fsym 1 0 ip 150", "fsym 1 1 ip 150",
        "thread 1", "frame 2 ip 150", "proc", "frame 2 ip 150", "padd 1 100 200 5 3", "frame 2 ip 150", "thread 1", "frame 3 ip 150", "pdump",
    ]);
    v
}

#[derive(Clone, Copy, PartialEq)]
enum Family {
    Grid,
    Max,
    Guard,
    Excluded,
    Long,
}

fn make_grid(rng: &mut Rng, fam: Family) -> Vec<u64> {
    let n = match fam {
        Family::Long => 30,
        Family::Guard => 8,
        _ => 12,
    };
    let steps: &[u64] = match fam {
        Family::Guard => &[1, 2, 1 << 31, (1 << 32) - 1, 1 << 32, (1 << 32) + 1, 4096],
        _ => &[1, 1, 2, 3, 8, 16, 100, 4096],
    };
    let mut gaps: Vec<u64> = (0..n).map(|_| *rng.pick(steps)).collect();
    let span: u64 = gaps.iter().sum();
    let base = match fam {
        Family::Max => u64::MAX - span,
        _ => *rng.pick(&[0u64, 0, 1, 0x1000, 0x7fff_0000_0000, 0xffff_8000_0000_0000]),
    };
    let mut g = Vec::with_capacity(n + 1);
    let mut x = base;
    g.push(x);
    for d in gaps.drain(..) {
        x += d;
        g.push(x);
    }
    g
}

fn pick_range(rng: &mut Rng, grid: &[u64], fam: Family) -> (u64, u64) {
    let n = grid.len();
    let i = rng.below(n as u64 - 1) as usize;
    let maxspan = if rng.chance(1, 4) { n - 1 - i } else { (n - 1 - i).min(3) };
    let j = i + 1 + rng.below(maxspan as u64) as usize;
    let (s, e) = (grid[i], grid[j]);
    if fam == Family::Excluded && rng.chance(1, 4) {
        if rng.chance(1, 2) {
            (s, s)
        } else {
            (e, s)
        }
    } else {
        (s, e)
    }
}

fn pick_rel(rng: &mut Rng, s: u64, e: u64, base: u64, fam: Family) -> u64 {
    let len = e.saturating_sub(s);
    if fam == Family::Guard {
        return match rng.below(5) {
            0 => U32LIM.saturating_sub(len).min(U32LIM - 1),                       // fits exactly (when len ≤ 2^32)
            1 => (U32LIM.saturating_sub(len) + rng.range(1, 3)).min(U32LIM - 1),   // last addresses overflow
            2 => U32LIM - 1,
            3 => 0,
            _ => rng.below(U32LIM),
        };
    }
    let room = U32LIM.saturating_sub(len);
    match rng.below(4) {
        0 => 0,
        1 => (s - base).min(room.saturating_sub(1)), // like real callers: start − base address
        2 => rng.below(4096).min(room.saturating_sub(1)),
        _ => {
            if room > 0 {
                rng.below(room)
            } else {
                0
            }
        }
    }
}

fn boundary_set(s: u64, e: u64, into: &mut BTreeSet<u64>) {
    into.insert(s.saturating_sub(1));
    into.insert(s);
    into.insert(s.saturating_add(1));
    into.insert(e.saturating_sub(1));
    into.insert(e);
}

fn gen_table(rng: &mut Rng, fam: Family) -> Vec<String> {
    let grid = make_grid(rng, fam);
    let base = grid[0];
    let n_ops = match fam {
        Family::Long => rng.range(60, 160),
        _ => rng.range(2, 30),
    };
    let mut ops = vec!["mode table".to_string()];
    let mut added: Vec<(u64, u64, u64, u64)> = Vec::new();
    let mut all_bounds: BTreeSet<u64> = BTreeSet::new();
    for k in 0..n_ops {
        let mut here: BTreeSet<u64> = BTreeSet::new();
        match rng.below(20) {
            0..=12 => {
                let (s, e) = pick_range(rng, &grid, fam);
                let rel = pick_rel(rng, s, e, base, fam);
                ops.push(format!("add {s} {e} {rel} {}", k + 1));
                added.push((s, e, rel, k + 1));
                boundary_set(s, e, &mut here);
            }
            13 => {
                // identical re-add of an earlier mapping (possibly removed or displaced since)
                if let Some(&(s, e, rel, _)) = (!added.is_empty()).then(|| rng.pick(&added)) {
                    ops.push(format!("add {s} {e} {rel} {}", k + 1));
                    boundary_set(s, e, &mut here);
                } else {
                    ops.push("clear".to_string());
                }
            }
            14..=17 => {
                let s = if !added.is_empty() && rng.chance(3, 4) {
                    let m = rng.pick(&added);
                    if rng.chance(1, 8) {
                        m.1 // an end address: must not remove anything unless another mapping starts there
                    } else {
                        m.0
                    }
                } else {
                    *rng.pick(&grid)
                };
                ops.push(format!("remove {s}"));
                here.insert(s);
                here.insert(s.saturating_sub(1));
            }
            18 => ops.push("clear".to_string()),
            _ => {
                // a mapping strictly inside / around an existing one, off the grid
                if let Some(&(s, e, _, _)) = (!added.is_empty()).then(|| rng.pick(&added)) {
                    if e > s && e - s >= 3 {
                        let s2 = s + 1 + rng.below((e - s - 2).min(1000));
                        let e2 = s2 + 1 + rng.below((e - s2 - 1).min(1000).max(1));
                        let rel = pick_rel(rng, s2, e2, base, fam);
                        ops.push(format!("add {s2} {e2} {rel} {}", k + 1));
                        added.push((s2, e2, rel, k + 1));
                        boundary_set(s2, e2, &mut here);
                    } else {
                        ops.push(format!("remove {s}"));
                    }
                } else {
                    ops.push("clear".to_string());
                }
            }
        }
        all_bounds.extend(here.iter().copied());
        // probes: everything around this op + up to 16 older boundaries
        let mut probes = here.clone();
        let older: Vec<u64> = all_bounds.iter().copied().collect();
        for _ in 0..16.min(older.len()) {
            probes.insert(*rng.pick(&older));
        }
        if fam == Family::Guard {
            // addresses deep inside long mappings: around multiples of 2^32 from a start
            if let Some(&(s, e, _, _)) = (!added.is_empty()).then(|| rng.pick(&added)) {
                for d in [U32LIM - 1, U32LIM, U32LIM + 1] {
                    if let Some(a) = s.checked_add(d) {
                        if a < e {
                            probes.insert(a);
                        }
                    }
                }
            }
        }
        ops.push(probe_line(&probes));
        if fam != Family::Long || k % 8 == 0 || k + 1 == n_ops {
            ops.push("dump".to_string());
        }
    }
    ops
}

fn gen_profile(rng: &mut Rng, fam: Family) -> Vec<String> {
    let grid = make_grid(rng, fam);
    let base = grid[0];
    let n_ops = match fam {
        Family::Long => rng.range(60, 150),
        _ => rng.range(3, 40),
    };
    let mut ops = vec!["mode profile".to_string()];
    let mut bounds: BTreeSet<u64> = BTreeSet::new();
    let mut starts: Vec<(Option<u64>, u64)> = Vec::new();
    let kinds = ["ip", "ra", "ara"];
    for _ in 0..n_ops {
        match rng.below(20) {
            0..=3 => {
                let (s, e) = pick_range(rng, &grid, fam);
                let rel = pick_rel(rng, s, e, base, fam);
                ops.push(format!("kadd {s} {e} {rel} {}", rng.below(6)));
                starts.push((None, s));
                boundary_set(s, e, &mut bounds);
                bounds.insert(e.saturating_add(1));
            }
            4..=9 => {
                let (s, e) = pick_range(rng, &grid, fam);
                let rel = pick_rel(rng, s, e, base, fam);
                let q = rng.below(NPROC);
                ops.push(format!("padd {q} {s} {e} {rel} {}", rng.below(6)));
                starts.push((Some(q), s));
                boundary_set(s, e, &mut bounds);
                bounds.insert(e.saturating_add(1));
            }
            10 => {
                let s = starts.iter().filter(|x| x.0.is_none()).map(|x| x.1).last().unwrap_or(grid[0]);
                ops.push(format!("kremove {s}"));
            }
            11..=12 => {
                if let Some(&(Some(q), s)) = starts.iter().filter(|x| x.0.is_some()).last() {
                    let q = if rng.chance(1, 5) { (q + 1) % NPROC } else { q };
                    ops.push(format!("premove {q} {s}"));
                } else {
                    ops.push(format!("premove 0 {}", rng.pick(&grid)));
                }
            }
            13 => ops.push(format!("pclear {}", rng.below(NPROC))),
            _ => {
                let a = if bounds.is_empty() || rng.chance(1, 10) {
                    *rng.pick(&grid)
                } else {
                    let b: Vec<u64> = bounds.iter().copied().collect();
                    *rng.pick(&b)
                };
                ops.push(format!("frame {} {} {a}", rng.below(NPROC), rng.pick(&kinds)));
            }
        }
    }
    // closing sweep: every boundary, every process, ip and ra
    // (boundaries of dead mappings anywhere in the address range included: all of them when there are at most 80,
    // otherwise the lowest 40 and 40 random others)
    let all: Vec<u64> = bounds.iter().copied().collect();
    let b: Vec<u64> = if all.len() <= 80 {
        all
    } else {
        let mut sel: BTreeSet<u64> = all.iter().take(40).copied().collect();
        for _ in 0..40 {
            sel.insert(*rng.pick(&all));
        }
        sel.into_iter().collect()
    };
    for q in 0..NPROC {
        for &a in b.iter() {
            ops.push(format!("frame {q} ip {a}"));
            ops.push(format!("frame {q} ra {a}"));
        }
    }
    ops
}

/// `mode threads` from a `mode profile` history: the three logical processes become process handles in a shuffled
/// order among 3..5 created processes, every logical process gets 1..3 threads created in a shuffled order (so a
/// thread's index is not its process's index), more processes / threads are created in the middle of the history,
/// every frame goes to a random thread of its process through one of the two frame functions, some frames use the
/// `RelativeAddressFrom*` variants; the excluded family also passes handles that were never handed out.
fn gen_threads(rng: &mut Rng, fam: Family) -> Vec<String> {
    let base = gen_profile(rng, fam);
    let mut ops = vec!["mode threads".to_string()];
    let n_proc = rng.range(3, 5) as usize;
    let mut perm: Vec<usize> = (0..n_proc).collect();
    rng.shuffle(&mut perm);
    let mut owners: Vec<usize> = Vec::new();
    for q in 0..n_proc {
        for _ in 0..rng.range(if q < 3 { 1 } else { 0 }, 3) {
            owners.push(q);
        }
    }
    rng.shuffle(&mut owners);
    if owners.iter().enumerate().all(|(i, q)| i == *q) {
        owners.rotate_left(1);
    }
    let mut n_procs_now = 0usize;
    let mut threads_of: Vec<Vec<usize>> = Vec::new();
    let mut n_threads_now = 0usize;
    // processes and threads interleaved: a thread can only be created once its process exists
    let mut pending: Vec<usize> = owners.clone();
    while n_procs_now < n_proc || !pending.is_empty() {
        let can_thread = pending.first().map(|q| *q < n_procs_now).unwrap_or(false);
        if n_procs_now < n_proc && (!can_thread || rng.chance(1, 2)) {
            ops.push("proc".to_string());
            threads_of.push(Vec::new());
            n_procs_now += 1;
        } else if can_thread {
            let q = pending.remove(0);
            ops.push(format!("thread {q}"));
            threads_of[q].push(n_threads_now);
            n_threads_now += 1;
        }
    }
    let logical = |q: usize| -> usize { perm[q] };
    let mut last_addr = 0u64;
    for l in base.iter().skip(1) {
        // creation in the middle of the history: a new process starts with an empty table whatever the others hold
        if rng.chance(1, 40) && n_procs_now < 12 {
            ops.push("proc".to_string());
            threads_of.push(Vec::new());
            n_procs_now += 1;
        }
        if rng.chance(1, 25) && n_threads_now < 40 {
            let q = rng.below(n_procs_now as u64) as usize;
            ops.push(format!("thread {q}"));
            threads_of[q].push(n_threads_now);
            n_threads_now += 1;
        }
        let w: Vec<&str> = l.split_whitespace().collect();
        match w[0] {
            "kadd" | "kremove" => ops.push(l.clone()),
            "padd" | "premove" | "pclear" => {
                let q: usize = w[1].parse().unwrap();
                // mostly the translated process; sometimes any process (late ones and ones without threads too)
                let target = if rng.chance(1, 8) { rng.below(n_procs_now as u64) as usize } else { logical(q) };
                let mut line = format!("{} {target}", w[0]);
                for x in &w[2..] {
                    line.push(' ');
                    line.push_str(x);
                }
                ops.push(line);
            }
            "frame" => {
                let q: usize = w[1].parse().unwrap();
                let mut target = logical(q);
                if threads_of[target].is_empty() || rng.chance(1, 8) {
                    let with: Vec<usize> = (0..n_procs_now).filter(|x| !threads_of[*x].is_empty()).collect();
                    target = *rng.pick(&with);
                }
                let t = *rng.pick(&threads_of[target]);
                last_addr = w[3].parse().unwrap_or(0);
                let addr = if rng.chance(1, 25) {
                    let rel = *rng.pick(&[0u64, 1, 2, 4096, U32LIM - 1]);
                    format!("{} {} {rel}", rng.pick(&["rip", "rra", "rara"]), rng.below(6))
                } else {
                    format!("{} {}", w[2], w[3])
                };
                if rng.chance(2, 5) {
                    ops.push(format!("fsym {t} {t} {addr}"));
                } else {
                    ops.push(format!("frame {t} {addr}"));
                }
            }
            _ => ops.push(l.clone()),
        }
        if rng.chance(1, 30) {
            ops.push("pdump".to_string());
        }
        if fam == Family::Excluded && rng.chance(1, 12) {
            // handles of another profile
            let bad_p = n_procs_now + rng.below(3) as usize;
            let bad_t = n_threads_now + rng.below(3) as usize;
            match rng.below(6) {
                0 => ops.push(format!("padd {bad_p} {last_addr} {} 0 1", last_addr.saturating_add(10))),
                1 => ops.push(format!("premove {bad_p} {last_addr}")),
                2 => ops.push(format!("pclear {bad_p}")),
                3 => ops.push(format!("frame {bad_t} ip {last_addr}")),
                4 => {
                    let t = rng.below(n_threads_now as u64) as usize;
                    let other = if rng.chance(1, 2) { bad_t } else { (t + 1) % n_threads_now.max(1) };
                    ops.push(format!("fsym {t} {other} ip {last_addr}"));
                }
                _ => {
                    // the thread exists afterwards (pushed before the panic) but belongs to no process
                    ops.push(format!("thread {bad_p}"));
                    let t = n_threads_now;
                    n_threads_now += 1;
                    ops.push(format!("frame {t} ip {last_addr}"));
                    if rng.chance(1, 2) {
                        for _ in n_procs_now..=bad_p {
                            ops.push("proc".to_string());
                            threads_of.push(Vec::new());
                            n_procs_now += 1;
                        }
                        ops.push(format!("frame {t} ip {last_addr}"));
                    }
                }
            }
        }
    }
    ops.push("pdump".to_string());
    ops
}

/// every sequence of exactly `len` mapping calls as in `enum_profile`, on two processes whose threads are created in
/// another order (thread 0 in process 1, threads 1 and 2 in process 0); frames through both frame functions
fn enum_threads(len: usize, out: &mut Vec<Case>) {
    let grid = [10u64, 20, 30];
    let addrs: Vec<u64> = grid_probes(&grid).into_iter().collect();
    let mut choices: Vec<String> = Vec::new();
    for i in 0..3 {
        for j in i + 1..3 {
            choices.push(format!("kadd {} {}", grid[i], grid[j]));
            choices.push(format!("padd 0 {} {}", grid[i], grid[j]));
            choices.push(format!("padd 1 {} {}", grid[i], grid[j]));
        }
    }
    for &g in &grid {
        choices.push(format!("kremove {g}"));
        choices.push(format!("premove 0 {g}"));
    }
    choices.push("pclear 0".to_string());
    let n = choices.len();
    let mut idx = vec![0usize; len];
    loop {
        let mut ops: Vec<String> =
            ["mode threads", "proc", "proc", "thread 1", "thread 0", "thread 0"].iter().map(|s| s.to_string()).collect();
        for (k, &c) in idx.iter().enumerate() {
            let ch = &choices[c];
            if ch.contains("add") {
                ops.push(format!("{ch} {} {}", 100 * (k + 1), k + 1));
            } else {
                ops.push(ch.clone());
            }
            for &a in &addrs {
                ops.push(format!("frame 0 ip {a}"));
                ops.push(format!("fsym 1 1 ip {a}"));
            }
            ops.push("pdump".to_string());
        }
        for &a in &addrs {
            ops.push(format!("fsym 0 0 ra {a}"));
            ops.push(format!("frame 2 ra {a}"));
            ops.push(format!("frame 1 ara {a}"));
        }
        ops.push("proc".to_string());
        ops.push("thread 2".to_string());
        ops.push("frame 3 ip 15".to_string());
        ops.push("fsym 3 3 ra 20".to_string());
        ops.push("pdump".to_string());
        let name = format!("xt{len}-{}", idx.iter().map(|c| format!("{c:x}.")).collect::<String>());
        out.push(Case { name, ops });
        let mut k = 0;
        loop {
            if k == len {
                return;
            }
            idx[k] += 1;
            if idx[k] < n {
                break;
            }
            idx[k] = 0;
            k += 1;
        }
    }
}

/// JIT shape (lib_mappings.rs doc comment): 200..1000 live adjacent small mappings, then calls that swallow runs of
/// them, remove single ones, re-add; probes at boundaries all over the table
fn gen_table_jit(rng: &mut Rng) -> Vec<String> {
    let n = rng.range(200, 1000);
    let base = *rng.pick(&[0u64, 0x1000, 0x7fff_0000_0000, 0xffff_8000_0000_0000]);
    let width = *rng.pick(&[1u64, 1, 2, 16]);
    let gap_every = *rng.pick(&[0u64, 7, 64]); // 0: all adjacent; otherwise a one-unit hole after every `gap_every` mappings
    let mut ops = vec!["mode table".to_string()];
    let mut starts: Vec<u64> = Vec::new();
    let mut x = base;
    let mut order: Vec<u64> = Vec::new();
    for i in 0..n {
        order.push(x);
        starts.push(x);
        x += width;
        if gap_every != 0 && (i + 1) % gap_every == 0 {
            x += width;
        }
    }
    let end = x;
    // ascending (JIT bump allocation), descending, or shuffled insertion order
    match rng.below(3) {
        0 => {}
        1 => order.reverse(),
        _ => rng.shuffle(&mut order),
    }
    for (k, s) in order.iter().enumerate() {
        ops.push(format!("add {s} {} {} {}", s + width, (s - base) % 4096, k + 1));
    }
    let probe_some = |rng: &mut Rng, ops: &mut Vec<String>, extra: &[u64]| {
        let mut set: BTreeSet<u64> = extra.iter().copied().collect();
        for _ in 0..40 {
            let s = *rng.pick(&starts);
            set.insert(s);
            set.insert(s.saturating_sub(1));
            set.insert(s + width - 1);
            set.insert(s + width);
        }
        set.insert(base);
        set.insert(end - 1);
        set.insert(end);
        ops.push(probe_line(&set));
    };
    probe_some(rng, &mut ops, &[]);
    ops.push("dump".to_string());
    let n_more = rng.range(10, 40);
    for k in 0..n_more {
        let i = rng.below(n) as usize;
        let s = starts[i];
        match rng.below(6) {
            0 | 1 => {
                // swallow a run of up to 130 mappings, starting at / inside / just before one
                let run = *rng.pick(&[1u64, 2, 8, 63, 64, 65, 130]);
                let s2 = if width > 1 && rng.chance(1, 2) { s + 1 } else { s };
                let e2 = (s + run * width).min(end + 5);
                ops.push(format!("add {s2} {e2} 5 {}", 100_000 + k));
                probe_some(rng, &mut ops, &[s2.saturating_sub(1), s2, e2 - 1, e2, s]);
            }
            2 | 3 => {
                ops.push(format!("remove {s}"));
                probe_some(rng, &mut ops, &[s.saturating_sub(1), s, s + width - 1, s + width]);
            }
            4 => {
                ops.push(format!("add {s} {} 9 {}", s + width, 200_000 + k));
                probe_some(rng, &mut ops, &[s.saturating_sub(1), s, s + width - 1, s + width]);
            }
            _ => {
                ops.push(format!("remove {}", s + width)); // usually the next start; in a hole: nothing
                probe_some(rng, &mut ops, &[s + width]);
            }
        }
        if k % 8 == 7 {
            ops.push("dump".to_string());
        }
    }
    ops.push("dump".to_string());
    ops
}

impl Prop for C11 {
    fn id(&self) -> &'static str {
        "C11"
    }
    fn case_count(&self, tier: Tier) -> u64 {
        match tier {
            Tier::Quick => 4000,
            Tier::Thorough => 50000,
        }
    }
    fn fixed_cases(&self, tier: Tier) -> Vec<Case> {
        let mut v = boundary_cases();
        let g5 = [10u64, 20, 30, 40, 50];
        let g4 = [10u64, 20, 30, 40];
        match tier {
            Tier::Quick => {
                for len in 0..=3 {
                    enum_table(&g5, len, "x5g", &mut v);
                }
                enum_table(&g4, 4, "x4g", &mut v);
                for len in 0..=2 {
                    enum_profile(len, &mut v);
                }
                for len in 0..=2 {
                    enum_threads(len, &mut v);
                }
            }
            Tier::Thorough => {
                for len in 0..=4 {
                    enum_table(&g5, len, "x5g", &mut v);
                }
                enum_table(&g4, 5, "x4g", &mut v);
                for len in 0..=3 {
                    enum_profile(len, &mut v);
                }
                for len in 0..=3 {
                    enum_threads(len, &mut v);
                }
            }
        }
        v
    }
    fn generate(&self, rng: &mut Rng, tier: Tier, _index: u64) -> Vec<String> {
        let fam = match rng.below(20) {
            0..=10 => Family::Grid,
            11..=12 => Family::Max,
            13..=15 => Family::Guard,
            16..=17 => Family::Excluded,
            _ => Family::Long,
        };
        // the JIT-shaped tables are ~100 times as expensive to judge as an ordinary case: ~25 of them in the quick
        // tier, ~125 in the thorough tier
        let jit_den = match tier {
            Tier::Quick => 160,
            Tier::Thorough => 400,
        };
        if rng.chance(1, jit_den) {
            return gen_table_jit(rng);
        }
        match rng.below(40) {
            0..=20 => gen_table(rng, fam),
            21..=26 => gen_profile(rng, fam),
            _ => gen_threads(rng, fam),
        }
    }
    fn execute(&self, ops: &[String], stats: &mut Stats) -> Vec<String> {
        match ops.first().map(|s| s.trim()) {
            Some("mode table") => {
                stats.bump("mode_table");
                exec_table(&ops[1..], stats)
            }
            Some("mode profile") => {
                stats.bump("mode_profile");
                exec_profile(&ops[1..], stats)
            }
            Some("mode threads") => {
                stats.bump("mode_threads");
                exec_threads(&ops[1..], stats)
            }
            _ => vec!["bad-op".to_string()],
        }
    }
    fn nontrivial(&self, ops: &[String], out: &[String]) -> bool {
        // at least two mapping calls, and at least one address resolved into a mapping
        let calls = ops.iter().filter(|l| l.contains("add ") || l.contains("remove ") || l.contains("clear")).count();
        let hit = out.iter().any(|l| {
            l.starts_with("frame lib") || (l.starts_with("res") && l.split_whitespace().skip(1).any(|t| !t.starts_with("-/")))
        });
        calls >= 2 && hit
    }
}

fn main() {
    verif_harness::runner::run_main(&C11);
}
