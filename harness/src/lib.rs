//! verif-harness library: shared plumbing (`common`), the case runner (`runner`) and input
//! generators shared between properties (`gen`). One binary per property lives in `src/bin/`.
#![allow(dead_code)]
pub mod common;
pub mod gen;
pub mod runner;
